#!/venv/bin/python
"""Run /repo's pinned test suite (guard off) and compare with /root/.vp/BASELINE.json stable_pass.
usage: baseline.py [repo_dir]   -> exit 0 iff every stable_pass test passes."""
import json, os, subprocess, sys, tempfile
import xml.etree.ElementTree as ET

repo = sys.argv[1] if len(sys.argv) > 1 else os.environ.get("VERIF_REPO", "/repo")
base = json.load(open("/root/.vp/BASELINE.json"))
fd, path = tempfile.mkstemp(suffix=".xml"); os.close(fd)
env = {k: v for k, v in os.environ.items() if k not in ("ARIADNE_CODEGEN_VERIF", "PYTHONPATH")}
subprocess.run(["/venv/bin/python", "-m", "pytest", "-q", "-p", "no:cacheprovider", "--timeout=900",
                "--continue-on-collection-errors", f"--junitxml={path}"], cwd=repo, env=env,
               stdout=subprocess.DEVNULL, stderr=subprocess.DEVNULL)
passed = set()
for tc in ET.parse(path).getroot().iter("testcase"):
    if not any(ch.tag in ("failure", "error", "skipped") for ch in tc):
        passed.add(f"{tc.get('classname')}::{tc.get('name')}".replace(os.path.realpath(repo), "/repo").replace(repo, "/repo"))
os.unlink(path)
want = set(base["stable_pass"])
missing = sorted(want - passed)
print(f"stable_pass {len(want)}  passed now {len(passed)}  missing {len(missing)}")
for m in missing[:30]:
    print("  MISSING", m)
sys.exit(1 if missing else 0)
