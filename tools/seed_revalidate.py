#!/venv/bin/python
"""seed_revalidate.py [-j N] [ids...]  — re-run every recorded seeded change of /verif/seeded against /repo's CURRENT HEAD.

For each change, in its own scratch worktree (outside /repo and /verif, removed afterwards):
  demo without the change (must exit 0), apply patch.diff (plain, then --3way), demo with the change (must fail),
  the pinned test-suite (tools/baseline.py: 0 missing), then `VERIF_REPO=<worktree> ./check <id> quick` for the checks
  recorded for it.  The result goes to meta.json["verification"]["at_head"]; a change whose patch no longer applies, whose
  demo already fails (or no longer fails), or which now breaks a pinned test is marked obsolete there WITH the reason -
  the earlier record is kept.  Finally seeded/README.md is rewritten."""
import concurrent.futures as cf
import json, os, re, shutil, subprocess, sys, tempfile

ROOT = "/verif/seeded"
PY = "/venv/bin/python"


def sh(cmd, **kw):
    return subprocess.run(cmd, stdout=subprocess.PIPE, stderr=subprocess.STDOUT, text=True, **kw)


def demo(d, wt):
    f = os.path.join(d, "demo.py")
    env = dict(os.environ, PYTHONPATH=wt, PYTHONHASHSEED="0")
    if os.path.exists(f):
        return sh(["timeout", "600", PY, f], cwd="/tmp", env=env).returncode
    f = os.path.join(d, "test_demo.py")
    return sh(["timeout", "600", PY, "-m", "pytest", "-q", "-p", "no:cacheprovider", f], cwd="/tmp", env=env).returncode


def one(sid):
    d = os.path.join(ROOT, sid)
    meta = json.load(open(os.path.join(d, "meta.json")))
    v = meta.setdefault("verification", {})
    ids = list(v.get("checks", {}).keys()) or [meta["property"]]
    head = sh(["git", "-C", "/repo", "rev-parse", "--short", "HEAD"]).stdout.strip()
    rec = {"repo_head": head}
    wt = tempfile.mkdtemp(prefix="seedrv-", dir="/var/tmp")
    out = tempfile.mkdtemp(prefix="seedrv-out-", dir="/var/tmp")
    try:
        import time
        for attempt in range(6):       # concurrent `git worktree add` calls contend for a lock
            if sh(["git", "-C", "/repo", "worktree", "add", "-q", "--detach", "--force", wt, "HEAD"]).returncode == 0:
                break
            time.sleep(1 + attempt)
        else:
            rec["error"] = "worktree"
            return sid, rec
        rec["demo_without_change_exit"] = demo(d, wt)
        p = os.path.join(d, "patch.diff")
        if sh(["git", "-C", wt, "apply", p]).returncode:
            r = sh(["git", "-C", wt, "apply", "--3way", p])
            if r.returncode or "U " in sh(["git", "-C", wt, "status", "--short"]).stdout:
                rec["obsolete"] = "patch no longer applies at " + head
                return sid, rec
            rec["applied"] = "3way"
        rec["demo_with_change_exit"] = demo(d, wt)
        b = sh(["/verif/tools/baseline.py", wt]).stdout
        m = re.search(r"stable_pass (\d+)\s+passed now (\d+)\s+missing (\d+)", b)
        rec["baseline"] = {"stable_pass": int(m.group(1)), "passed": int(m.group(2)), "missing": int(m.group(3))} if m else None
        if rec["demo_without_change_exit"] != 0:
            rec["obsolete"] = f"the demonstration already fails on unchanged {head} (exit {rec['demo_without_change_exit']}): a later fix changed the behaviour it pins"
        elif rec["demo_with_change_exit"] == 0:
            rec["obsolete"] = f"with the change applied the demonstration passes at {head}: a later fix made the change harmless"
        elif not rec["baseline"] or rec["baseline"]["missing"]:
            rec["obsolete"] = f"the change now breaks a pinned test at {head}"
        checks = {}
        for cid in ids:
            o = os.path.join(out, cid)
            env = dict(os.environ, VERIF_REPO=wt, VERIF_OUT_DIR=o)
            r = sh(["/verif/check", cid, "quick"], env=env)
            lines = r.stdout.splitlines()
            viol = [l for l in lines if l.startswith("VIOLATION")]
            checks[cid] = {"exit": r.returncode, "violations": len(viol),
                           "without_input": sum("no-failing-input-found" in l for l in viol)}
        rec["checks"] = checks
        return sid, rec
    finally:
        sh(["git", "-C", "/repo", "worktree", "remove", "--force", wt])
        shutil.rmtree(wt, ignore_errors=True)
        shutil.rmtree(out, ignore_errors=True)


def main():
    args = sys.argv[1:]
    jobs = 4
    if args[:1] == ["-j"]:
        jobs = int(args[1]); args = args[2:]
    sids = args or sorted(s for s in os.listdir(ROOT) if os.path.exists(os.path.join(ROOT, s, "meta.json")))
    with cf.ThreadPoolExecutor(jobs) as ex:
        for sid, rec in ex.map(one, sids):
            p = os.path.join(ROOT, sid, "meta.json")
            meta = json.load(open(p))
            meta.setdefault("verification", {})["at_head"] = rec
            json.dump(meta, open(p, "w"), indent=1)
            ck = rec.get("checks", {})
            print(sid, rec.get("obsolete") or "", {k: c["exit"] for k, c in ck.items()}, flush=True)
    sh(["git", "-C", "/repo", "worktree", "prune"])
    sh(["/verif/tools/seed_record.py"])      # no arguments: only rewrites seeded/README.md


if __name__ == "__main__":
    main()
