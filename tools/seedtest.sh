#!/bin/bash
# seedtest.sh <seed-dir> [check-ids...]   -- confirm a seeded change and run checks against it.
# <seed-dir> holds patch.diff, demo.py|test_demo.py, meta.json. Uses a scratch worktree of /repo HEAD.
set -u
D=$(cd "$1" && pwd); shift
PROP=$(/venv/bin/python -c "import json,sys;print(json.load(open('$D/meta.json'))['property'])")
IDS=${*:-$PROP}
WT=$(mktemp -d /var/tmp/seedwt-XXXXXX)
git -C /repo worktree add -q --detach "$WT" HEAD || exit 2
cleanup(){ git -C /repo worktree remove --force "$WT" 2>/dev/null; rm -rf "$WT"; }
trap cleanup EXIT
DEMO=$D/demo.py; [ -f "$DEMO" ] || DEMO=$D/test_demo.py
rundemo(){ if [[ "$DEMO" == *test_demo.py ]]; then (cd /tmp && PYTHONPATH="$WT" /venv/bin/python -m pytest -q -p no:cacheprovider "$DEMO" >/dev/null 2>&1); else (cd /tmp && PYTHONPATH="$WT" timeout 600 /venv/bin/python "$DEMO" >/dev/null 2>&1); fi; echo $?; }
echo "demo without change: exit $(rundemo)"
if ! git -C "$WT" apply "$D/patch.diff"; then echo "PATCH DOES NOT APPLY"; exit 3; fi
echo "demo with change:    exit $(rundemo)"
echo -n "baseline with change: "; /verif/tools/baseline.py "$WT" | head -1
for id in $IDS; do
  s=$(date +%s)
  VERIF_OUT_DIR=/tmp/seedtest-out VERIF_REPO="$WT" /verif/check $id quick > /tmp/seedtest-$id.out 2>&1; rc=$?
  echo "check $id: exit $rc, $(grep -c '^VIOLATION' /tmp/seedtest-$id.out) VIOLATION lines ($(grep -c 'no-failing-input-found' /tmp/seedtest-$id.out) without input), $(( $(date +%s)-s )) s"
  grep '^VIOLATION' /tmp/seedtest-$id.out | head -2
done
