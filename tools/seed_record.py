#!/venv/bin/python
"""seed_record.py <seed-out-dir>...  — run tools/seedtest.sh on each seeded change, copy it to /verif/seeded/<id>/
with the verification record, and regenerate /verif/seeded/README.md."""
import json, os, re, shutil, subprocess, sys

ROOT = "/verif/seeded"
os.makedirs(ROOT, exist_ok=True)
for arg in sys.argv[1:]:
    d, _, extra = arg.partition(":")          # <dir>[:C08,C01]  extra checks to run besides the property's own
    d = d.rstrip("/")
    sid = os.path.basename(d)
    meta = json.load(open(os.path.join(d, "meta.json")))
    ids = [meta["property"]] + [x for x in extra.split(",") if x]
    out = subprocess.run(["/verif/tools/seedtest.sh", d] + ids, stdout=subprocess.PIPE, stderr=subprocess.STDOUT, text=True).stdout
    out = "\n".join(l for l in out.splitlines() if not l.startswith("WARNING conda"))
    rec = {"seedtest_output": out}
    m = re.search(r"demo without change: exit (\d+)", out); rec["demo_without_change_exit"] = int(m.group(1)) if m else None
    m = re.search(r"demo with change:\s+exit (\d+)", out); rec["demo_with_change_exit"] = int(m.group(1)) if m else None
    m = re.search(r"baseline with change: stable_pass (\d+)\s+passed now (\d+)\s+missing (\d+)", out)
    rec["baseline"] = {"stable_pass": int(m.group(1)), "passed": int(m.group(2)), "missing": int(m.group(3))} if m else None
    checks = {}
    for m in re.finditer(r"check (C\d+): exit (\d+), (\d+) VIOLATION lines \((\d+) without input\)", out):
        checks[m.group(1)] = {"exit": int(m.group(2)), "violations": int(m.group(3)), "without_input": int(m.group(4))}
    rec["checks"] = checks
    rec["confirmed"] = (rec["demo_without_change_exit"] == 0 and rec["demo_with_change_exit"] not in (0, None)
                        and rec["baseline"] is not None and rec["baseline"]["missing"] == 0)
    rec["repo_head"] = subprocess.run(["git", "-C", "/repo", "rev-parse", "--short", "HEAD"], stdout=subprocess.PIPE, text=True).stdout.strip()
    meta["verification"] = rec
    dst = os.path.join(ROOT, sid)
    os.makedirs(dst, exist_ok=True)
    for f in os.listdir(d):
        if f != "meta.json" and os.path.isfile(os.path.join(d, f)):
            shutil.copy(os.path.join(d, f), dst)
    json.dump(meta, open(os.path.join(dst, "meta.json"), "w"), indent=1)
    print(sid, "confirmed" if rec["confirmed"] else "NOT CONFIRMED", checks)

rows = []
for sid in sorted(os.listdir(ROOT)):
    p = os.path.join(ROOT, sid, "meta.json")
    if not os.path.exists(p):
        continue
    m = json.load(open(p)); v = m.get("verification", {})
    ah = v.get("at_head") or {}
    ck = ah.get("checks") or v.get("checks", {})
    caught = "; ".join(f"{k}: " + ("caught" + (" (concrete input)" if c["violations"] > c["without_input"] else " (no-failing-input-found)") if c["exit"] else "MISSED")
                       for k, c in ck.items())
    if ah.get("checks"):
        caught += f" (re-run at {ah.get('repo_head')})"
    if ah.get("obsolete"):
        caught = f"OBSOLETE at {ah.get('repo_head')}: " + ah["obsolete"][:200] + " — when recorded: " + "; ".join(
            f"{k}: " + ("caught" if c.get("exit") else "MISSED") for k, c in v.get("checks", {}).items() if "exit" in c)
    elif v.get("obsolete"):
        caught = "OBSOLETE: " + v["obsolete"][:160]
    rows.append(f"| {sid} | {m.get('property')} | {m.get('title','')[:90]} | {m.get('needs_to_manifest','')[:110]} | {'yes' if (v.get('confirmed') or v.get('confirmed_at_creation') or (ah and not ah.get('obsolete') and ah.get('demo_without_change_exit') == 0 and ah.get('demo_with_change_exit') not in (0, None) and (ah.get('baseline') or {}).get('missing') == 0)) else 'no'} | {caught} |")
open(os.path.join(ROOT, "README.md"), "w").write(
    "# Seeded changes\n\nEach directory holds a change to /repo written by an independent agent that saw only the property text "
    "(patch.diff, demo, meta.json incl. our verification record). `confirmed` = demo exits 0 without / non-zero with the change and all "
    "676 pinned tests still pass. Last column: result of `VERIF_REPO=<scratch worktree with the change> ./check <id> quick`.\n\n"
    "| id | property | change | needs to manifest | confirmed | check result |\n|---|---|---|---|---|---|\n" + "\n".join(rows) + "\n")
