#!/bin/bash
# Offline setup: build the Coq development (full .vo), extract, build OCaml drivers.
set -e
ROOT="$(cd "$(dirname "${BASH_SOURCE[0]}")" && pwd)"
cd "$ROOT"
export VERIF_ROOT="$ROOT"
./coq/build.sh all
echo "setup ok"
