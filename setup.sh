#!/bin/bash
# Offline setup: build the Coq development (full .vo), extract, build OCaml drivers.
set -e
cd /verif
export VERIF_ROOT=/verif
./coq/build.sh all
PYTHONPATH=/verif/harness /venv/bin/python -m compileall -q harness/vh >/dev/null 2>&1 || true
echo "setup ok"
