"""Coq side of a check: full build, the property's theorem file, Print Assumptions, hygiene."""
from __future__ import annotations

import fcntl
import os
import re
import subprocess
import time

VERIF = os.environ.get("VERIF_ROOT", "/verif")
COQ = os.path.join(VERIF, "coq")

FORBIDDEN = re.compile(
    r"\b(Admitted|admit|Axiom|Axioms|Parameter|Parameters|Conjecture|Conjectures|Admit\s+Obligations)\b"
    r"|Unset\s+Guard|bypass_check|type-in-type|impredicative-set|Unset\s+Positivity|Unset\s+Universe"
)
TOPLEVEL_VAR = re.compile(r"^\s*(Variable|Variables|Hypothesis|Hypotheses)\b")


def _strip_comments(text: str) -> str:
    out, depth, i = [], 0, 0
    in_str = False
    while i < len(text):
        two = text[i : i + 2]
        if not in_str and two == "(*":
            depth += 1
            i += 2
            continue
        if not in_str and depth and two == "*)":
            depth -= 1
            i += 2
            continue
        c = text[i]
        if depth == 0:
            if c == '"':
                in_str = not in_str
            out.append(c)
        elif c == "\n":
            out.append(c)
        i += 1
    return "".join(out)


def hygiene() -> list[str]:
    """Forbidden constructs anywhere in the development (comments and string literals ignored)."""
    hits = []
    for root, _dirs, files in os.walk(os.path.join(COQ, "theories")):
        for f in files:
            if not f.endswith(".v"):
                continue
            p = os.path.join(root, f)
            text = _strip_comments(open(p).read())
            text_nostr = re.sub(r'"[^"]*"', '""', text)
            depth = 0
            for ln, line in enumerate(text_nostr.splitlines(), 1):
                if FORBIDDEN.search(line):
                    hits.append(f"{p}:{ln}: {line.strip()[:80]}")
                if re.match(r"^\s*Section\b", line):
                    depth += 1
                elif re.match(r"^\s*End\b", line) and depth:
                    depth -= 1
                elif depth == 0 and TOPLEVEL_VAR.match(line):
                    hits.append(f"{p}:{ln}: {line.strip()[:80]}")
    proj = os.path.join(COQ, "_CoqProject")
    if os.path.exists(proj) and re.search(r"type-in-type|impredicative-set|-vos|-vok", open(proj).read()):
        hits.append("_CoqProject: forbidden flag")
    return hits


def build(what: str = "all") -> tuple[bool, str]:
    """Run coq/build.sh under a lock (checks may run concurrently)."""
    os.makedirs(os.path.join(VERIF, "build"), exist_ok=True)
    with open(os.path.join(VERIF, "build", ".lock"), "w") as lk:
        fcntl.flock(lk, fcntl.LOCK_EX)
        p = subprocess.run(
            [os.path.join(COQ, "build.sh"), what], stdout=subprocess.PIPE, stderr=subprocess.STDOUT,
            timeout=3600,
        )
    out = p.stdout.decode(errors="replace")
    return p.returncode == 0 and "build ok" in out, out


THEOREM = re.compile(r"^\s*(Theorem|Lemma|Corollary|Example|Fact|Proposition)\s+([A-Za-z0-9_']+)", re.M)


def property_file(prop: str) -> str:
    return os.path.join(COQ, "theories", "Properties", f"{prop}.v")


def obligations(prop: str, thorough: bool = False) -> dict:
    """Compile Properties/<prop>.v on its own, capturing Print Assumptions output."""
    t0 = time.time()
    path = property_file(prop)
    res = {
        "file": path, "obligations": 0, "discharged": 0, "theorems": [], "assumptions": {},
        "axioms": [], "ok": False, "log": "", "hygiene": [],
        "checker_cmd": f"cd {COQ} && ./build.sh coq && coqc -Q theories AC theories/Properties/{prop}.v",
    }
    if not os.path.exists(path):
        res["log"] = "no property file"
        return res
    src = _strip_comments(open(path).read())
    names = [m.group(2) for m in THEOREM.finditer(src)]
    res["theorems"] = names
    res["obligations"] = len(names)
    if re.search(r"\bQed\b", src) is None:
        res["log"] = "no proofs in property file"
        return res
    res["hygiene"] = hygiene()
    p = subprocess.run(
        ["coqc", "-Q", "theories", "AC", f"theories/Properties/{prop}.v"], cwd=COQ,
        stdout=subprocess.PIPE, stderr=subprocess.STDOUT, timeout=1800,
    )
    out = p.stdout.decode(errors="replace")
    res["log"] = out[-4000:]
    if p.returncode != 0:
        m = re.search(r'line (\d+)', out)
        # theorems stated before the failing line are discharged
        if m:
            bad = int(m.group(1))
            lines = open(path).read().splitlines()
            done = [n for n in names if any(re.search(rf"\b{re.escape(n)}\b", l) for l in lines[: bad - 1])]
            res["discharged"] = max(0, len(done) - 1)
        return res
    res["discharged"] = len(names)
    # Print Assumptions blocks: either "Closed under the global context" or "Axioms:\n name : type ..."
    blocks = re.split(r"(?=Closed under the global context|Axioms:)", out)
    printed = [b for b in blocks if b.startswith("Closed under") or b.startswith("Axioms:")]
    axioms = set()
    for b in printed:
        if b.startswith("Axioms:"):
            for line in b.splitlines()[1:]:
                m = re.match(r"^([A-Za-z0-9_.']+)\s*:", line)
                if m:
                    axioms.add(m.group(1))
    res["assumptions"] = {"printed": len(printed), "closed": sum(b.startswith("Closed") for b in printed)}
    res["axioms"] = sorted(axioms)
    res["ok"] = not res["hygiene"]
    if thorough:
        vo = f"AC.Properties.{prop}"
        q = subprocess.run(
            ["coqchk", "-silent", "-o", "-Q", "theories", "AC", vo], cwd=COQ,
            stdout=subprocess.PIPE, stderr=subprocess.STDOUT, timeout=3600,
        )
        chk = q.stdout.decode(errors="replace")
        res["coqchk"] = {"exit": q.returncode, "tail": chk[-1500:]}
        if q.returncode != 0:
            res["ok"] = False
    res["wall_s"] = round(time.time() - t0, 2)
    return res
