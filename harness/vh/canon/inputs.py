"""Encoders (graphql-core schema -> model S-expressions) and the canonicaliser of a generated
input_types.py (Python `ast` -> the same nested-list form the model prints) for C06."""
from __future__ import annotations

import ast

from graphql import (BooleanValueNode, EnumValueNode, FloatValueNode, GraphQLEnumType, GraphQLInputObjectType,
                     GraphQLList, GraphQLNonNull, GraphQLScalarType, IntValueNode, ListValueNode, NullValueNode,
                     ObjectValueNode, StringValueNode, is_specified_scalar_type)

from ..sexp import Sym, opt


# ------------------------------------------------------------------ encoders
def type_sx(t):
    if isinstance(t, GraphQLNonNull):
        return [Sym("nn"), type_sx(t.of_type)]
    if isinstance(t, GraphQLList):
        return [Sym("l"), type_sx(t.of_type)]
    return [Sym("n"), t.name]


def lit_sx(node):
    if isinstance(node, IntValueNode):
        return [Sym("i"), int(node.value)]
    if isinstance(node, FloatValueNode):
        return [Sym("f"), node.value]
    if isinstance(node, StringValueNode):
        return [Sym("s"), node.value]
    if isinstance(node, BooleanValueNode):
        return [Sym("b"), bool(node.value)]
    if isinstance(node, NullValueNode):
        return Sym("null")
    if isinstance(node, EnumValueNode):
        return [Sym("e"), node.value]
    if isinstance(node, ListValueNode):
        return [Sym("l")] + [lit_sx(v) for v in node.values]
    if isinstance(node, ObjectValueNode):
        return [Sym("o")] + [[f.name.value, lit_sx(f.value)] for f in node.fields]
    raise TypeError(node)


def rebuilt_default(f):
    """an introspected field has no SDL node: the default literal is what graphql-core renders from the
    coerced default (ast_from_value); Undefined -> no default"""
    from graphql import GraphQLError, Undefined, ast_from_value

    if f.default_value is Undefined:
        return None
    try:
        return ast_from_value(f.default_value, f.type)
    except (TypeError, GraphQLError):
        return None


def schema_sx(gs):
    """scalars (custom), enums and input objects in type_map order"""
    out = []
    for name, t in gs.type_map.items():
        if name.startswith("__"):
            continue
        if isinstance(t, GraphQLScalarType):
            if not is_specified_scalar_type(t):
                out.append([name, Sym("scalar")])
        elif isinstance(t, GraphQLEnumType):
            out.append([name, Sym("enum")] + list(t.values))
        elif isinstance(t, GraphQLInputObjectType):
            fs = []
            for fn, f in t.fields.items():
                d = f.ast_node.default_value if f.ast_node is not None else None
                if d is None and f.ast_node is None:
                    d = rebuilt_default(f)
                fs.append([fn, type_sx(f.type), opt(lit_sx(d)) if d is not None else None])
            out.append([name, Sym("input")] + fs)
    return out


def obj_name(path):
    return path.rsplit(".", 1)[-1]


def customs_sx(cfg_scalars):
    out = []
    for name, d in (cfg_scalars or {}).items():
        ser = d.get("serialize")
        out.append([name, obj_name(d["type"]), opt(obj_name(ser)) if ser else None])
    return out


def cvalue_py(e):
    """model cvalue sexp -> the Python value graphql-core would produce (enum values by name)"""
    if e == "null":
        return None
    tag = e[0]
    if tag == "i":
        return int(e[1])
    if tag == "f":
        return float(e[1])
    if tag in ("s", "e"):
        return e[1]
    if tag == "b":
        return e[1] == "t"
    if tag == "l":
        return [cvalue_py(x) for x in e[1:]]
    if tag == "o":
        return {k: cvalue_py(v) for k, v in e[1:]}
    raise ValueError(e)


def optv(e):
    """model option sexp -> (present, payload)"""
    if e == "none":
        return False, None
    return True, e[1]


# ------------------------------------------------------------------ canonicaliser
class CanonError(Exception):
    pass


def canon_ann(node, enums):
    if isinstance(node, ast.Constant) and isinstance(node.value, str):
        return ["class", node.value]
    if isinstance(node, ast.Name):
        if node.id in ("str", "int", "float", "bool", "Any", "Upload"):
            return node.id
        if node.id in enums:
            return ["enum", node.id]
        return ["custom", node.id]
    if isinstance(node, ast.Subscript) and isinstance(node.value, ast.Name):
        head = node.value.id
        if head in ("Optional", "List"):
            return [head, canon_ann(node.slice, enums)]
        if head == "Annotated" and isinstance(node.slice, ast.Tuple) and len(node.slice.elts) == 2:
            t, c = node.slice.elts
            if (isinstance(t, ast.Name) and isinstance(c, ast.Call) and isinstance(c.func, ast.Name)
                    and c.func.id == "PlainSerializer" and len(c.args) == 1 and isinstance(c.args[0], ast.Name)):
                return ["custom", t.id, c.args[0].id]
    raise CanonError("annotation " + ast.dump(node))


def norm_float(lexeme: str) -> str:
    return repr(float(lexeme))


def canon_expr(node):
    if isinstance(node, ast.Constant):
        v = node.value
        if v is None:
            return "None"
        if isinstance(v, bool):
            return ["bool", "t" if v else "f"]
        if isinstance(v, int):
            return ["int", str(v)]
        if isinstance(v, float):
            return ["float", repr(v)]
        if isinstance(v, str):
            return ["str", v]
    if isinstance(node, ast.UnaryOp) and isinstance(node.op, ast.USub) and isinstance(node.operand, ast.Constant):
        v = node.operand.value
        if isinstance(v, bool):
            raise CanonError("neg bool")
        if isinstance(v, int):
            return ["int", str(-v)]
        if isinstance(v, float):
            return ["float", repr(-v)]
    if isinstance(node, ast.List):
        return ["list"] + [canon_expr(x) for x in node.elts]
    if isinstance(node, ast.Dict):
        out = ["dict"]
        for k, v in zip(node.keys, node.values):
            if not (isinstance(k, ast.Constant) and isinstance(k.value, str)):
                raise CanonError("dict key")
            out.append([k.value, canon_expr(v)])
        return out
    if isinstance(node, ast.Name):
        return ["name", node.id]
    if isinstance(node, ast.Attribute) and isinstance(node.value, ast.Name):
        return ["name", node.value.id + "." + node.attr]
    if isinstance(node, ast.Lambda) and not node.args.args:
        return ["lambda", canon_expr(node.body)]
    if isinstance(node, ast.Call):
        f = node.func
        if isinstance(f, ast.Name) and f.id == "Field" and not node.args:
            return ["Field"] + [[k.arg, canon_expr(k.value)] for k in node.keywords]
        if (isinstance(f, ast.Attribute) and f.attr == "model_validate" and isinstance(f.value, ast.Subscript)
                and isinstance(f.value.value, ast.Call) and isinstance(f.value.value.func, ast.Name)
                and f.value.value.func.id == "globals" and isinstance(f.value.slice, ast.Constant)
                and len(node.args) == 1 and not node.keywords):
            return ["validate", f.value.slice.value, canon_expr(node.args[0])]
    raise CanonError("expression " + ast.dump(node)[:200])


def norm_model_expr(e):
    """model-side expression sexp: float lexemes normalised the way Python prints them"""
    if isinstance(e, list):
        if e and e[0] == "float" and len(e) == 2:
            return ["float", norm_float(e[1])]
        return [norm_model_expr(x) for x in e]
    return e


def alias_of(value):
    if isinstance(value, list) and value and value[0] == "Field":
        for k, v in value[1:]:
            if k == "alias" and isinstance(v, list) and v[0] == "str":
                return ["some", v[1]]
    return "none"


def canon_module(text: str, enums):
    """input_types.py -> [classes, rebuild calls, imported enum names]; classes = [name, [[field, ann,
    option value, option alias]...]] exactly as Model/Inputs.v prints them"""
    tree = ast.parse(text)
    classes, rebuilds, imported = [], [], []
    for st in tree.body:
        if isinstance(st, ast.ClassDef):
            fields = []
            for b in st.body:
                if isinstance(b, ast.Pass):
                    continue
                if not (isinstance(b, ast.AnnAssign) and isinstance(b.target, ast.Name)):
                    raise CanonError("class body " + ast.dump(b)[:100])
                val = canon_expr(b.value) if b.value is not None else None
                fields.append([b.target.id, canon_ann(b.annotation, enums),
                               ["some", val] if val is not None else "none",
                               alias_of(val)])
            bases = [x.id for x in st.bases if isinstance(x, ast.Name)]
            if bases != ["BaseModel"]:
                raise CanonError(f"bases {bases}")
            classes.append([st.name, fields])
        elif isinstance(st, ast.Expr) and isinstance(st.value, ast.Call) and isinstance(st.value.func, ast.Attribute) \
                and st.value.func.attr == "model_rebuild" and isinstance(st.value.func.value, ast.Name):
            rebuilds.append(st.value.func.value.id)
        elif isinstance(st, ast.ImportFrom):
            if st.level == 1 and st.module == "enums":
                imported += [a.name for a in st.names]
        elif isinstance(st, ast.Import):
            pass
        else:
            raise CanonError("statement " + ast.dump(st)[:100])
    return [classes, rebuilds, sorted(set(imported))]
