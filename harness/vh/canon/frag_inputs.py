"""Encode a scenario for Model/Fragments.v and read class skeletons back from generated files (C08)."""
from __future__ import annotations

import ast

from graphql import (FieldNode, FragmentDefinitionNode, FragmentSpreadNode, GraphQLInterfaceType,
                     GraphQLObjectType, GraphQLUnionType, InlineFragmentNode, OperationDefinitionNode,
                     build_schema, get_named_type, parse)

from ..sexp import Sym


def schema_sx(schema):
    types, fields = [], []
    for name, t in schema.type_map.items():
        if name.startswith("__"):
            continue
        if isinstance(t, GraphQLObjectType):
            types.append([name, [Sym("obj"), [i.name for i in t.interfaces]]])
        elif isinstance(t, GraphQLInterfaceType):
            types.append([name, [Sym("iface"), [i.name for i in t.interfaces]]])
        elif isinstance(t, GraphQLUnionType):
            types.append([name, [Sym("union"), [m.name for m in t.types]]])
        else:
            types.append([name, Sym("leaf")])
        if isinstance(t, (GraphQLObjectType, GraphQLInterfaceType)):
            fields.append([name, [[fn, get_named_type(f.type).name] for fn, f in t.fields.items()]])
    return [types, fields]


def mixins_of(node):
    out = []
    for d in node.directives or ():
        if d.name.value == "mixin":
            args = {a.name.value: a.value.value for a in d.arguments}
            out.append([args.get("from", ""), args.get("import", "")])
    return out


def has_cond(node) -> bool:
    return any(d.name.value in ("skip", "include") for d in (node.directives or ()))


def sel_sx(selset):
    out = []
    for s in (selset.selections if selset else ()):
        if isinstance(s, FieldNode):
            out.append([Sym("f"), [Sym("some"), s.alias.value] if s.alias else Sym("none"), s.name.value,
                        mixins_of(s), sel_sx(s.selection_set)])
        elif isinstance(s, FragmentSpreadNode):
            out.append([Sym("s"), s.name.value, has_cond(s)])
        elif isinstance(s, InlineFragmentNode):
            if s.type_condition is None:
                raise ValueError("untyped inline fragment is outside the model (F2)")
            out.append([Sym("i"), s.type_condition.name.value, has_cond(s), sel_sx(s.selection_set)])
    return out


def size(selset) -> int:
    n = 1
    for s in (selset.selections if selset else ()):
        n += 1
        if getattr(s, "selection_set", None):
            n += size(s.selection_set)
    return n


class Encoded:
    def __init__(self, sdl: str, queries: str):
        self.schema = build_schema(sdl)
        self.doc = parse(queries)
        self.ops = [d for d in self.doc.definitions if isinstance(d, OperationDefinitionNode)]
        self.frags = [d for d in self.doc.definitions if isinstance(d, FragmentDefinitionNode)]
        self.frag_by_name = {f.name.value: f for f in self.frags}
        total = sum(size(d.selection_set) for d in self.doc.definitions)
        # resolve spends one unit per list position, nesting level and fragment hop
        self.fuel = (total + 4) * (len(self.frags) + 2)

    def command(self, snake: bool, oracle=None):
        frs = [[f.name.value, f.type_condition.name.value, mixins_of(f), sel_sx(f.selection_set)] for f in self.frags]
        ops = [[o.name.value, self.schema.get_root_type(o.operation).name, mixins_of(o), sel_sx(o.selection_set)]
               for o in self.ops]
        orc = [[k, v] for k, v in (oracle or {}).items()]
        return [Sym("package"), self.fuel, schema_sx(self.schema), frs, ops, snake, orc]


def decode_package(r):
    """model answer -> dict"""
    if r == "none" or (isinstance(r, list) and r and r[0] == "error"):
        return None
    ops_sx, exclude, table, module = r[1]

    def cls(c):
        return {"name": c[0], "type": c[1], "bases": c[2], "frags": c[3], "direct": c[4], "bfrags": c[5],
                "direct_at": [tuple(x) for x in c[6]]}

    out = {"ops": {}, "exclude": exclude, "table": {k: v for k, v in table}, "module": None}
    for name, classes, mix, unp, imports in ops_sx:
        out["ops"][name] = {"classes": [cls(c) for c in classes], "mix": mix, "unp": unp,
                            "imports": [tuple(p) for p in imports]}
    if module != "none":
        names, generated, order, classes, imports = module[1]
        out["module"] = {"names": names, "generated": generated, "order": order,
                         "imports": [tuple(p) for p in imports],
                         "classes": {n: [cls(c) for c in cs] for n, cs in classes}}
    return out


def skeleton(text: str):
    """[(class name, [base names])] in file order + import map {module: [names]} of a generated module."""
    tree = ast.parse(text)
    classes, imports = [], {}
    for node in tree.body:
        if isinstance(node, ast.ClassDef):
            classes.append((node.name, [ast.unparse(b) for b in node.bases]))
        elif isinstance(node, ast.ImportFrom):
            imports.setdefault("." * node.level + (node.module or ""), []).extend(a.name for a in node.names)
    return classes, imports
