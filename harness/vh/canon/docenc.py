"""graphql-core executable documents -> sexps for Gql/Doc.v decoders (full AST: arguments, directives,
values, variable definitions), and the same shape as plain Python lists for comparison with the model's
output (ids dropped)."""
from __future__ import annotations

from graphql import (BooleanValueNode, EnumValueNode, FieldNode, FloatValueNode, FragmentDefinitionNode,
                     FragmentSpreadNode, InlineFragmentNode, IntValueNode, ListTypeNode, ListValueNode,
                     NonNullTypeNode, NullValueNode, ObjectValueNode, OperationDefinitionNode, StringValueNode,
                     VariableNode)

from ..sexp import Sym, opt


def value(v):
    if isinstance(v, VariableNode):
        return [Sym("var"), v.name.value]
    if isinstance(v, IntValueNode):
        return [Sym("int"), v.value]
    if isinstance(v, FloatValueNode):
        return [Sym("float"), v.value]
    if isinstance(v, StringValueNode):
        return [Sym("str"), bool(v.block), v.value]
    if isinstance(v, BooleanValueNode):
        return [Sym("bool"), bool(v.value)]
    if isinstance(v, NullValueNode):
        return [Sym("null")]
    if isinstance(v, EnumValueNode):
        return [Sym("enum"), v.value]
    if isinstance(v, ListValueNode):
        return [Sym("list")] + [value(x) for x in v.values]
    if isinstance(v, ObjectValueNode):
        return [Sym("obj")] + [[f.name.value, value(f.value)] for f in v.fields]
    raise TypeError(v)


def args(node):
    return [[a.name.value, value(a.value)] for a in (node.arguments or ())]


def dirs(node):
    return [[d.name.value, args(d)] for d in (node.directives or ())]


def tref(t):
    if isinstance(t, NonNullTypeNode):
        return [Sym("nn"), tref(t.type)]
    if isinstance(t, ListTypeNode):
        return [Sym("l"), tref(t.type)]
    return [Sym("n"), t.name.value]


class Ids:
    def __init__(self):
        self.n = 0

    def next(self):
        self.n += 1
        return self.n


def sel(s, ids):
    if isinstance(s, FieldNode):
        i = ids.next()
        sub = None if s.selection_set is None else [Sym("some"), [sel(x, ids) for x in s.selection_set.selections]]
        return [Sym("f"), i, opt(s.alias.value if s.alias else None), s.name.value, args(s), dirs(s), sub]
    if isinstance(s, FragmentSpreadNode):
        return [Sym("s"), s.name.value, dirs(s)]
    if isinstance(s, InlineFragmentNode):
        return [Sym("i"), opt(s.type_condition.name.value if s.type_condition else None), dirs(s),
                [sel(x, ids) for x in s.selection_set.selections]]
    raise TypeError(s)


def vardef(v):
    return [v.variable.name.value, tref(v.type), opt(None if v.default_value is None else value(v.default_value)),
            dirs(v)]


def definition(d, ids):
    if isinstance(d, OperationDefinitionNode):
        return [Sym("op"), d.operation.value, d.name.value if d.name else "",
                [vardef(v) for v in (d.variable_definitions or ())], dirs(d),
                [sel(x, ids) for x in d.selection_set.selections]]
    if isinstance(d, FragmentDefinitionNode):
        return [Sym("frag"), d.name.value, d.type_condition.name.value, dirs(d),
                [sel(x, ids) for x in d.selection_set.selections]]
    raise TypeError(d)


def document(doc):
    """-> (fragments sexp list, operations sexp list) with ids unique over the whole document."""
    ids = Ids()
    ops = [definition(d, ids) for d in doc.definitions if isinstance(d, OperationDefinitionNode)]
    frs = [definition(d, ids) for d in doc.definitions if isinstance(d, FragmentDefinitionNode)]
    return frs, ops


def plain(e):
    """sexp (with Sym / bool / None / int) -> the nested lists of strings the model prints."""
    if isinstance(e, Sym):
        return e.name
    if e is True:
        return "t"
    if e is False:
        return "f"
    if e is None:
        return "none"
    if isinstance(e, int):
        return str(e)
    if isinstance(e, (list, tuple)):
        return [plain(x) for x in e]
    return e


def drop_ids(e):
    """plain definition sexp -> same without field ids (the model does not print them)."""
    if isinstance(e, list):
        if len(e) == 7 and e[0] == "f":
            return ["f"] + [drop_ids(x) for x in e[2:]]
        return [drop_ids(x) for x in e]
    return e


def parsed(doc):
    """a parsed document as the list of plain definitions the model's `docs` command prints"""
    ids = Ids()
    return [drop_ids(plain(definition(d, ids))) for d in doc.definitions]
