"""Generated result modules (files on disk, after unparse/autoflake/isort/black) -> abstract classes,
in the same shape as Py/Ann.v's pclass_sx output decoded by sexp.loads."""
from __future__ import annotations

import ast


class CanonError(Exception):
    pass


def ann(node, enums, custom_types):
    if isinstance(node, ast.Constant) and isinstance(node.value, str):
        return ["cls", node.value]
    if isinstance(node, ast.Name):
        n = node.id
        if n in ("str", "int", "float", "bool"):
            return n
        if n == "Any":
            return "any"
        if n in enums:
            return ["enum", n]
        if n in custom_types:
            return ["custom", n, "f"]
        return ["cls", n]
    if isinstance(node, ast.Subscript):
        head = node.value.id if isinstance(node.value, ast.Name) else None
        sl = node.slice
        if head == "Optional":
            return ["opt", ann(sl, enums, custom_types)]
        if head == "List":
            return ["list", ann(sl, enums, custom_types)]
        if head == "Union":
            elts = sl.elts if isinstance(sl, ast.Tuple) else [sl]
            return ["union"] + [ann(e, enums, custom_types) for e in elts]
        if head == "Literal":
            elts = sl.elts if isinstance(sl, ast.Tuple) else [sl]
            return ["lit"] + [e.value for e in elts]
        if head == "Annotated":
            inner, meta = sl.elts[0], sl.elts[1]
            if isinstance(meta, ast.Call) and isinstance(meta.func, ast.Name):
                if meta.func.id == "BeforeValidator":
                    base = ann(inner, enums, custom_types)
                    if isinstance(base, list) and base[0] == "custom":
                        return ["custom", base[1], "t"]
                    return ["custom", ast.unparse(inner), "t"]
                if meta.func.id == "Field" and any(k.arg == "discriminator" for k in meta.keywords):
                    return ann(inner, enums, custom_types)
    raise CanonError(f"unrecognised annotation: {ast.unparse(node)}")


def classes(source: str, enums, custom_types):
    """[(name, [bases], [(pyname, alias|None, ann, default_none, discriminator)])] in file order"""
    tree = ast.parse(source)
    out = []
    for node in tree.body:
        if not isinstance(node, ast.ClassDef):
            continue
        fields = []
        for st in node.body:
            if isinstance(st, ast.Pass):
                continue
            if not isinstance(st, ast.AnnAssign) or not isinstance(st.target, ast.Name):
                raise CanonError(f"unexpected class statement: {ast.unparse(st)}")
            alias, default_none, disc = None, False, False
            v = st.value
            if isinstance(v, ast.Constant) and v.value is None:
                default_none = True
            elif isinstance(v, ast.Call) and isinstance(v.func, ast.Name) and v.func.id == "Field":
                for k in v.keywords:
                    if k.arg == "alias":
                        alias = k.value.value
                    elif k.arg == "default" and isinstance(k.value, ast.Constant) and k.value.value is None:
                        default_none = True
                    elif k.arg == "discriminator":
                        disc = True
                    else:
                        raise CanonError(f"unexpected Field keyword: {ast.unparse(v)}")
            elif v is not None:
                raise CanonError(f"unexpected default: {ast.unparse(v)}")
            fields.append((st.target.id, alias, ann(st.annotation, enums, custom_types), default_none, disc))
        out.append((node.name, [ast.unparse(b) for b in node.bases], fields))
    return out


def from_model(sx):
    """decoded pclass_sx list -> same shape as classes()"""
    out = []
    for name, bases, fields in sx:
        fs = []
        for pname, alias, a, dn, disc in fields:
            fs.append((pname, None if alias == "none" else alias[1], a, dn == "t", disc == "t"))
        out.append((name, list(bases), fs))
    return out


def as_map(cls_list):
    """name -> (bases, {field -> (alias, ann, default_none, discriminator)}); later definitions win,
    exactly as in a Python class body / module namespace"""
    m = {}
    for name, bases, fields in cls_list:
        m[name] = (tuple(bases), {f[0]: tuple(map(_freeze, f[1:])) for f in fields})
    return m


def _freeze(x):
    return tuple(_freeze(y) for y in x) if isinstance(x, list) else x
