"""graphql-core objects -> sexps for Gql/Schema.v decoders."""
from __future__ import annotations

from graphql import (FieldNode, FragmentDefinitionNode, FragmentSpreadNode, GraphQLEnumType,
                     GraphQLInputObjectType, GraphQLInterfaceType, GraphQLList, GraphQLNonNull,
                     GraphQLObjectType, GraphQLScalarType, GraphQLUnionType, InlineFragmentNode,
                     OperationDefinitionNode, StringValueNode)

from ..sexp import Sym, opt


def gtype(t):
    if isinstance(t, GraphQLNonNull):
        return [Sym("nn"), gtype(t.of_type)]
    if isinstance(t, GraphQLList):
        return [Sym("l"), gtype(t.of_type)]
    return [Sym("n"), t.name]


def tdef(t):
    if isinstance(t, GraphQLScalarType):
        return [Sym("scalar")]
    if isinstance(t, GraphQLEnumType):
        return [Sym("enum")] + list(t.values)
    if isinstance(t, GraphQLObjectType):
        return [Sym("object"), [i.name for i in t.interfaces], [[n, gtype(f.type)] for n, f in t.fields.items()]]
    if isinstance(t, GraphQLInterfaceType):
        return [Sym("interface"), [i.name for i in t.interfaces], [[n, gtype(f.type)] for n, f in t.fields.items()]]
    if isinstance(t, GraphQLUnionType):
        return [Sym("union")] + [m.name for m in t.types]
    if isinstance(t, GraphQLInputObjectType):
        return [Sym("input")]
    raise TypeError(t)


def schema(s):
    types = [[n, tdef(t)] for n, t in s.type_map.items() if not n.startswith("__")]
    return [Sym("schema"), types, opt(s.query_type and s.query_type.name),
            opt(s.mutation_type and s.mutation_type.name), opt(s.subscription_type and s.subscription_type.name)]


def has_cond(node):
    return any(d.name.value in ("skip", "include") for d in (node.directives or ()))


def mixins(node):
    out = []
    for d in node.directives or ():
        if d.name.value == "mixin":
            args = {a.name.value: a.value.value for a in d.arguments if isinstance(a.value, StringValueNode)}
            out.append(args.get("import", "?"))
    return out


def sel(s):
    if isinstance(s, FieldNode):
        sub = None if s.selection_set is None else [Sym("some"), [sel(x) for x in s.selection_set.selections]]
        return [Sym("f"), opt(s.alias.value if s.alias else None), s.name.value, has_cond(s), mixins(s), sub]
    if isinstance(s, FragmentSpreadNode):
        return [Sym("s"), s.name.value, has_cond(s)]
    if isinstance(s, InlineFragmentNode):
        return [Sym("i"), opt(s.type_condition.name.value if s.type_condition else None), has_cond(s),
                [sel(x) for x in s.selection_set.selections]]
    raise TypeError(s)


def frag(f: FragmentDefinitionNode):
    return [f.name.value, f.type_condition.name.value, mixins(f), [sel(x) for x in f.selection_set.selections]]


def operation(o: OperationDefinitionNode):
    return [Sym("op"), o.operation.value, o.name.value if o.name else "", mixins(o),
            [sel(x) for x in o.selection_set.selections]]


def scalars_cfg(cfg: dict):
    out = []
    for g, d in (cfg.get("scalars") or {}).items():
        tn = d["type"].rsplit(".", 1)[-1]
        out.append([g, tn, bool(d.get("parse"))])
    return out
