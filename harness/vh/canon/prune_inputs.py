"""Independent (graphql-core based) analysis of a scenario for C09: the inputs of Model/Prune.v and the
closure the property text names.  Nothing here looks at ariadne-codegen internals."""
from __future__ import annotations

import ast

from graphql import (FieldNode, FragmentDefinitionNode, FragmentSpreadNode, GraphQLEnumType,
                     GraphQLInputObjectType, GraphQLUnionType, InlineFragmentNode, OperationDefinitionNode,
                     build_schema, get_named_type, parse, type_from_ast)


def classes_of(text: str) -> list[tuple[str, str]]:
    """Top-level classes of a generated module: (name, exact source text), in file order."""
    tree = ast.parse(text)
    out = []
    for node in tree.body:
        if isinstance(node, ast.ClassDef):
            out.append((node.name, ast.get_source_segment(text, node)))
    return out


def input_graph(schema):
    """input name -> (input deps in field order, enums in field order), for every input object type."""
    g = {}
    for name, t in schema.type_map.items():
        if isinstance(t, GraphQLInputObjectType) and not name.startswith("__"):
            deps, enums = [], []
            for f in t.fields.values():
                nt = get_named_type(f.type)
                if isinstance(nt, GraphQLInputObjectType):
                    deps.append(nt.name)
                elif isinstance(nt, GraphQLEnumType):
                    enums.append(nt.name)
            g[name] = (deps, enums)
    return g


def fragment_unpacks_by_definition(schema, fdef) -> bool:
    """A fragment for which no class of its own can exist: on a union, or with a top-level inline fragment."""
    if isinstance(schema.type_map.get(fdef.type_condition.name.value), GraphQLUnionType):
        return True
    return any(isinstance(s, InlineFragmentNode) for s in fdef.selection_set.selections)


class Analysis:
    def __init__(self, sdl: str, queries: str):
        self.schema = build_schema(sdl)
        self.doc = parse(queries)
        self.ops = [d for d in self.doc.definitions if isinstance(d, OperationDefinitionNode)]
        self.frags = {d.name.value: d for d in self.doc.definitions if isinstance(d, FragmentDefinitionNode)}
        self.graph = input_graph(self.schema)
        self.enum_names = [n for n, t in self.schema.type_map.items()
                           if isinstance(t, GraphQLEnumType) and not n.startswith("__")]
        self.arg_inputs, self.arg_enums = [], []
        for op in self.ops:
            for vd in op.variable_definitions or ():
                nt = get_named_type(type_from_ast(self.schema, vd.type))
                if isinstance(nt, GraphQLInputObjectType):
                    self.arg_inputs.append(nt.name)
                elif isinstance(nt, GraphQLEnumType):
                    self.arg_enums.append(nt.name)
        # enums of selected fields, following every spread
        self.reached_frags: set[str] = set()
        self.res_enums: list[str] = []
        for op in self.ops:
            root = self.schema.get_root_type(op.operation)
            self._walk(op.selection_set, root, self.res_enums, self.reached_frags)
        # fragments nobody reaches still get a class in the fragments module unless they unpack by definition
        self.frag_enums: list[str] = []
        seen = set(self.reached_frags)
        for name in sorted(self.frags):
            if name in self.reached_frags:
                continue
            fdef = self.frags[name]
            if fragment_unpacks_by_definition(self.schema, fdef):
                continue
            t = self.schema.type_map[fdef.type_condition.name.value]
            self._walk(fdef.selection_set, t, self.frag_enums, seen)

    def _walk(self, selset, parent, acc, seen):
        for s in selset.selections:
            if isinstance(s, FieldNode):
                if s.name.value == "__typename":
                    continue
                fdef = parent.fields[s.name.value]
                nt = get_named_type(fdef.type)
                if isinstance(nt, GraphQLEnumType):
                    acc.append(nt.name)
                if s.selection_set:
                    self._walk(s.selection_set, nt, acc, seen)
            elif isinstance(s, InlineFragmentNode):
                t = self.schema.type_map[s.type_condition.name.value] if s.type_condition else parent
                self._walk(s.selection_set, t, acc, seen)
            elif isinstance(s, FragmentSpreadNode):
                fd = self.frags[s.name.value]
                seen.add(s.name.value)
                self._walk(fd.selection_set, self.schema.type_map[fd.type_condition.name.value], acc, seen)

    # ---- the closure the property names (BFS, deliberately not the generator's DFS) ----
    custom = False
    builder_inputs: list = []
    builder_enums: list = []

    def spec_inputs(self) -> set[str]:
        todo = list(dict.fromkeys(self.arg_inputs + list(self.builder_inputs)))
        out = set()
        while todo:
            n = todo.pop()
            if n in out:
                continue
            out.add(n)
            todo.extend(self.graph.get(n, ([], []))[0])
        return out

    def spec_enums(self, retained_inputs) -> set[str]:
        out = set(self.arg_enums) | set(self.res_enums) | set(self.frag_enums) | set(self.builder_enums)
        for i in retained_inputs:
            out |= set(self.graph[i][1])
        return out


def builder_imports(files: dict, input_names, enum_names):
    """Input and enum classes imported by the operation-builder modules (enable_custom_operations) of a package:
    what those modules need in order to load."""
    ins, ens = [], []
    for fn in ("custom_queries.py", "custom_mutations.py", "custom_fields.py", "custom_typing_fields.py"):
        if fn not in files:
            continue
        for node in ast.parse(files[fn]).body:
            if isinstance(node, ast.ImportFrom) and node.level == 1:
                for a in node.names:
                    if a.name in input_names and a.name not in ins:
                        ins.append(a.name)
                    elif a.name in enum_names and a.name not in ens:
                        ens.append(a.name)
    return ins, ens


# ---- imports of input_types.py (C09 imports_cover_retained) ----
PREAMBLE = ["typing:Optional", "typing:Any", "typing:Union", "typing:List", "typing:Annotated",
            "pydantic:Field", "pydantic:PlainSerializer", ".base_model:BaseModel", ".base_model:Upload"]


def import_items(text: str) -> list[str]:
    """'module:name' for every name imported at the top level of a generated module (relative dots kept)."""
    out = []
    for node in ast.parse(text).body:
        if isinstance(node, ast.ImportFrom):
            mod = "." * node.level + (node.module or "")
            out.extend(f"{mod}:{a.name}" for a in node.names)
        elif isinstance(node, ast.Import):
            out.extend(f":{a.name}" for a in node.names)
    return out


def class_needs(text: str) -> dict[str, list[str]]:
    """class name -> import items its body refers to (names loaded anywhere in the class statement)."""
    tree = ast.parse(text)
    by_name = {}
    for it in import_items(text):
        by_name.setdefault(it.split(":", 1)[1], it)
    out = {}
    for node in tree.body:
        if isinstance(node, ast.ClassDef):
            used = []
            for n in ast.walk(node):
                if isinstance(n, ast.Name) and n.id in by_name and by_name[n.id] not in used:
                    used.append(by_name[n.id])
            out[node.name] = used
    return out


def scalar_items(cfg: dict) -> list[str]:
    """import items one configured custom scalar contributes (dotted type / serialize / parse paths)."""
    out = []
    for key in ("type", "serialize", "parse"):
        v = (cfg or {}).get(key)
        if v and "." in v:
            mod, obj = v.rsplit(".", 1)
            out.append(f"{mod}:{obj}")
    return out


def input_scalar_items(schema, scalars_cfg: dict) -> dict[str, list[str]]:
    """input type -> import items of the custom scalars its fields use (field order, duplicates kept)."""
    from graphql import GraphQLScalarType

    out = {}
    for name, t in schema.type_map.items():
        if isinstance(t, GraphQLInputObjectType) and not name.startswith("__"):
            items = []
            for f in t.fields.values():
                nt = get_named_type(f.type)
                if isinstance(nt, GraphQLScalarType) and nt.name in (scalars_cfg or {}):
                    items.extend(scalar_items(scalars_cfg[nt.name]))
            out[name] = items
    return out


# ---- fields of an input type for Model/Prune.v `derive` (independent of the generator) ----
BUILTIN_SCALARS = {"String", "Int", "Float", "Boolean", "ID"}


def _item(path):
    if path and "." in path:
        mod, obj = path.rsplit(".", 1)
        return f"{mod}:{obj}"
    return None


def input_fields_sx(schema, scalars_cfg: dict):
    """input type -> [[name, nullable-somewhere, list-somewhere, base, collection-default], ...] as model sexps."""
    from graphql import (GraphQLList, GraphQLNonNull, GraphQLScalarType, ListValueNode, ObjectValueNode)

    from ..sexp import Sym, opt

    out = {}
    for name, t in schema.type_map.items():
        if not isinstance(t, GraphQLInputObjectType) or name.startswith("__"):
            continue
        fields = []
        for fname, f in t.fields.items():
            ty, nullable, is_list, nonnull = f.type, False, False, False
            while True:
                if isinstance(ty, GraphQLNonNull):
                    ty, nonnull = ty.of_type, True
                    continue
                if not nonnull:
                    nullable = True
                nonnull = False
                if isinstance(ty, GraphQLList):
                    is_list, ty = True, ty.of_type
                    continue
                break
            if isinstance(ty, GraphQLInputObjectType):
                base = [Sym("input"), ty.name]
            elif isinstance(ty, GraphQLEnumType):
                base = [Sym("enum"), ty.name]
            elif isinstance(ty, GraphQLScalarType) and ty.name in (scalars_cfg or {}):
                c = scalars_cfg[ty.name]
                base = [Sym("custom"), opt(_item(c.get("type"))), opt(_item(c.get("serialize"))),
                        opt(_item(c.get("parse"))), bool(c.get("serialize"))]
            elif isinstance(ty, GraphQLScalarType) and ty.name in BUILTIN_SCALARS:
                base = Sym("plain")
            elif isinstance(ty, GraphQLScalarType) and ty.name == "Upload":
                base = Sym("upload")
            else:
                base = Sym("any")
            dv = f.ast_node.default_value if f.ast_node is not None else None
            fields.append([fname, nullable, is_list, base, isinstance(dv, (ListValueNode, ObjectValueNode))])
        out[name] = fields
    return out


# ---- the executable document in the Gql/Schema.v vocabulary (Model/PruneDoc.v docenums) ----
def _gtype_sx(t):
    from graphql import GraphQLList, GraphQLNonNull

    from ..sexp import Sym

    if isinstance(t, GraphQLNonNull):
        return [Sym("nn"), _gtype_sx(t.of_type)]
    if isinstance(t, GraphQLList):
        return [Sym("l"), _gtype_sx(t.of_type)]
    return [Sym("n"), t.name]


def gql_schema_sx(schema):
    from graphql import (GraphQLInterfaceType, GraphQLObjectType, GraphQLUnionType)

    from ..sexp import Sym, opt

    types = []
    for name, t in schema.type_map.items():
        if name.startswith("__"):
            continue
        if isinstance(t, GraphQLObjectType):
            d = [Sym("object"), [i.name for i in t.interfaces], [[fn, _gtype_sx(f.type)] for fn, f in t.fields.items()]]
        elif isinstance(t, GraphQLInterfaceType):
            d = [Sym("interface"), [i.name for i in t.interfaces], [[fn, _gtype_sx(f.type)] for fn, f in t.fields.items()]]
        elif isinstance(t, GraphQLUnionType):
            d = [Sym("union")] + [m.name for m in t.types]
        elif isinstance(t, GraphQLEnumType):
            d = [Sym("enum")] + list(t.values)
        elif isinstance(t, GraphQLInputObjectType):
            d = [Sym("input")]
        else:
            d = [Sym("scalar")]
        types.append([name, d])
    root = lambda r: opt(r.name if r else None)
    return [Sym("schema"), types, root(schema.query_type), root(schema.mutation_type), root(schema.subscription_type)]


def _cond(node):
    return any(d.name.value in ("skip", "include") for d in (node.directives or ()))


def gql_sel_sx(selset):
    from ..sexp import Sym, opt

    out = []
    for s in (selset.selections if selset else ()):
        if isinstance(s, FieldNode):
            sub = [Sym("some"), gql_sel_sx(s.selection_set)] if s.selection_set else Sym("none")
            out.append([Sym("f"), opt(s.alias.value if s.alias else None), s.name.value, _cond(s), [], sub])
        elif isinstance(s, FragmentSpreadNode):
            out.append([Sym("s"), s.name.value, _cond(s)])
        elif isinstance(s, InlineFragmentNode):
            out.append([Sym("i"), opt(s.type_condition.name.value if s.type_condition else None), _cond(s),
                        gql_sel_sx(s.selection_set)])
    return out


def _size(selset):
    n = 1
    for s in (selset.selections if selset else ()):
        n += 1 + (_size(s.selection_set) if getattr(s, "selection_set", None) else 0)
    return n


def docenums_cmd(an):
    """(docenums fuel schema frags ops): the model computes variables' types and reachable enums itself."""
    from ..sexp import Sym

    frs = [[f.name.value, f.type_condition.name.value, [], gql_sel_sx(f.selection_set)] for f in an.frags.values()]
    ops = [[o.name.value, an.schema.get_root_type(o.operation).name,
            [[v.variable.name.value, _gtype_sx(type_from_ast(an.schema, v.type))] for v in (o.variable_definitions or ())],
            gql_sel_sx(o.selection_set)] for o in an.ops]
    total = sum(_size(d.selection_set) for d in an.doc.definitions)
    return [Sym("docenums"), (total + 4) * (len(an.frags) + 2), gql_schema_sx(an.schema), frs, ops]
