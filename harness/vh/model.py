"""Run the extracted Coq model (build/ocaml/<id>/modelrun)."""
from __future__ import annotations

import os
import subprocess
from concurrent.futures import ThreadPoolExecutor

from . import sexp

VERIF = os.environ.get("VERIF_ROOT", "/verif")


class ModelError(RuntimeError):
    pass


def binary(engine: str) -> str:
    return os.path.join(VERIF, "build", "ocaml", engine, "modelrun")


def batch(engine: str, cmds, jobs: int = 16, chunk: int = 2000):
    """Evaluate a list of commands (Python sexps); returns the list of decoded results."""
    exe = binary(engine)
    if not os.path.exists(exe):
        raise ModelError(f"model driver not built: {exe}")
    lines = [sexp.dumps(c) for c in cmds]
    chunks = [lines[i : i + chunk] for i in range(0, len(lines), chunk)] or [[]]

    def run(ls):
        if not ls:
            return []
        p = subprocess.run(
            [exe], input=("\n".join(ls) + "\n").encode(), stdout=subprocess.PIPE,
            stderr=subprocess.PIPE, timeout=1800,
        )
        if p.returncode != 0:
            raise ModelError(f"modelrun exit {p.returncode}: {p.stderr[-500:]!r}")
        out = p.stdout.decode("utf-8", errors="surrogateescape").splitlines()
        if len(out) != len(ls):
            raise ModelError(f"modelrun answered {len(out)} of {len(ls)} lines")
        return [sexp.loads(o) for o in out]

    with ThreadPoolExecutor(max_workers=jobs) as ex:
        parts = list(ex.map(run, chunks))
    res = []
    for p in parts:
        res.extend(p)
    return res


def call(engine: str, cmd):
    return batch(engine, [cmd], jobs=1)[0]


def is_error(r) -> bool:
    return isinstance(r, list) and len(r) >= 1 and r[0] == "error"
