"""Generate scenarios with the real generator and drive the generated clients."""
from __future__ import annotations

import os
from concurrent.futures import ThreadPoolExecutor

from graphql import OperationDefinitionNode, build_schema, parse

from ..gen import args as argsgen
from . import workers


def method_name(op_name: str) -> str:
    from ariadne_codegen.utils import process_name

    return process_name(op_name, convert_to_snake_case=True)


def param_name(var: str, snake: bool) -> str:
    from ariadne_codegen.utils import process_name

    return process_name(var, convert_to_snake_case=snake)


class Generated:
    """One scenario after generation: files on disk + a driver process on demand."""

    def __init__(self, scenario, req, res):
        self.sc, self.req, self.res = scenario, req, res
        self.dir = req["dir"]
        self.ok = res.get("ok", False)
        self.driver = None
        self.loaded = None
        self._schema = None
        self._doc = None

    @property
    def schema(self):
        if self._schema is None:
            self._schema = build_schema(self.sc.sdl)
        return self._schema

    @property
    def doc(self):
        if self._doc is None:
            self._doc = parse(self.sc.queries)
        return self._doc

    def operations(self):
        return [d for d in self.doc.definitions if isinstance(d, OperationDefinitionNode)]

    def files(self):
        return workers.read_package(self.res["target"])

    def start(self, hashseed=None):
        self.driver = workers.Worker("client_driver.py", env=workers.child_env(hashseed=hashseed))
        cfg = self.res.get("config", {})
        self.loaded = self.driver.ask({
            "cmd": "load", "parent": os.path.dirname(self.res["target"]),
            "pkg": os.path.basename(self.res["target"]), "sdl": self.sc.sdl,
            "client_name": cfg.get("client_name", "Client"),
        })
        return self.loaded

    def call(self, **kw):
        kw["cmd"] = "call"
        return self.driver.ask(kw)

    def stop(self):
        if self.driver:
            self.driver.close()
            self.driver = None

    def encoded_args(self, op, rng, mode="rand"):
        snake = self.res.get("config", {}).get("convert_to_snake_case", True)
        ag = argsgen.ArgGen(self.schema, rng, self.res.get("config", {}).get("scalars"))
        vals = ag.for_operation(op, mode)
        enc = {}
        for var, (jv, e) in vals.items():
            if jv is argsgen.OMIT:
                continue
            enc[param_name(var, snake)] = e
        return vals, enc


def generate(scenarios, scratch, jobs=12, **over):
    reqs = [s.request(scratch.new(), **over) for s in scenarios]
    res = workers.generate_many(reqs, jobs=jobs)
    return [Generated(s, q, r) for s, q, r in zip(scenarios, reqs, res)]


def parallel(items, fn, jobs=12):
    with ThreadPoolExecutor(max_workers=jobs) as ex:
        return list(ex.map(fn, items))
