"""Driver process for a GENERATED client package (fresh interpreter, JSON lines on stdin/stdout).

commands
  {"cmd":"load","parent":dir,"pkg":"gen_client","sdl":text}
        -> {"ok", "modules": {name: "ok"|error}, "incomplete": [class...], "all": [...], "exported": [...],
            "methods": {py_name: {"params":[...], "async":bool}}, "client_class": name}
  {"cmd":"call","method":py_name,"args":{kw: encoded},"plan":{...}|null,"response":json|absent,
   "http":{"status":int,"body":str}|absent,"observe":bool,"corrupt":bool}
        -> {"request":{...}, "result": {...}|null, "exc":[cls,msg]|null, "data": executed data, "obs": {...},
            "corruptions": [...]}
  {"cmd":"eval","code": "..."}  -> {"value": repr}   (small probes by property modules; code sees `pkg`, `mods`)
  {"cmd":"call_args","method":py_name,"args":{kw: encoded},"intended":{var: json}}   (C03/C07)
        -> {"request", "exc", "sent": {"coerced"|"errors","rec"}, "intended": {...}, "log_construct", "log_call"}
  "call" with "frag_map": {result class name: [fragment class names]} additionally walks the returned object and
        the response in parallel (C08): every object of a listed class must be an instance of each fragment class
        (looked up in the fragments module) and that class alone must validate the same sub-payload
        -> "frag": {"checked": n, "problems": [...]}
  {"cmd":"hints"} -> {"methods": {py_name: {"params": {name: hint}, "return": hint, "field_hints": {...}}}}
        type hints of every client method resolved the way a type checker sees them (the `if TYPE_CHECKING:`
        imports of client.py executed into the lookup namespace)                                        (C15)
  call with "c15": true additionally returns "value" (structural dump of ANY returned object, dump_any) and,
        for a model result, "fields" {python field name: dump_any(attribute)}; async-generator methods
        (subscriptions) are driven through a fake graphql-transport-ws connection that executes the SUBSCRIBED
        query under plan seeds seed, seed+1, ... ("events": n) and the list of yielded values is returned.

The reference executor is graphql-core `execute_sync` on the query text the client SENT, with resolvers scripted
by a plan: {"k": int (rotates runtime types at abstract positions), "null": float prob, "lens": [list lengths],
"seed": int}.
"""
import asyncio
import enum
import hashlib
import importlib
import inspect
import json
import os
import pkgutil
import sys
import traceback
import typing

STATE = {}


# ----------------------------------------------------------------------------- plan-driven execution
def _h(seed, path, salt=""):
    s = f"{seed}|{'/'.join(map(str, path))}|{salt}".encode()
    return int.from_bytes(hashlib.blake2b(s, digest_size=8).digest(), "big")


def make_executor(sdl):
    from graphql import (GraphQLEnumType, GraphQLList, GraphQLNonNull, GraphQLScalarType, build_schema,
                         is_abstract_type, is_composite_type)

    schema = build_schema(sdl)

    def value_for(t, path, plan, depth=0, nonnull=False):
        seed = plan.get("seed", 0)
        if isinstance(t, GraphQLNonNull):
            return value_for(t.of_type, path, plan, depth, True)
        if not nonnull and (_h(seed, path, "null") % 1000) / 1000.0 < plan.get("null", 0.0):
            return None
        if isinstance(t, GraphQLList):
            lens = plan.get("lens", [1])
            n = lens[_h(seed, path, "len") % len(lens)]
            return [value_for(t.of_type, path + [i], plan, depth + 1) for i in range(n)]
        if isinstance(t, GraphQLEnumType):
            names = list(t.values)
            return names[_h(seed, path, "enum") % len(names)]
        if isinstance(t, GraphQLScalarType):
            h = _h(seed, path, "leaf")
            if t.name == "Int":
                return h % 200 - 100
            if t.name == "Float":
                return (h % 1000) / 8.0 + 0.5
            if t.name == "String":
                return ["", "text", "Zażółć", "a\"b'c\\n", "x" * 40][h % 5]
            if t.name == "Boolean":
                return bool(h % 2)
            if t.name == "ID":
                return f"id-{h % 97}"
            if t.name == "DateTime":
                return f"20{h % 30 + 10}-0{h % 9 + 1}-1{h % 9}T0{h % 9}:00:00"
            return {"blob": h % 7}
        # composite: a marker dict; sub-resolvers are called with it as source
        if is_composite_type(t):
            if is_abstract_type(t):
                poss = sorted(schema.get_possible_types(t), key=lambda x: x.name)
                k = plan.get("k", 0)
                rt = poss[(k + _h(seed, path, "rt")) % len(poss)] if plan.get("mix", True) else poss[k % len(poss)]
                return {"__rt": rt.name}
            return {"__rt": t.name}
        raise TypeError(t)

    def path_list(p):
        out = []
        while p:
            out.append(p.key)
            p = p.prev
        return list(reversed(out))

    def conditional_keys(doc):
        """Response keys that carry @skip/@include on ANY of their field nodes, or sit under a conditional
        inline fragment / spread, anywhere in the document (static over-approximation: such keys are
        'made optional by a directive' in the sense of C05)."""
        from graphql import FieldNode, FragmentDefinitionNode, FragmentSpreadNode, InlineFragmentNode

        frags = {d.name.value: d for d in doc.definitions if isinstance(d, FragmentDefinitionNode)}
        keys = set()
        seen = set()

        def has_cond(node):
            return any(d.name.value in ("skip", "include") for d in (node.directives or ()))

        def walk(selset, under):
            for s in selset.selections:
                if isinstance(s, FieldNode):
                    if under or has_cond(s):
                        keys.add(s.alias.value if s.alias else s.name.value)
                    if s.selection_set:
                        # a conditional field node may be merged with an unconditional node of the same
                        # response key: its sub-selection is then only conditionally present
                        walk(s.selection_set, under or has_cond(s))
                elif isinstance(s, InlineFragmentNode):
                    walk(s.selection_set, under or has_cond(s))
                elif isinstance(s, FragmentSpreadNode):
                    u = under or has_cond(s)
                    if (s.name.value, u) not in seen:
                        seen.add((s.name.value, u))
                        walk(frags[s.name.value].selection_set, u)

        for d in doc.definitions:
            walk(d.selection_set, False)
        return keys

    def run(query, variables, operation_name, plan, rec=None):
        from graphql import execute_sync, parse

        types = {}
        doc = parse(query)
        ckeys = conditional_keys(doc)

        def resolver(source, info, **args):
            pl = path_list(info.path)
            if rec is not None and args:
                rec.append(["/".join(map(str, pl)), _jsonable(args)])
            types[json.dumps(pl)] = {
                "type": str(info.return_type),
                "cond": pl[-1] in ckeys,
                "parent": info.parent_type.name,
            }
            if info.field_name == "__typename":
                return info.parent_type.name
            return value_for(info.return_type, pl, plan)

        def type_resolver(value, info, abstract_type):
            return value["__rt"]

        res = execute_sync(schema, doc, variable_values=variables or {}, operation_name=operation_name,
                           field_resolver=resolver, type_resolver=type_resolver)
        return res, types

    return schema, run


# ----------------------------------------------------------------------------- argument decoding
def decode(v):
    pkg = STATE["pkg"]
    if isinstance(v, dict):
        if "$unset" in v:
            return getattr(STATE["mods"]["base_model"], "UNSET")
        if "$enum" in v:
            cls = getattr(pkg, v["$enum"][0], None)
            if cls is None:  # package without re-exports (NoReimports plugin): take it from its module
                cls = next(getattr(m, v["$enum"][0]) for m in STATE["mods"].values() if hasattr(m, v["$enum"][0]))
            return cls(v["$enum"][1])
        if "$model" in v:
            cls = getattr(STATE["mods"]["input_types"], v["$model"])

            def key(k):
                # "$name:<GraphQL field>" = the PYTHON name of that field, read off the generated class
                if k.startswith("$name:"):
                    g = k[6:]
                    for n, f in cls.model_fields.items():
                        if (f.alias or n) == g:
                            return n
                    return g
                return k

            return cls(**{key(k): decode(x) for k, x in v["kw"].items()})
        if "$validate" in v:
            cls = getattr(STATE["mods"]["input_types"], v["$validate"])
            return cls.model_validate(v["value"])
        if "$upload" in v:
            # [filename, content type, content text, object id]: one Upload OBJECT per id within a call
            import io

            fn, ct, content, oid = v["$upload"]
            cache = STATE.setdefault("uploads", {})
            if oid not in cache:
                cache[oid] = STATE["mods"]["base_model"].Upload(filename=fn, content=io.BytesIO(content.encode()), content_type=ct)
            return cache[oid]
        if "$py" in v:
            return eval(v["$py"], {"pkg": pkg, "mods": STATE["mods"]})  # noqa: S307 (harness-authored)
        if "$dict" in v:
            return {k: decode(x) for k, x in v["$dict"].items()}
        return {k: decode(x) for k, x in v.items()}
    if isinstance(v, list):
        return [decode(x) for x in v]
    return v


# ----------------------------------------------------------------------------- observations (C01)
def literal_values(cls):
    f = cls.model_fields.get("typename__")
    if f is None:
        return None
    ann = f.annotation
    if typing.get_origin(ann) is typing.Literal:
        return list(typing.get_args(ann))
    return "non-literal:" + str(ann)


def observe(obj, data, path, problems, stats):
    """Walk the validated object and the response in parallel."""
    from pydantic import BaseModel

    if isinstance(data, dict):
        if not isinstance(obj, BaseModel) and isinstance(obj, dict) and obj == data:
            stats["any_leaves"] = stats.get("any_leaves", 0) + 1
            return
        if not isinstance(obj, BaseModel):
            problems.append({"path": path, "what": f"object expected, got {type(obj).__name__}"})
            return
        cls = type(obj)
        by_key = {}
        for name, f in cls.model_fields.items():
            by_key[f.alias or name] = name
        if "__typename" in data:
            lits = literal_values(cls)
            stats["typename_positions"] = stats.get("typename_positions", 0) + 1
            if isinstance(lits, list) and data["__typename"] not in lits:
                problems.append({"path": path, "what": f"class {cls.__name__} typename literal {lits} lacks runtime type {data['__typename']}"})
        for k, v in data.items():
            if k not in by_key:
                problems.append({"path": path + [k], "what": f"response key not exposed by {cls.__name__}"})
                continue
            observe(getattr(obj, by_key[k]), v, path + [k], problems, stats)
        return
    if isinstance(data, list):
        if not isinstance(obj, list) or len(obj) != len(data):
            problems.append({"path": path, "what": "list mismatch"})
            return
        for i, (o, d) in enumerate(zip(obj, data)):
            observe(o, d, path + [i], problems, stats)
        return
    if isinstance(obj, enum.Enum):
        stats["enum_leaves"] = stats.get("enum_leaves", 0) + 1
        if obj.value != data:
            problems.append({"path": path, "what": f"enum member {obj!r} for {data!r}"})
        elif obj.name not in (data, data + "_"):
            problems.append({"path": path, "what": f"enum member name {obj.name!r} for value {data!r}"})
        return
    stats["leaves"] = stats.get("leaves", 0) + 1
    if isinstance(obj, BaseModel):
        problems.append({"path": path, "what": "model for scalar"})
        return
    custom = STATE.get("custom_leaf")
    if custom is not None and not isinstance(obj, (str, int, float, bool, type(None), dict, list)):
        stats["custom_leaves"] = stats.get("custom_leaves", 0) + 1
        return  # parsed custom scalar: equality is C07's business
    if obj != data or (isinstance(data, bool) != isinstance(obj, bool)):
        problems.append({"path": path, "what": f"value {obj!r} != {data!r}"})


# ----------------------------------------------------------------------------- fragment instances (C08)
def frag_walk(obj, data, path, frag_map, fragments_mod, problems, stats):
    from pydantic import BaseModel

    if isinstance(obj, list) and isinstance(data, list):
        for i, (o, d) in enumerate(zip(obj, data)):
            frag_walk(o, d, path + [i], frag_map, fragments_mod, problems, stats)
        return
    if not isinstance(obj, BaseModel) or not isinstance(data, dict):
        return
    cname = type(obj).__name__
    stats["objects"] = stats.get("objects", 0) + 1
    for fname in frag_map.get(cname, []):
        fcls = getattr(fragments_mod, fname, None) if fragments_mod else None
        stats["checked"] = stats.get("checked", 0) + 1
        if fcls is None:
            problems.append({"path": path, "class": cname, "fragment": fname, "what": "fragment class missing from the fragments module"})
            continue
        if not isinstance(obj, fcls):
            problems.append({"path": path, "class": cname, "fragment": fname, "what": "returned object is not an instance of the fragment class"})
        try:
            fcls.model_validate(data)
        except BaseException as exc:  # noqa
            problems.append({"path": path, "class": cname, "fragment": fname,
                             "what": f"fragment class alone rejects the sub-payload: {type(exc).__name__}: {str(exc)[:200]}"})
    for name, f in type(obj).model_fields.items():
        key = f.alias or name
        if key in data:
            frag_walk(getattr(obj, name), data[key], path + [key], frag_map, fragments_mod, problems, stats)


# ----------------------------------------------------------------------------- corruptions (C05)
def unwrap(tstr):
    """'[[Int!]]!' -> ('list', nonnull, inner) / ('named', nonnull, name)"""
    nn = tstr.endswith("!")
    if nn:
        tstr = tstr[:-1]
    if tstr.startswith("["):
        return ("list", nn, tstr[1:-1])
    return ("named", nn, tstr)


def type_at(types, path):
    """type string of the VALUE at `path` (field path possibly followed by list indices)"""
    p = list(path)
    idx = []
    while p and isinstance(p[-1], int):
        idx.append(p.pop())
    info = types.get(json.dumps(p))
    if info is None:
        return None, None
    t = info["type"]
    for _ in idx:
        k, _nn, inner = unwrap(t)
        if k != "list":
            return None, None
        t = inner
    return t, info


def wrong_kind_values(schema, tstr):
    from graphql import GraphQLEnumType, GraphQLScalarType, is_composite_type

    kind, _nn, inner = unwrap(tstr)
    if kind == "list":
        return [{"a": 1}, "str", 5]
    t = schema.type_map.get(inner)
    if t is None:
        return []
    if is_composite_type(t):
        return [[], "str", 5]
    if isinstance(t, GraphQLEnumType):
        return ["__NOT_A_VALUE__", 1, [], {}]
    if isinstance(t, GraphQLScalarType):
        if t.name not in ("String", "ID", "Int", "Float", "Boolean"):
            return None  # custom scalar: parse is user code / Any; C07's business
        return {
            "String": [12, 1.5, True, [], {}],
            "ID": [12, 1.5, True, [], {}],
            "Int": [1.5, "abc", [], {}],
            "Float": ["abc", [], {}],
            "Boolean": ["abc", 2, [], {}],
        }.get(t.name, [])
    return []


def set_path(data, path, value, delete=False):
    d = json.loads(json.dumps(data))
    cur = d
    for p in path[:-1]:
        cur = cur[p]
    if delete:
        del cur[path[-1]]
    else:
        cur[path[-1]] = value
    return d


def enumerate_corruptions(schema, data, types, limit, rng_seed):
    """(kind, path, corrupted data) for every single-point corruption the property names."""
    out = []

    def walk(v, path):
        if path:
            t, info = type_at(types, path)
            if t is not None:
                kind, nn, _inner = unwrap(t)
                is_field = not isinstance(path[-1], int)
                cond = info["cond"]
                wk = wrong_kind_values(schema, t)
                if wk is None:
                    wk, nn = [], False
                if nn and v is not None and not (is_field and cond):
                    out.append(("null_nonnull", path, set_path(data, path, None)))
                if is_field and not cond and path[-1] != "__typename":
                    out.append(("missing", path, set_path(data, path, None, delete=True)))
                if v is not None and path[-1] != "__typename":
                    for w in wk:
                        out.append(("wrong_kind", path, set_path(data, path, w)))
                if path[-1] == "__typename":
                    out.append(("typename", path, set_path(data, path, "__Bogus__")))
                    # the abstract type's OWN name is not a possible (object) type of its position either
                    pp = list(path[:-1])
                    pt, _pi = type_at(types, pp) if pp else (None, None)
                    if pt is not None:
                        named = pt.replace("[", "").replace("]", "").replace("!", "")
                        from graphql import is_abstract_type
                        st = schema.type_map.get(named)
                        if st is not None and is_abstract_type(st) and v != named:
                            out.append(("typename_self", path, set_path(data, path, named)))
        if isinstance(v, dict):
            for k, x in v.items():
                walk(x, path + [k])
        elif isinstance(v, list):
            for i, x in enumerate(v):
                walk(x, path + [i])

    walk(data, [])
    if limit and len(out) > limit:
        import random

        random.Random(rng_seed).shuffle(out)
        out = out[:limit]
    return out


# ----------------------------------------------------------------------------- C15 helpers
def dump_any(v):
    """Structural, JSON-able image of whatever a client method returned (models, lists, enums, scalars)."""
    from pydantic import BaseModel

    if isinstance(v, BaseModel):
        return {"$model": type(v).__name__, "module": type(v).__module__.split(".")[-1],
                "dump": v.model_dump(mode="json", by_alias=True, exclude_unset=True)}
    if isinstance(v, (list, tuple)):
        return [dump_any(x) for x in v]
    if isinstance(v, dict):
        return {"$dict": {str(k): dump_any(x) for k, x in v.items()}}
    if isinstance(v, enum.Enum):
        return {"$enum": [type(v).__name__, v.value]}
    if v is None or isinstance(v, (bool, int, float, str)):
        return {"$t": type(v).__name__, "v": v}
    return {"$repr": repr(v)[:300], "$t": type(v).__name__}


class _FakeWs:
    """Plays [connection_ack, next*n, complete]; records what the client sends."""

    def __init__(self, req, box, captured):
        self.req, self.box, self.captured = req, box, captured
        self.sent = []
        self.queue = None

    async def send(self, text):
        self.sent.append(json.loads(text))

    async def recv(self):
        return json.dumps({"type": "connection_ack"})

    async def close(self, *a, **kw):
        self.sent.append({"type": "$close"})

    def _frames(self):
        sub = next((m for m in self.sent if m.get("type") == "subscribe"), None)
        if sub is None:
            return []
        payload = sub.get("payload", {})
        self.captured.update(query=payload.get("query"), operationName=payload.get("operationName"),
                             variables=payload.get("variables"), keys=sorted(payload), transport="ws",
                             frames=[m.get("type") for m in self.sent])
        plan = dict(self.req.get("plan") or {})
        out = []
        datas = []
        for i in range(int(self.req.get("events", 2))):
            pl = dict(plan, seed=plan.get("seed", 0) + i)
            res, _types = STATE["run"](payload.get("query"), payload.get("variables"), payload.get("operationName"), pl)
            if res.errors:
                self.box.setdefault("exec_errors", []).extend(str(e) for e in res.errors)
            datas.append(res.data)
            out.append(json.dumps({"type": "next", "id": sub.get("id"), "payload": {"data": res.data}}))
        self.box["data"] = datas
        out.append(json.dumps({"type": "complete", "id": sub.get("id")}))
        return out

    def __aiter__(self):
        self.queue = iter(self._frames())
        return self

    async def __anext__(self):
        try:
            return next(self.queue)
        except StopIteration:
            raise StopAsyncIteration


def _patch_ws(client, req, box, captured):
    """Replace ws_connect in the module defining the client's base class by a fake connection."""
    import contextlib

    for klass in type(client).__mro__:
        mod = sys.modules.get(klass.__module__)
        if mod is not None and hasattr(mod, "ws_connect"):
            @contextlib.asynccontextmanager
            async def fake_connect(*a, **kw):
                yield _FakeWs(req, box, captured)

            mod.ws_connect = fake_connect
            return True
    return False


def _tc_namespace():
    """globals of the generated client module + the names its `if TYPE_CHECKING:` block would import."""
    import ast as _ast

    mod = sys.modules[STATE["client_cls"].__module__]
    ns = dict(vars(mod))
    src = inspect.getsource(mod)
    tree = _ast.parse(src)
    errors = []
    for node in tree.body:
        if isinstance(node, _ast.If) and isinstance(node.test, _ast.Name) and node.test.id == "TYPE_CHECKING":
            for st in node.body:
                code = compile(_ast.Module(body=[st], type_ignores=[]), mod.__file__, "exec")
                try:
                    exec(code, ns)  # noqa: S102 (generated import statements)
                except BaseException as exc:  # noqa
                    errors.append(f"{_ast.unparse(st)}: {type(exc).__name__}: {exc}")
    return ns, errors


def _hrepr(h):
    return f"{h.__module__}.{h.__qualname__}" if isinstance(h, type) and h.__module__ != "builtins" else repr(h)


def cmd_hints(req):
    cls = STATE["client_cls"]
    ns, errors = _tc_namespace()
    out = {"methods": {}, "tc_errors": errors}
    for name, fn in vars(cls).items():
        if name.startswith("_") or not callable(fn):
            continue
        try:
            hints = typing.get_type_hints(fn, globalns=ns)
            entry = {"params": {k: _hrepr(v) for k, v in hints.items() if k != "return"},
                     "return": _hrepr(hints.get("return"))}
        except BaseException as exc:  # noqa
            entry = {"exc": [type(exc).__name__, str(exc)[:500]]}
        out["methods"][name] = entry
    # hints of the fields of every result class exported by the per-operation modules (for ShorterResults)
    from pydantic import BaseModel

    fh = {}
    for mn, mod in STATE["mods"].items():
        for cname, obj in vars(mod).items():
            if isinstance(obj, type) and issubclass(obj, BaseModel) and obj.__module__ == mod.__name__:
                try:
                    fh[cname] = {k: _hrepr(v) for k, v in typing.get_type_hints(obj).items()
                                 if k in obj.model_fields}
                except BaseException as exc:  # noqa
                    fh[cname] = {"$exc": f"{type(exc).__name__}: {exc}"}
    out["field_hints"] = fh
    return out


# ----------------------------------------------------------------------------- commands
def cmd_load(req):
    parent, pkgname = req["parent"], req["pkg"]
    if parent not in sys.path:
        sys.path.insert(0, parent)
    res = {"ok": True, "modules": {}, "incomplete": [], "methods": {}}
    mods = {}
    try:
        pkg = importlib.import_module(pkgname)
    except BaseException as exc:  # noqa
        return {"ok": False, "modules": {pkgname: f"{type(exc).__name__}: {exc}"}, "tb": traceback.format_exc()[-2000:]}
    for m in pkgutil.iter_modules(pkg.__path__):
        try:
            mods[m.name] = importlib.import_module(f"{pkgname}.{m.name}")
            res["modules"][m.name] = "ok"
        except BaseException as exc:  # noqa
            res["modules"][m.name] = f"{type(exc).__name__}: {exc}"
            res["ok"] = False
    from pydantic import BaseModel

    for mn, mod in mods.items():
        for name, obj in vars(mod).items():
            if isinstance(obj, type) and issubclass(obj, BaseModel) and obj.__module__ == mod.__name__:
                if not getattr(obj, "__pydantic_complete__", False):
                    res["incomplete"].append(f"{mn}.{name}")
    res["all"] = list(getattr(pkg, "__all__", []))
    res["exported"] = [n for n in vars(pkg) if not n.startswith("_")]
    res["all_missing"] = [n for n in res["all"] if not hasattr(pkg, n)]  # C04: names of __all__ that are not attributes
    STATE.update(pkg=pkg, mods=mods)
    cname = req.get("client_name", "Client")
    cls = getattr(pkg, cname, None)
    if cls is None:
        for mod in mods.values():
            if hasattr(mod, cname):
                cls = getattr(mod, cname)
    res["client_class"] = cls.__name__ if cls else None
    STATE["client_cls"] = cls
    if cls:
        for name, fn in vars(cls).items():
            if name.startswith("_") or not callable(fn):
                continue
            sig = inspect.signature(fn)
            res["methods"][name] = {
                "params": [[p.name, str(p.annotation), p.default is inspect.Parameter.empty, str(p.kind)]
                           for p in list(sig.parameters.values())[1:]],
                "async": inspect.iscoroutinefunction(fn), "asyncgen": inspect.isasyncgenfunction(fn),
            }
    if req.get("sdl"):
        STATE["schema"], STATE["run"] = make_executor(req["sdl"])
    STATE["custom_leaf"] = True
    return res


class _RecSpan:
    """Recording span / tracer (opentelemetry-sdk is not installed; the clients only need this surface)."""

    def __init__(self, name, log):
        self.name, self.attrs = name, {}
        log.append(self)

    def set_attribute(self, k, v):
        self.attrs[k] = v

    def __enter__(self):
        return self

    def __exit__(self, *a):
        return False


class _RecTracer:
    def __init__(self):
        self.spans = []

    def start_as_current_span(self, name, context=None, **kw):
        return _RecSpan(name, self.spans)


def make_client(handler, tracer=None):
    import httpx

    cls = STATE["client_cls"]
    is_async = any(inspect.iscoroutinefunction(f) for n, f in vars(cls).items() if not n.startswith("_"))
    base_async = "Async" in "".join(b.__name__ for b in cls.__mro__)
    if base_async or is_async:
        http = httpx.AsyncClient(transport=httpx.MockTransport(handler))
    else:
        http = httpx.Client(transport=httpx.MockTransport(handler))
    if tracer is not None and "tracer" in inspect.signature(cls.__init__).parameters:
        return cls(url="http://test.local/graphql", http_client=http, tracer=tracer)
    return cls(url="http://test.local/graphql", http_client=http)


def cmd_call(req):
    import httpx

    captured = {}
    plan = req.get("plan")
    box = {}

    def handler(request: httpx.Request):
        body = request.content
        captured["headers"] = dict(request.headers)
        captured["method"] = request.method
        captured["url"] = str(request.url)
        try:
            payload = json.loads(body)
            captured.update(query=payload.get("query"), operationName=payload.get("operationName"),
                            variables=payload.get("variables"), keys=sorted(payload))
        except Exception:
            captured["raw"] = body[:2000].decode("latin-1")
            payload = {}
        if "http" in req:
            return httpx.Response(req["http"]["status"], content=req["http"]["body"].encode())
        if "response" in req:
            return httpx.Response(200, json={"data": req["response"]})
        res, types = STATE["run"](payload.get("query"), payload.get("variables"), payload.get("operationName"), plan or {})
        box["exec_errors"] = [str(e) for e in (res.errors or [])]
        box["data"] = res.data
        box["types"] = types
        out = {"data": res.data}
        if res.errors:
            out["errors"] = [{"message": str(e)} for e in res.errors]
        return httpx.Response(200, json=out)

    out = {"request": captured, "result": None, "exc": None}
    try:
        args = {k: decode(v) for k, v in (req.get("args") or {}).items()}
    except BaseException as exc:  # noqa
        out["exc"] = ["args:" + type(exc).__name__, str(exc)[:1500]]
        return out
    client = make_client(handler)
    fn = getattr(client, req["method"])
    if inspect.isasyncgenfunction(fn):
        _patch_ws(client, req, box, captured)

    def invoke():
        r = fn(**args)
        if inspect.iscoroutine(r):
            return asyncio.run(r)
        if inspect.isasyncgen(r):
            async def drain():
                return [x async for x in r]

            return asyncio.run(drain())
        return r

    try:
        result = invoke()
    except BaseException as exc:  # noqa
        out["exc"] = [type(exc).__name__, str(exc)[:1500]]
        out["data"] = box.get("data")
        out["exec_errors"] = box.get("exec_errors")
        return out
    from pydantic import BaseModel

    out["data"] = box.get("data")
    out["exec_errors"] = box.get("exec_errors")
    if req.get("c15"):
        out["value"] = dump_any(result)
        items = result if isinstance(result, list) and inspect.isasyncgenfunction(fn) else [result]
        out["fields"] = [
            {k: dump_any(getattr(it, k)) for k in type(it).model_fields} if isinstance(it, BaseModel) else None
            for it in items
        ]
    if isinstance(result, BaseModel):
        out["result"] = {
            "class": type(result).__name__,
            "dump": result.model_dump(mode="json", by_alias=True, exclude_unset=True),
        }
        if req.get("observe") and box.get("data") is not None:
            problems, stats = [], {}
            observe(result, box["data"], [], problems, stats)
            out["obs"] = {"problems": problems[:10], "stats": stats}
        if req.get("frag_map") is not None and box.get("data") is not None:
            problems, stats = [], {}
            fm = dict(req["frag_map"])
            frag_walk(result, box["data"], [], fm, STATE["mods"].get(req.get("fragments_module", "fragments")),
                      problems, stats)
            out["frag"] = {"problems": problems[:10], "stats": stats}
    else:
        out["result"] = {"class": type(result).__name__, "repr": repr(result)[:500]}
    if req.get("corrupt") and box.get("data") is not None and not box.get("exec_errors"):
        rows = []
        accepted = []
        kinds = {}
        verdicts = []
        for kind, path, bad in enumerate_corruptions(STATE["schema"], box["data"], box["types"],
                                                     req.get("corrupt_limit", 60), req.get("seed", 0)):
            kinds[kind] = kinds.get(kind, 0) + 1

            def h2(request, bad=bad):
                return httpx.Response(200, json={"data": bad})

            c2 = make_client(h2)
            f2 = getattr(c2, req["method"])
            try:
                r = f2(**args)
                if inspect.iscoroutine(r):
                    r = asyncio.run(r)
                t, info = type_at(box["types"], path)
                accepted.append({"kind": kind, "path": path, "type": t, "parent": info and info["parent"],
                                 "value": json.loads(json.dumps(bad))})
                verdicts.append({"kind": kind, "path": path, "value": bad, "accepted": True})
            except BaseException as exc:  # noqa
                if type(exc).__name__ != "ValidationError":
                    rows.append({"kind": kind, "path": path, "exc": type(exc).__name__, "msg": str(exc)[:300]})
                else:
                    verdicts.append({"kind": kind, "path": path, "value": bad, "accepted": False})
        out["corruptions"] = {"kinds": kinds, "accepted": accepted[:10], "n_accepted": len(accepted),
                              "other_exc": rows[:10], "verdicts": verdicts}
    return out


# ----------------------------------------------------------------------------- arguments (C03 / C07)
def _jsonable(v):
    """Coerced GraphQL values / resolver arguments -> JSON (enum values are their names under build_schema)."""
    if isinstance(v, dict):
        return {k: _jsonable(x) for k, x in v.items()}
    if isinstance(v, (list, tuple)):
        return [_jsonable(x) for x in v]
    if isinstance(v, enum.Enum):
        return v.value
    if isinstance(v, (str, int, float, bool)) or v is None:
        return v
    return {"$repr": repr(v)}


def _scalar_log(clear=True):
    mod = sys.modules.get("vscal")
    if mod is None:
        return None
    out = list(mod.LOG)
    if clear:
        mod.LOG.clear()
    return out


def _decode_multipart(body: bytes, content_type: str, captured: dict) -> dict:
    from requests_toolbelt.multipart.decoder import MultipartDecoder
    import re as _re

    parts = {}
    for p in MultipartDecoder(body, content_type).parts:
        cd = p.headers[b"Content-Disposition"].decode()
        name = _re.search(r'name="([^"]*)"', cd).group(1)
        fn = _re.search(r'filename="([^"]*)"', cd)
        parts[name] = (fn.group(1) if fn else None, p.headers.get(b"Content-Type", b"").decode() or None, p.content)
    ops = json.loads(parts["operations"][2])
    fmap = json.loads(parts["map"][2])
    captured["multipart"] = {"files": sorted(k for k in parts if k not in ("operations", "map")), "map": fmap}
    for key, paths in fmap.items():
        fn, ct, content = parts[key]
        for path in paths:
            cur = ops
            segs = path.split(".")
            for sg in segs[:-1]:
                cur = cur[int(sg)] if isinstance(cur, list) else cur[sg]
            last = segs[-1]
            val = {"$file": [fn, ct, content.decode("utf-8", "replace")]}
            if isinstance(cur, list):
                cur[int(last)] = val
            else:
                cur[last] = val
    return ops


def cmd_call_args(req):
    """Call a generated method; capture the request; coerce the SENT variables with graphql-core and execute the
    SENT document with recording resolvers; do the same with the caller's INTENDED variables (GraphQL JSON form,
    supplied by the harness) so the two can be compared.  Also returns the instrumented scalar call log."""
    import httpx
    from graphql import OperationDefinitionNode, execute_sync, parse
    from graphql.execution.values import get_variable_values

    schema = STATE["schema"]
    captured = {}
    _scalar_log()

    def record_run(query, variables, opname):
        doc = parse(query)
        rec = []
        op = [d for d in doc.definitions if isinstance(d, OperationDefinitionNode)][0]
        cv = get_variable_values(schema, op.variable_definitions, variables or {})
        if isinstance(cv, list):
            return {"errors": [str(e.message)[:300] for e in cv], "rec": None}
        try:
            res, _types = STATE["run"](query, variables, opname, req.get("plan") or {"null": 0.0, "lens": [1]}, rec=rec)
        except BaseException as exc:  # noqa  (e.g. the sent document lacks a fragment definition: C02's subject)
            return {"coerced": _jsonable(cv), "rec": None, "exec_exc": [type(exc).__name__, str(exc)[:300]]}
        return {"coerced": _jsonable(cv), "rec": rec, "exec_errors": [str(e.message)[:200] for e in (res.errors or [])][:3]}

    def handler(request: httpx.Request):
        body = request.content
        captured["content_type"] = request.headers.get("content-type")
        try:
            if (captured["content_type"] or "").startswith("multipart/form-data"):
                # GraphQL multipart request: decode it as a server would - operations, map, one part per file - and put
                # every file back at the variable paths the map names
                payload = _decode_multipart(body, captured["content_type"], captured)
            else:
                payload = json.loads(body)
            captured.update(query=payload.get("query"), operationName=payload.get("operationName"),
                            variables=payload.get("variables"), has_variables="variables" in payload)
        except Exception as exc:  # noqa
            captured["decode_exc"] = f"{type(exc).__name__}: {exc}"
            captured["raw"] = body[:2000].decode("latin-1")
        if req.get("respond") == "execute" and captured.get("query") is not None:
            # answer with a conformant response (the sent document executed by graphql-core), so that the part of the
            # method AFTER the request (get_data, <ResultClass>.model_validate) runs too
            res, _t = STATE["run"](captured["query"], captured.get("variables"), captured.get("operationName"),
                                   req.get("plan") or {"null": 0.0, "lens": [1]})
            return httpx.Response(200, json={"data": res.data})
        return httpx.Response(200, json=req.get("response_body") or {"data": None, "errors": [{"message": "stop"}]})

    out = {"request": captured, "exc": None}
    STATE["uploads"] = {}
    try:
        args = {k: decode(v) for k, v in (req.get("args") or {}).items()}
    except BaseException as exc:  # noqa
        out["exc"] = ["args:" + type(exc).__name__, str(exc)[:1500]]
        return out
    out["log_construct"] = _scalar_log()
    rec_tracer = _RecTracer() if req.get("tracer") else None
    client = make_client(handler, tracer=rec_tracer)
    out["tracer_used"] = bool(rec_tracer is not None and getattr(client, "tracer", None) is rec_tracer)
    if "custom" in req:
        # custom operation builder (enable_custom_operations): client.query(Query.<field>(**args), operation_name=...)
        try:
            root = getattr(STATE["mods"][req["custom"].get("module", "custom_queries")], req["custom"].get("root", "Query"))
            built = getattr(root, req["custom"]["field"])(**args)
        except BaseException as exc:  # noqa
            out["exc"] = ["build:" + type(exc).__name__, str(exc)[:600]]
            out["log_call"] = _scalar_log()
            return out
        out["log_build"] = _scalar_log()
        args = {}
        meth = getattr(client, req["method"])

        def fn(**_kw):
            return meth(built, operation_name=req["custom"].get("operation_name", "CustomOp"))
    else:
        fn = getattr(client, req["method"])
    is_sub = inspect.isasyncgenfunction(fn)
    if is_sub:
        # subscription: a scripted graphql-transport-ws connection (ack, complete) that records the subscribe
        # payload; its query / operationName / variables land in `captured` exactly like an HTTP request's
        req.setdefault("events", 0)
        _patch_ws(client, req, {}, captured)
    try:
        if is_sub:
            async def consume():
                return [x async for x in fn(**args)]

            r = asyncio.run(consume())
            captured["has_variables"] = "variables" in (captured.get("keys") or [])
        else:
            r = fn(**args)
            if inspect.iscoroutine(r):
                r = asyncio.run(r)
        if req.get("dump_result"):
            out["result_repr"] = _result_repr(r)
    except BaseException as exc:  # noqa
        out["exc"] = [type(exc).__name__, str(exc)[:600]]
    out["log_call"] = _scalar_log()
    if rec_tracer is not None:
        out["spans"] = [[sp.name, sorted(sp.attrs)] for sp in rec_tracer.spans][:20]
    if captured.get("query") is not None:
        try:
            out["sent"] = record_run(captured["query"], captured.get("variables"), captured.get("operationName"))
            if "intended" in req:
                out["intended"] = record_run(captured["query"], req["intended"], captured.get("operationName"))
        except BaseException as exc:  # noqa
            out["reference_exc"] = [type(exc).__name__, str(exc)[:600], traceback.format_exc()[-800:]]
    return out


def _result_repr(r):
    """Result model -> JSON-ish tree keeping python values of leaves (repr for non JSON-native ones)."""
    from pydantic import BaseModel

    if isinstance(r, BaseModel):
        return {"$cls": type(r).__name__, "fields": {k: _result_repr(getattr(r, k)) for k in type(r).model_fields
                                                      if k in r.model_fields_set}}
    if isinstance(r, list):
        return [_result_repr(x) for x in r]
    if isinstance(r, enum.Enum):
        return r.value
    if isinstance(r, dict):
        return {"$dict": {k: _result_repr(v) for k, v in r.items()}}
    if isinstance(r, (str, int, float, bool)) or r is None:
        return r
    return {"$repr": repr(r)}


def cmd_eval(req):
    env = {"pkg": STATE.get("pkg"), "mods": STATE.get("mods"), "STATE": STATE}
    try:
        exec(req["code"], env)  # noqa: S102 (harness-authored probes)
        return {"value": env.get("result")}
    except BaseException as exc:  # noqa
        return {"exc": [type(exc).__name__, str(exc)[:1500]], "tb": traceback.format_exc()[-1500:]}


def main():
    import warnings

    warnings.simplefilter("ignore")
    real = sys.stdout
    sys.stdout = sys.stderr  # generated code / libraries must not corrupt the protocol
    for line in sys.stdin:
        line = line.strip()
        if not line:
            continue
        req = json.loads(line)
        try:
            res = {"load": cmd_load, "call": cmd_call, "eval": cmd_eval, "call_args": cmd_call_args,
                   "hints": cmd_hints}[req["cmd"]](req)
        except BaseException as exc:  # noqa
            res = {"ok": False, "exc": ["driver." + type(exc).__name__, str(exc)[:1500]], "tb": traceback.format_exc()[-3000:]}
        real.write(json.dumps(res, default=str) + "\n")
        real.flush()


if __name__ == "__main__":
    main()
