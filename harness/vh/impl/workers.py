"""Pools of fresh interpreter subprocesses speaking JSON lines (generation, client driving)."""
from __future__ import annotations

import json
import os
import shutil
import subprocess
import sys
import tempfile
import threading
from concurrent.futures import ThreadPoolExecutor

HERE = os.path.dirname(os.path.abspath(__file__))
REPO = os.environ.get("VERIF_REPO", "/repo")


def child_env(extra_path: list[str] | None = None, hashseed: str | None = None) -> dict:
    env = dict(os.environ)
    paths = [os.path.dirname(os.path.dirname(HERE)), REPO] + (extra_path or [])
    env["PYTHONPATH"] = os.pathsep.join(paths)
    env["PYTHONHASHSEED"] = hashseed if hashseed is not None else env.get("PYTHONHASHSEED", "0")
    env["PYTHONDONTWRITEBYTECODE"] = "1"
    return env


class Worker:
    """One subprocess; request/response are JSON objects, one per line."""

    def __init__(self, script: str, args: list[str] | None = None, env: dict | None = None, cwd: str | None = None):
        self.p = subprocess.Popen(
            [sys.executable, os.path.join(HERE, script)] + (args or []),
            stdin=subprocess.PIPE, stdout=subprocess.PIPE, stderr=subprocess.PIPE,
            env=env or child_env(), cwd=cwd, text=True, bufsize=1,
        )
        self._err = []
        self._t = threading.Thread(target=self._drain, daemon=True)
        self._t.start()

    def _drain(self):
        for line in self.p.stderr:
            self._err.append(line)
            if len(self._err) > 200:
                del self._err[:100]

    def ask(self, req: dict) -> dict:
        try:
            self.p.stdin.write(json.dumps(req) + "\n")
            self.p.stdin.flush()
            line = self.p.stdout.readline()
        except BrokenPipeError:
            line = ""
        if not line:
            return {"ok": False, "exc": ["worker.died", "".join(self._err[-30:])], "died": True}
        return json.loads(line)

    def close(self):
        try:
            self.p.stdin.close()
            self.p.wait(timeout=10)
        except Exception:
            self.p.kill()


class Scratch:
    """A scratch root removed at exit."""

    def __init__(self, prefix="vh-"):
        self.root = tempfile.mkdtemp(prefix=prefix, dir=os.environ.get("VERIF_TMP") or None)
        self.n = 0
        self._lock = threading.Lock()

    def new(self, name="s") -> str:
        with self._lock:
            self.n += 1
            d = os.path.join(self.root, f"{name}{self.n}")
        os.makedirs(d)
        return d

    def cleanup(self):
        shutil.rmtree(self.root, ignore_errors=True)

    def __enter__(self):
        return self

    def __exit__(self, *a):
        self.cleanup()


def generate_many(reqs: list[dict], jobs: int = 12, hashseed: str | None = None,
                  script: str = "gen_worker.py") -> list[dict]:
    """Run generation requests on a pool of gen_worker processes (each request in one worker call).
    `script`: another worker script speaking the same protocol (path relative to this directory)."""
    if not reqs:
        return []
    jobs = max(1, min(jobs, len(reqs)))
    local = threading.local()
    workers = []
    lock = threading.Lock()

    def get():
        w = getattr(local, "w", None)
        if w is None or w.p.poll() is not None:
            w = Worker(script, env=child_env(hashseed=hashseed))
            local.w = w
            with lock:
                workers.append(w)
        return w

    def one(req):
        r = get().ask(req)
        if r.get("died"):
            local.w = None
        return r

    with ThreadPoolExecutor(max_workers=jobs) as ex:
        out = list(ex.map(one, reqs))
    for w in workers:
        w.close()
    return out


def read_package(target: str) -> dict:
    files = {}
    for root, _d, fs in os.walk(target):
        for f in fs:
            if f.endswith(".py") or f.endswith(".graphql") or f.endswith(".gql"):
                p = os.path.join(root, f)
                files[os.path.relpath(p, target)] = open(p).read()
    return files
