"""Driver process for C06 (fresh interpreter, JSON lines): imports a GENERATED package and exercises its
input classes.  Reuses client_driver's load / client construction.

commands
  {"cmd":"load", ...}                      as client_driver
  {"cmd":"classes"}                        -> {T: {py field: {"alias","required","annotation"}}} of the real classes
  {"cmd":"probe","type":T,"values":[json]} -> [{"alias":{ok,dump|exc},"name":{...}}]   build by alias / by field name
  {"cmd":"defaults","type":T,"value":json} -> {"ok", "fields": {wire: jsonable}, "unset_dump": ...} | {"exc":[cls,msg]}
  {"cmd":"roundtrip","method":m,"param":p,"type":T,"value":json}
                                           -> {"sent": variables json, "received": resolver kwargs | None, "exc":...}
"""
import asyncio
import inspect
import json
import os
import sys
import traceback

sys.path.insert(0, os.path.dirname(os.path.abspath(__file__)))
import client_driver as cd  # noqa: E402

STATE = cd.STATE


def exc_info(exc):
    return [type(exc).__name__, str(exc)[:600]]


def jsonable(v):
    from pydantic_core import to_jsonable_python

    return to_jsonable_python(v, by_alias=True, fallback=lambda o: {"$unserialisable": type(o).__name__})


def plain(v):
    """attribute values as JSON, by alias, WITHOUT running field serializers (defaults are stored unvalidated)"""
    import datetime
    import enum

    from pydantic import BaseModel
    from pydantic.fields import FieldInfo

    if isinstance(v, BaseModel):
        return {(f.alias or n): plain(getattr(v, n)) for n, f in type(v).model_fields.items()}
    if isinstance(v, (list, tuple)):
        return [plain(x) for x in v]
    if isinstance(v, dict):
        return {str(k): plain(x) for k, x in v.items()}
    if isinstance(v, enum.Enum):
        return v.value
    if isinstance(v, (datetime.datetime, datetime.date)):
        return v.isoformat()
    if isinstance(v, FieldInfo):
        return {"$unserialisable": "FieldInfo"}
    if v is None or isinstance(v, (str, int, float, bool)):
        return v
    return {"$unserialisable": type(v).__name__}


def gql_named(t):
    from graphql import get_named_type

    return get_named_type(t)


def rename(tname, value):
    """wire-form value of input type tname -> same value keyed by Python field names (recursively)"""
    from graphql import GraphQLInputObjectType, GraphQLList, GraphQLNonNull

    schema = STATE["schema"]

    def go(t, v):
        if v is None:
            return None
        if isinstance(t, GraphQLNonNull):
            return go(t.of_type, v)
        if isinstance(t, GraphQLList):
            return [go(t.of_type, x) for x in v] if isinstance(v, list) else v
        if isinstance(t, GraphQLInputObjectType) and isinstance(v, dict):
            cls = getattr(STATE["mods"]["input_types"], t.name)
            by_alias = {(f.alias or n): n for n, f in cls.model_fields.items()}
            out = {}
            for k, x in v.items():
                ft = t.fields[k].type if k in t.fields else None
                out[by_alias.get(k, k)] = go(ft, x) if ft is not None else x
            return out
        return v

    return go(schema.type_map[tname], value)


def attempt(fn):
    import warnings

    try:
        with warnings.catch_warnings():
            warnings.simplefilter("ignore")
            inst = fn()
    except BaseException as exc:  # noqa
        return {"ok": False, "exc": exc_info(exc)}
    out = {"ok": True}
    for key, kw in (("dump", {}), ("unset_dump", {"exclude_unset": True})):
        try:
            with warnings.catch_warnings():
                warnings.simplefilter("ignore")
                out[key] = jsonable(inst.model_dump(by_alias=True, **kw))
        except BaseException as exc:  # noqa
            out[key + "_exc"] = exc_info(exc)
    return out


def cmd_classes(req):
    from pydantic import BaseModel

    mod = STATE["mods"]["input_types"]
    out = {}
    for name, obj in vars(mod).items():
        if isinstance(obj, type) and issubclass(obj, BaseModel) and obj.__module__ == mod.__name__:
            out[name] = {n: {"alias": f.alias, "required": f.is_required(), "annotation": str(f.annotation)}
                         for n, f in obj.model_fields.items()}
    return {"classes": out}


def cmd_probe(req):
    cls = getattr(STATE["mods"]["input_types"], req["type"])
    rows = []
    for v in req["values"]:
        row = {"alias": attempt(lambda: cls.model_validate(v))}
        if isinstance(v, dict):
            try:
                kw = rename(req["type"], v)
                row["renamed"] = kw
                row["name"] = attempt(lambda: cls(**kw))
            except BaseException as exc:  # noqa
                row["name"] = {"ok": False, "exc": ["rename:" + type(exc).__name__, str(exc)[:300]]}
        rows.append(row)
    return {"rows": rows}


def cmd_defaults(req):
    import warnings

    cls = getattr(STATE["mods"]["input_types"], req["type"])
    try:
        inst = cls.model_validate(req["value"])
    except BaseException as exc:  # noqa
        return {"ok": False, "exc": exc_info(exc)}
    fields = {}
    with warnings.catch_warnings():
        warnings.simplefilter("ignore")
        for n, f in cls.model_fields.items():
            try:
                fields[f.alias or n] = {"py": n, "set": n in inst.model_fields_set, "value": plain(getattr(inst, n))}
            except BaseException as exc:  # noqa
                fields[f.alias or n] = {"py": n, "set": False, "exc": exc_info(exc)}
    return {"ok": True, "fields": fields}


def cmd_roundtrip(req):
    import httpx
    from graphql import execute_sync, parse

    schema = STATE["schema"]
    cls = getattr(STATE["mods"]["input_types"], req["type"])
    out = {"sent": None, "received": None, "exc": None, "exec_errors": None}
    try:
        if req.get("by") == "name":
            inst = cls(**rename(req["type"], req["value"]))
        else:
            inst = cls.model_validate(req["value"])
    except BaseException as exc:  # noqa
        out["exc"] = ["build:" + type(exc).__name__, str(exc)[:400]]
        return out
    got = {}

    def resolver(source, info, **args):
        got[info.field_name] = args
        return 1

    def handler(request: httpx.Request):
        payload = json.loads(request.content)
        out["sent"] = payload.get("variables")
        res = execute_sync(schema, parse(payload["query"]), variable_values=payload.get("variables") or {},
                           operation_name=payload.get("operationName"), field_resolver=resolver)
        out["exec_errors"] = [str(e)[:300] for e in (res.errors or [])]
        body = {"data": res.data}
        if res.errors:
            body["errors"] = [{"message": str(e)} for e in res.errors]
        return httpx.Response(200, json=body)

    client = cd.make_client(handler)
    fn = getattr(client, req["method"])
    try:
        r = fn(**{req["param"]: inst})
        if inspect.iscoroutine(r):
            asyncio.run(r)
    except BaseException as exc:  # noqa
        out["exc"] = [type(exc).__name__, str(exc)[:400]]
    if got:
        args = next(iter(got.values()))
        out["received"] = json.loads(json.dumps(args.get(req.get("arg", "arg")), default=str))
    return out


def main():
    import warnings

    warnings.simplefilter("ignore")
    real = sys.stdout
    sys.stdout = sys.stderr
    table = {"load": cd.cmd_load, "eval": cd.cmd_eval, "classes": cmd_classes, "probe": cmd_probe,
             "defaults": cmd_defaults, "roundtrip": cmd_roundtrip}
    for line in sys.stdin:
        line = line.strip()
        if not line:
            continue
        req = json.loads(line)
        try:
            res = table[req["cmd"]](req)
        except BaseException as exc:  # noqa
            res = {"ok": False, "exc": ["driver." + type(exc).__name__, str(exc)[:1500]],
                   "tb": traceback.format_exc()[-3000:]}
        real.write(json.dumps(res, default=str) + "\n")
        real.flush()


if __name__ == "__main__":
    main()
