"""Worker process: runs ariadne-codegen's generator from $VERIF_REPO on scenarios given as JSON lines.

request : {"dir": scratch dir, "schema": {relpath: text} | text, "queries": {relpath: text} | text | null,
           "config": {client settings overrides}, "files": {relpath: text} (extra files, e.g. scalars module),
           "strategy": "client" | "graphqlschema", "add_sys_path": bool (scenario dir importable: plugin modules)}
response: {"ok": bool, "exc": [class qualified name, message] | null, "files": [reported file list] | null,
           "stdout": str, "target": path}
Runs with cwd = the scenario dir (relative paths in the config are relative to it)."""
import contextlib
import io
import json
import os
import sys
import traceback


def write_tree(base, spec, default_name):
    if spec is None:
        return None
    if isinstance(spec, str):
        p = os.path.join(base, default_name)
        with open(p, "w") as fh:
            fh.write(spec)
        return default_name
    root = default_name.split(".")[0] + "_dir"
    for rel, text in spec.items():
        p = os.path.join(base, root, rel)
        os.makedirs(os.path.dirname(p), exist_ok=True)
        with open(p, "w") as fh:
            fh.write(text)
    return root


def handle(req):
    from ariadne_codegen import main as acmain

    d = req["dir"]
    os.makedirs(d, exist_ok=True)
    os.chdir(d)
    if req.get("add_sys_path") and d not in sys.path:  # plugin modules written next to the scenario (C15)
        sys.path.insert(0, d)
    for rel, text in (req.get("files") or {}).items():
        p = os.path.join(d, rel)
        os.makedirs(os.path.dirname(p), exist_ok=True)
        with open(p, "w") as fh:
            fh.write(text)
    section = dict(req.get("config") or {})
    if "schema_path" not in section and "remote_schema_url" not in section:
        section["schema_path"] = write_tree(d, req["schema"], "schema.graphql")
    if req.get("queries") is not None and "queries_path" not in section:
        section["queries_path"] = write_tree(d, req["queries"], "queries.graphql")
    strategy = req.get("strategy", "client")
    if strategy == "client":
        section.setdefault("target_package_name", "gen_client")
        section.setdefault("include_comments", "none")
    # "legacy_section": the deprecated top-level [ariadne-codegen] table instead of [tool.ariadne-codegen] (C15/C17)
    cfg = {"ariadne-codegen": section} if req.get("legacy_section") else {"tool": {"ariadne-codegen": section}}
    out = io.StringIO()
    res = {"ok": False, "exc": None, "files": None, "stdout": "", "target": None, "config": section}
    try:
        with contextlib.redirect_stdout(out):
            if strategy == "client":
                acmain.client(cfg)
            else:
                acmain.graphql_schema(cfg)
        res["ok"] = True
        text = out.getvalue()
        if "Generated files:" in text:
            res["files"] = [l.strip() for l in text.split("Generated files:")[1].splitlines() if l.strip()]
        if strategy == "client":
            res["target"] = os.path.join(d, section.get("target_package_path", ""), section["target_package_name"])
    except BaseException as exc:  # noqa
        if isinstance(exc, (KeyboardInterrupt, SystemExit)):
            raise
        res["exc"] = [type(exc).__module__ + "." + type(exc).__qualname__, str(exc)[:2000]]
        res["tb"] = traceback.format_exc()[-3000:]
    res["stdout"] = out.getvalue()[-2000:]
    return res


def main():
    import warnings

    warnings.simplefilter("ignore")
    for line in sys.stdin:
        line = line.strip()
        if not line:
            continue
        req = json.loads(line)
        try:
            res = handle(req)
        except BaseException as exc:  # noqa
            res = {"ok": False, "exc": ["worker." + type(exc).__name__, str(exc)], "tb": traceback.format_exc()}
        sys.stdout.write(json.dumps(res) + "\n")
        sys.stdout.flush()


if __name__ == "__main__":
    real_stdout = sys.stdout
    main()
