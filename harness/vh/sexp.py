"""S-expression text codec shared with coq/driver/driver.ml.

Python side: a sexp is a str (atom) or a list of sexps.  Helpers convert Python values.
Strings are sent as their UTF-8 bytes; every byte outside printable ASCII travels as \\xHH.
"""
from __future__ import annotations


def _quote(s: str) -> str:
    out = ['"']
    for b in s.encode("utf-8"):
        c = chr(b)
        if c == '"':
            out.append('\\"')
        elif c == "\\":
            out.append("\\\\")
        elif c == "\n":
            out.append("\\n")
        elif b < 32 or b >= 127:
            out.append("\\x%02x" % b)
        else:
            out.append(c)
    out.append('"')
    return "".join(out)


def dumps(e) -> str:
    """Python value -> one-line text.  str -> quoted atom, bool -> t/f, int -> decimal atom,
    None -> none, list/tuple -> list."""
    if isinstance(e, Sym):
        return e.name
    if isinstance(e, str):
        return _quote(e)
    if e is True:
        return "t"
    if e is False:
        return "f"
    if e is None:
        return "none"
    if isinstance(e, int):
        return str(e)
    if isinstance(e, (list, tuple)):
        return "(" + " ".join(dumps(x) for x in e) + ")"
    raise TypeError(f"cannot encode {type(e)}")


class Sym:
    """A bare (unquoted) atom, e.g. a command name."""

    def __init__(self, name: str):
        self.name = name

    def __repr__(self):
        return f"Sym({self.name})"


def some(x):
    return [Sym("some"), x]


def opt(x):
    return None if x is None else some(x)


def loads(text: str):
    """One-line text -> nested lists of str atoms."""
    data = text.encode("utf-8") if isinstance(text, str) else text
    n = len(data)
    pos = 0

    def skip():
        nonlocal pos
        while pos < n and data[pos] in b" \t\r\n":
            pos += 1

    def item():
        nonlocal pos
        skip()
        if pos >= n:
            raise ValueError("eof")
        c = data[pos]
        if c == 0x28:
            pos += 1
            out = []
            while True:
                skip()
                if pos >= n:
                    raise ValueError("unclosed")
                if data[pos] == 0x29:
                    pos += 1
                    return out
                out.append(item())
        if c == 0x22:
            pos += 1
            buf = bytearray()
            while True:
                if pos >= n:
                    raise ValueError("unclosed string")
                c = data[pos]
                pos += 1
                if c == 0x22:
                    break
                if c == 0x5C:
                    e = data[pos]
                    pos += 1
                    if e == 0x6E:
                        buf.append(10)
                    elif e == 0x74:
                        buf.append(9)
                    elif e == 0x72:
                        buf.append(13)
                    elif e == 0x78:
                        buf.append(int(data[pos : pos + 2], 16))
                        pos += 2
                    else:
                        buf.append(e)
                else:
                    buf.append(c)
            return buf.decode("utf-8", errors="surrogateescape")
        st = pos
        while pos < n and data[pos] not in b' \t\r\n()"':
            pos += 1
        return data[st:pos].decode("utf-8")

    r = item()
    skip()
    if pos != n:
        raise ValueError("trailing input")
    return r


# ---- JSON <-> sexp (Base/Json.v codec) ----
def json_sx(v):
    if v is None:
        return Sym("n")
    if isinstance(v, bool):
        return [Sym("b"), v]
    if isinstance(v, int):
        return [Sym("i"), v]
    if isinstance(v, float):
        return [Sym("f"), repr(v)]
    if isinstance(v, str):
        return [Sym("s"), v]
    if isinstance(v, (list, tuple)):
        return [Sym("a")] + [json_sx(x) for x in v]
    if isinstance(v, dict):
        return [Sym("o")] + [[k, json_sx(x)] for k, x in v.items()]
    raise TypeError(f"not JSON: {type(v)}")


def sx_json(e):
    if e == "n":
        return None
    tag = e[0]
    if tag == "b":
        return e[1] == "t"
    if tag == "i":
        return int(e[1])
    if tag == "f":
        return float(e[1])
    if tag == "s":
        return e[1]
    if tag == "a":
        return [sx_json(x) for x in e[1:]]
    if tag == "o":
        return {k: sx_json(x) for k, x in e[1:]}
    raise ValueError(f"bad json sexp {e!r}")
