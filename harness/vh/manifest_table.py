"""Single table from which MANIFEST.json is generated (python -m vh.manifest_table)."""
import json
import os

VERIF = os.environ.get("VERIF_ROOT", "/verif")

TB = ("Trusted: Coq 8.16.1 kernel (vm_compute, no native_compute); no axioms (Print Assumptions: closed) unless "
      "named; ExtrOcamlBasic extraction + coq/driver/driver.ml; the Python correspondence harness; ")

def load_checks():
    d = {}
    md = os.path.join(VERIF, "harness", "vh", "meta")
    for f in sorted(os.listdir(md)):
        if f.endswith(".json"):
            d[f[:-5]] = json.load(open(os.path.join(md, f)))
    return d


CHECKS = load_checks()

NOT_YET = {}


def build():
    checks = []
    for pid in sorted(CHECKS):
        c = CHECKS[pid]
        checks.append({
            "property_id": pid,
            "quick_cmd": f"./check {pid} quick",
            "thorough_cmd": f"./check {pid} thorough",
            "evidence_file": f"/verif/evidence/{pid}.json",
            "replay_cmd_template": f"./check {pid} quick --replay {{path}}",
            "engine": "coq-model+vh",
            "level_claimed": {"category": "proof", "text": c["text"], "design_ref": c["design"]},
            "level_note": c["note"],
            "technique": c["technique"],
        })
    all_ids = [json.loads(l)["id"] for l in open(os.path.join(VERIF, "properties.jsonl"))]
    na = [{"property_id": p, "reason": NOT_YET.get(p, "check not built yet in this session (work in progress; see DESIGN.md §10)")}
          for p in all_ids if p not in CHECKS]
    return {
        "version": 1,
        "setup_cmd": "cd /verif && ./setup.sh",
        "hooks": {
            "guard": "ARIADNE_CODEGEN_VERIF",
            "enable": "export ARIADNE_CODEGEN_VERIF=1 (set by ./check); no hook commits exist: every observable is reached through public entry points",
            "baseline_off_cmd": "cd /repo && /venv/bin/python -m pytest -ra -q -p no:cacheprovider --timeout=900 --continue-on-collection-errors",
            "source_commits": [],
            "add_only": True,
        },
        "engines": [{
            "name": "coq-model+vh", "path": "/verif/coq, /verif/harness/vh",
            "serves_properties": sorted(CHECKS),
            "kind_free_text": "Coq 8.16 development (hand-written Gallina models, theorems in theories/Properties) "
                              "+ extracted OCaml model runner + Python correspondence harness",
        }],
        "checks": checks,
        "not_applicable": na,
        "notes": "Every check: full .vo build, Properties/<id>.v recompiled with Print Assumptions captured, hygiene grep, "
                 "then model/code correspondence and the property's direct oracle on /repo's working tree.",
    }


if __name__ == "__main__":
    with open(os.path.join(VERIF, "MANIFEST.json"), "w") as fh:
        json.dump(build(), fh, indent=1)
    print("MANIFEST.json written")
