"""C12, last clause: "the generated method returns the validated model of exactly that data".

Four generated packages (sync/async x plain/OpenTelemetry base client) are produced by the real
generator in a scratch directory, imported in a fresh interpreter and every method is driven with the
(2xx and non-2xx) x body table through httpx.MockTransport.  Expected (model client_method = validate o
get_data, Theorem C12_method_returns_validated): the method returns ResultModel.model_validate(data)
exactly when get_data returns data; raises pydantic ValidationError when that data does not validate;
otherwise raises exactly what get_data raises.  The expectation is computed from the extracted model's
outcome kind plus pydantic's own model_validate on the data the model says is returned.
"""
from __future__ import annotations

import json
import os
import shutil
import subprocess
import sys
import tempfile

from .. import model
from ..sexp import Sym, json_sx, sx_json

SCHEMA = """
scalar Upload
type Query { thing(id: ID!): Thing  things: [Thing!]! }
type Mutation { up(file: Upload!): Thing }
type Thing { id: ID!  name: String  size: Int }
"""
QUERIES = """
query GetThing($id: ID!) { thing(id: $id) { id name size } }
query ListThings { things { id name } }
mutation UploadThing($file: Upload!) { up(file: $file) { id size } }
"""

E1 = {"message": "boom", "path": ["thing"]}
BODIES = [
    ("valid", {"data": {"thing": {"id": "1", "name": "n", "size": 3}, "things": [{"id": "1", "name": None}], "up": {"id": "9", "size": 1}}}),
    ("valid-null", {"data": {"thing": None, "things": [], "up": None}}),
    ("valid+extensions", {"data": {"thing": None, "things": [], "up": None}, "extensions": {"t": 1}}),
    ("valid+errors-empty", {"data": {"thing": None, "things": [], "up": None}, "errors": []}),
    ("wrong-type", {"data": {"thing": {"id": "1", "name": 5, "size": "x"}, "things": "no"}}),
    ("missing-field", {"data": {}}),
    ("data-null", {"data": None}),
    ("errors-empty-only", {"errors": []}),
    ("errors+data", {"data": {"thing": None, "things": [], "up": None}, "errors": [E1]}),
    ("errors-only", {"errors": [E1, {"message": "two"}]}),
    ("neither", {"extensions": {}}),
    ("array", [1]), ("empty-array", []), ("json-string", "ok"), ("json-number", 42),
    ("nonjson", None),
]
STATUSES = [200, 201, 299, 199, 300, 404, 500]

DRIVER = r'''
import asyncio, importlib, json, sys
import httpx
pkgname, is_async, cases = sys.argv[1], sys.argv[2] == "1", json.load(open(sys.argv[3]))
extra = {}
if len(sys.argv) > 5 and sys.argv[5] == "rec":
    from vh.props.rec_tracer import RecTracer
    extra["tracer"] = RecTracer()
pkg = importlib.import_module(pkgname)
cur = {}
def handler(request):
    raw = cur["raw"]
    return httpx.Response(cur["st"], content=raw.encode() if raw is not None else b"<html>")
out = []
def classify(fn_result=None, exc=None):
    if exc is None:
        r = fn_result
        return {"kind": "return", "type": type(r).__name__, "dump": r.model_dump(mode="json", by_alias=True)}
    t = type(exc)
    d = {"kind": "raise", "type": t.__name__, "from_pkg": getattr(pkg, t.__name__, None) is t}
    if t.__name__ == "GraphQLClientHttpError":
        d["status"] = exc.status_code
    if t.__name__ == "GraphQLClientGraphQLMultiError":
        d["messages"] = [e.message for e in exc.errors]; d["data"] = exc.data
    return d
import io
# the third method sends an Upload: its request goes down the multipart path of execute
METHODS = [("get_thing", {"id": "1"}, "GetThing"), ("list_things", {}, "ListThings"), ("upload_thing", {"file": "__UPLOAD__"}, "UploadThing")]
def kwargs_of(kw):
    return {k: (pkg.Upload(filename="f.txt", content=io.BytesIO(b"data"), content_type="text/plain") if v == "__UPLOAD__" else v)
            for k, v in kw.items()}
def expect_validate(resname, data):
    cls = getattr(pkg, resname)
    try:
        return {"ok": True, "dump": cls.model_validate(data).model_dump(mode="json", by_alias=True)}
    except Exception as e:
        return {"ok": False, "type": type(e).__name__}
if is_async:
    async def go():
        client = pkg.Client(url="http://verif.test/graphql", http_client=httpx.AsyncClient(transport=httpx.MockTransport(handler)), **extra)
        for st, raw in cases:
            cur["st"], cur["raw"] = st, raw
            for m, kw, res in METHODS:
                try:
                    r = await getattr(client, m)(**kwargs_of(kw)); out.append(classify(r))
                except Exception as e:
                    out.append(classify(exc=e))
    asyncio.run(go())
else:
    client = pkg.Client(url="http://verif.test/graphql", http_client=httpx.Client(transport=httpx.MockTransport(handler)), **extra)
    for st, raw in cases:
        cur["st"], cur["raw"] = st, raw
        for m, kw, res in METHODS:
            try:
                out.append(classify(getattr(client, m)(**kwargs_of(kw))))
            except Exception as e:
                out.append(classify(exc=e))
# validation oracle for every data value the caller asks about
val = {}
for key, (res, data) in json.load(open(sys.argv[4])).items():
    val[key] = expect_validate(res, data)
json.dump({"out": out, "val": val}, sys.stdout)
'''


def run(ctx):
    run = ctx.run
    repo = os.environ.get("VERIF_REPO", "/repo")
    tmp = tempfile.mkdtemp(prefix="c12m_")
    try:
        with open(os.path.join(tmp, "schema.graphql"), "w") as f:
            f.write(SCHEMA)
        with open(os.path.join(tmp, "queries.graphql"), "w") as f:
            f.write(QUERIES)
        with open(os.path.join(tmp, "driver.py"), "w") as f:
            f.write(DRIVER)
        cases = [(st, (json.dumps(b) if b is not None else None)) for _, b in BODIES for st in STATUSES]
        mres = model.batch("C12", [[Sym("get_data"), st, (Sym("none") if raw is None else [Sym("some"), json_sx(json.loads(raw))])]
                                   for st, raw in cases])
        with open(os.path.join(tmp, "cases.json"), "w") as f:
            json.dump(cases, f)
        # data values the model says get_data returns -> ask the package's own result models
        ask = {}
        for i, r in enumerate(mres):
            if r[0][0] == "data":
                for res in ("GetThing", "ListThings", "UploadThing"):
                    ask[f"{i}:{res}"] = (res, sx_json(r[0][1]))
        with open(os.path.join(tmp, "ask.json"), "w") as f:
            json.dump(ask, f)
        harness = os.path.dirname(os.path.dirname(os.path.dirname(os.path.abspath(__file__))))
        env = dict(os.environ, PYTHONPATH=f"{repo}:{tmp}:{harness}", PYTHONDONTWRITEBYTECODE="1")
        bad = 0
        for is_async in (False, True):
            for otel in (False, True):
                name = f"c12pkg_{'a' if is_async else 's'}{'o' if otel else 'p'}"
                cfg = os.path.join(tmp, f"{name}.toml")
                with open(cfg, "w") as f:
                    f.write(f'[tool.ariadne-codegen]\nschema_path = "schema.graphql"\nqueries_path = "queries.graphql"\n'
                            f'target_package_name = "{name}"\nasync_client = {str(is_async).lower()}\n'
                            f'opentelemetry_client = {str(otel).lower()}\ninclude_comments = "none"\n')
                g = subprocess.run(["/venv/bin/python", "-m", "ariadne_codegen", "client", "--config", cfg], cwd=tmp, env=env,
                                   stdout=subprocess.PIPE, stderr=subprocess.STDOUT, timeout=300)
                if g.returncode != 0 or not os.path.isdir(os.path.join(tmp, name)):
                    run.broken("C12 methods: generation failed", g.stdout.decode(errors="replace")[-1500:])
                    return
                for tracer in (["none", "rec"] if otel else ["none"]):
                    p = subprocess.run(["/venv/bin/python", "driver.py", name, "1" if is_async else "0", "cases.json", "ask.json", tracer],
                                       cwd=tmp, env=env, stdout=subprocess.PIPE, stderr=subprocess.PIPE, timeout=600)
                    if p.returncode != 0:
                        run.broken("C12 methods: driver failed", p.stderr.decode(errors="replace")[-1500:])
                        return
                    res = json.loads(p.stdout)
                    out, val = res["out"], res["val"]
                    k = 0
                    for i, ((st, raw), r) in enumerate(zip(cases, mres)):
                        kind = r[0][0]
                        for resname in ("GetThing", "ListThings", "UploadThing"):
                            o = out[k]
                            k += 1
                            run.count()
                            run.dist("method_outcome", f"{kind}")
                            if kind == "data":
                                v = val[f"{i}:{resname}"]
                                exp = ({"kind": "return", "type": resname, "dump": v["dump"]} if v["ok"]
                                       else {"kind": "raise", "type": v["type"], "from_pkg": False})
                            elif kind == "http":
                                exp = {"kind": "raise", "type": "GraphQLClientHttpError", "from_pkg": True, "status": st}
                            elif kind == "invalid":
                                exp = {"kind": "raise", "type": "GraphQLClientInvalidResponseError", "from_pkg": True}
                            elif kind == "multi":
                                exp = {"kind": "raise", "type": "GraphQLClientGraphQLMultiError", "from_pkg": True,
                                       "messages": [sx_json(g0[0]) for g0 in r[0][1]], "data": sx_json(r[0][2])}
                            else:
                                continue
                            if o != exp:
                                bad += 1
                                if bad <= 4:
                                    # property failure when the package returned something else than the validated data,
                                    # or returned at all when get_data must raise
                                    run.violation(
                                        f"generated {name}.Client (tracer={tracer}) method for {resname}: status {st} body {str(raw)[:120]}: expected {exp}, got {o}",
                                        {"package": name, "tracer": tracer, "status": st, "body": raw, "operation": resname, "expected": exp, "observed": o})
                            if kind == "data" and exp["kind"] == "return":
                                run.nontrivial_case(("method", st, raw, resname))
        run.extra["method_cases_per_package"] = len(cases) * 3
        run.extra["method_disagreements"] = bad
        run.sample({"generated_method": "c12pkg_sp.Client.get_thing", "status": 200, "body": cases[0][1],
                    "observed": "returned GetThing validated from exactly the data member"})
    finally:
        shutil.rmtree(tmp, ignore_errors=True)
