"""C09 — Pruning unused inputs and enums never removes something needed.

K1a (volume, in-process): Model/Prune.v `deps`/`generate` vs InputTypesGenerator on seeded dependency graphs
     (chains, cycles, self-loops, trees, diamonds, components, random multigraphs): DFS order, retained
     classes, enums of the retained classes.
K1b (outermost observable): for every scenario the REAL generator runs under the four flag combinations; the
     model is fed the unpruned package's class list (names + exact source text), the schema's dependency
     graph and the operations' variable/result/fragment enums (computed with graphql-core, not with the
     generator) and must predict the class lists of input_types.py / enums.py of all four packages,
     name by name and text by text.
K3  property oracle on the real packages: retained sets = the closure the property names (independent BFS);
     every package imports with all models complete; every operation, driven with the same arguments and the
     same scripted response plans, sends the same request and returns the same result as in the unpruned
     package.
custom_ops stream: the same with enable_custom_operations; the builder modules' own imports are the builder
     roots of the model (former finding F25, fixed in /repo c0f9ed8: a failure here is a VIOLATION again).
"""
from __future__ import annotations

import json
import random

from .. import model
from ..canon import prune_inputs
from ..gen import prune_scen, scenario
from ..impl import scen, workers
from ..sexp import Sym

FLAGS = [(True, True), (True, False), (False, True), (False, False)]
PLANS = [
    {"k": 0, "null": 0.0, "lens": [1], "seed": 0},
    {"k": 1, "null": 0.3, "lens": [0, 2], "seed": 1},
    {"k": 2, "null": 0.1, "lens": [2, 1], "seed": 2, "mix": False},
]


def fl(b):
    return "all" if b else "pruned"


# ------------------------------------------------------------------------------------------- K1a
def graph_case(rng: random.Random):
    shape = rng.choice(prune_scen.SHAPES)
    n = rng.randint(1, 9)
    g = prune_scen.graph_for(shape, n, rng)
    names = [f"N{i}" for i in range(n)]
    enums = [f"E{i}" for i in range(rng.randint(1, 4))]
    uses = {i: [rng.choice(enums) for _ in range(rng.choice([0, 0, 1, 2]))] for i in range(n)}
    order = list(range(n))
    rng.shuffle(order)  # definition order in the SDL (= type_map order) is independent of the graph
    lines = [f"enum {e} {{ A B }}" for e in enums]
    for i in order:
        fs = ["  x: Int"]
        k = 0
        pairs = [("d", names[j]) for j in g[i]] + [("e", e) for e in uses[i]]
        rng.shuffle(pairs)
        for kind, t in pairs:
            k += 1
            fs.append(f"  f{k}: " + (rng.choice(["[{}]", "[{}!]", "{}"]) if kind == "d" else rng.choice(["{}", "{}!"])).format(t))
        lines.append(f"input {names[i]} {{\n" + "\n".join(fs) + "\n}")
    lines.append("type Query { q: Int }")
    roots = [rng.choice(names) for _ in range(rng.choice([0, 1, 1, 2, 3]))]
    return shape, "\n".join(lines), roots


def preamble_from_source(run):
    """The fixed imports of input_types.py are DATA of the model (std_preamble): read them off the generator on
    every run and fail closed if they can no longer be read or differ."""
    import ast as _ast

    from graphql import build_schema

    try:
        from ariadne_codegen.client_generators.input_types import InputTypesGenerator

        gen = InputTypesGenerator(schema=build_schema("type Query { a: Int }"))
        imports = gen._imports
        items = []
        for node in imports:
            assert isinstance(node, _ast.ImportFrom)
            items += [f"{'.' * node.level}{node.module or ''}:{a.name}" for a in node.names]
    except Exception as exc:
        run.broken("preamble derivation", f"cannot read the fixed imports of InputTypesGenerator any more: {type(exc).__name__}: {exc}")
        return
    m = model.call("C09", [Sym("std_preamble")])
    if sorted(items) != sorted(m) or sorted(items) != sorted(prune_inputs.PREAMBLE):
        run.broken("preamble", f"InputTypesGenerator starts with imports {sorted(items)}, Model/Prune.v std_preamble is {sorted(m)}")
    run.extra["preamble_from_source"] = sorted(items)


def k1a(ctx):
    run = ctx.run
    from graphql import build_schema

    try:
        from ariadne_codegen.client_generators.input_types import InputTypesGenerator
    except Exception as exc:  # a rename is not a violation: K1b covers the same ground end to end
        run.extra["k1a"] = f"skipped: {type(exc).__name__}: {exc}"
        return
    n = 2500 if ctx.thorough else 400
    rng = random.Random(ctx.seed * 7919 + 9)
    cases, cmds = [], []
    for _ in range(n):
        shape, sdl, roots = graph_case(rng)
        schema = build_schema(sdl)
        an_graph = prune_inputs.input_graph(schema)
        order = list(an_graph)
        ins = [[nm, an_graph[nm][0], an_graph[nm][1], "class " + nm, [], []] for nm in order]
        ens = [[e, "enum " + e] for e, t in schema.type_map.items() if e.startswith("E") and len(e) == 2]
        cmds.append([Sym("generate"), ins, ens, roots, [], [], [], False, False, False, [], [], []])
        graph_sx = [[nm, an_graph[nm][0]] for nm in order]
        t = roots[0] if roots else order[0]
        cmds.append([Sym("deps"), graph_sx, t])
        cases.append((shape, sdl, roots, schema, t))
    res = model.batch("C09", cmds)
    bad = 0
    for i, (shape, sdl, roots, schema, t) in enumerate(cases):
        run.count()
        run.dist("k1a_graph_shape", shape)
        run.dist("k1a_roots", str(len(roots)))
        mg, md = res[2 * i], res[2 * i + 1]
        if model.is_error(mg) or mg == "none" or md == "none":
            run.broken("K1a model", f"model returned {mg!r} / {md!r} for {sdl!r}")
            return
        m_inputs = [d[0] for d in mg[1][0]]
        m_used = mg[1][2]
        gen = InputTypesGenerator(schema=schema)
        module = gen.generate(types_to_include=roots)
        import ast as _ast

        i_inputs = [c.name for c in module.body if isinstance(c, _ast.ClassDef)]
        i_used = list(gen.get_used_enums())
        i_deps = None
        if hasattr(gen, "_get_dependencies_of_type"):
            i_deps = list(InputTypesGenerator(schema=schema)._get_dependencies_of_type(t))
        if len(m_inputs) not in (0, len(schema.type_map)):
            run.nontrivial_case(("k1a", sdl, tuple(roots)))
        if i_inputs != m_inputs or i_used != m_used or (i_deps is not None and i_deps != md[1]):
            bad += 1
            # search: is the PROPERTY violated on this input (closure by independent BFS)?
            g = prune_inputs.input_graph(schema)
            todo, spec = list(roots), set()
            while todo:
                x = todo.pop()
                if x not in spec:
                    spec.add(x)
                    todo.extend(g[x][0])
            prop_fails = set(i_inputs) != spec
            run.violation(
                f"K1a: InputTypesGenerator disagrees with Model/Prune.v on a {shape} graph: impl classes {i_inputs} "
                f"model {m_inputs}; impl enums {i_used} model {m_used}; impl dfs {i_deps} model {md[1]}; "
                + (f"property fails: retained {sorted(i_inputs)} != closure {sorted(spec)}" if prop_fails
                   else "retained set still equals the closure on this input"),
                {"schema": sdl, "types_to_include": roots, "impl": {"classes": i_inputs, "enums": i_used, "dfs": i_deps},
                 "model": {"classes": m_inputs, "enums": m_used, "dfs": md[1]}, "closure": sorted(spec)},
                found_input=prop_fails)
            if bad > 5:
                break
    run.extra["k1a_cases"] = len(cases)
    run.extra["k1a_disagreements"] = bad


# ------------------------------------------------------------------------------------------- K1b + K3
def requests_for(sc, scratch, extra_cfg=None):
    reqs = []
    for fi, fe in FLAGS:
        cfg = {"include_all_inputs": fi, "include_all_enums": fe}
        cfg.update(extra_cfg or {})
        reqs.append(sc.request(scratch.new(), config=cfg))
    return reqs


def model_cmds(an, unpruned_files, scalars_cfg=None, snake=True):
    """generate commands in which every input class is DERIVED by the model from its fields (Model/Prune.v derive);
    also returns what the derivation must agree with: the names each class of the unpruned file really uses."""
    text_in = unpruned_files.get("input_types.py", "")
    ins_cls = prune_inputs.classes_of(text_in)
    en_cls = prune_inputs.classes_of(unpruned_files.get("enums.py", ""))
    needs = prune_inputs.class_needs(text_in)
    fields = prune_inputs.input_fields_sx(an.schema, scalars_cfg or {})
    ins = [[Sym("derived"), name, text, snake, fields.get(name, [])] for name, text in ins_cls]
    ens = [[n, t] for n, t in en_cls]
    custom = bool(getattr(an, "custom", False))
    cmds = [[Sym("generate"), ins, ens, an.arg_inputs, an.arg_enums, an.res_enums, an.frag_enums, fi, fe,
             custom, getattr(an, "builder_inputs", []), getattr(an, "builder_enums", []), prune_inputs.PREAMBLE]
            for fi, fe in FLAGS]
    derive_cmds = [[Sym("derive"), snake, name, fields.get(name, [])] for name, _ in ins_cls]
    return cmds, ins_cls, en_cls, needs, derive_cmds


def check_derivation(run, sc, an, ins_cls, needs, derived, scalars_cfg):
    """K1: the model's derivation of (deps, enums, needs, scalar import candidates) from the fields of each input
    class vs the schema analysis and vs the names the class statement of the generated file refers to."""
    sc_items = prune_inputs.input_scalar_items(an.schema, scalars_cfg or {})
    for (name, _text), d in zip(ins_cls, derived):
        run.count()
        if model.is_error(d):
            run.broken("K1 derive", f"model returned {d!r} for {name}")
            return
        m_deps, m_enums, m_needs, m_items = d
        deps, enums = an.graph.get(name, ([], []))
        want = sorted(set(needs.get(name, [])))
        got = sorted(set(m_needs))
        if m_deps != deps or m_enums != enums or m_items != sc_items.get(name, []) or got != want:
            run.violation(f"K1: Model/Prune.v derive disagrees for input class {name}: deps {m_deps} vs {deps}; enums {m_enums} "
                          f"vs {enums}; scalar items {m_items} vs {sc_items.get(name, [])}; import needs {got} vs names "
                          f"used by the generated class {want}",
                          {"seed": sc.seed, "schema": sc.sdl, "class": name, "config": sc.config}, found_input=False)
            return


def drive(gens, rng_seed, n_plans):
    """Load the four packages of one scenario and call every operation with identical arguments/plans."""
    out = []
    for g in gens:
        if not g.ok:
            out.append({"load": None, "calls": None})
            continue
        ld = g.start()
        calls = []
        try:
            if ld.get("ok"):
                for op in g.operations():
                    if op.operation.value == "subscription":
                        continue
                    m = scen.method_name(op.name.value)
                    for pi in range(n_plans):
                        rng = random.Random(f"{rng_seed}/{op.name.value}/{pi}")
                        _vals, enc = g.encoded_args(op, rng, mode="rand")
                        r = g.call(method=m, args=enc, plan=PLANS[pi])
                        calls.append((op.name.value, pi, r))
        finally:
            g.stop()
        out.append({"load": ld, "calls": calls})
    return out


def behaviour(r):
    req = r.get("request") or {}
    return {"query": req.get("query"), "variables": req.get("variables"), "operationName": req.get("operationName"),
            "result": r.get("result"), "exc": r.get("exc")}


def check_scenario(run, sc, gens, driven, mres, ins_cls, en_cls, an, stream, needs):
    base = {"seed": sc.seed, "stream": stream, "schema": sc.sdl, "queries": sc.queries, "notes": sc.notes}
    un = gens[0]
    files0 = un.files()
    all_inputs = [n for n, _ in ins_cls]
    all_enums = [n for n, _ in en_cls]
    ref_calls = driven[0]["calls"]
    for idx, (fi, fe) in enumerate(FLAGS):
        g = gens[idx]
        tag = f"inputs={fl(fi)},enums={fl(fe)}"
        rep = dict(base, flags={"include_all_inputs": fi, "include_all_enums": fe}, config=g.res.get("config"))
        run.count()
        run.dist("flag_combination", tag)
        cls = "F25-custom-operations-import-pruned-types" if stream == "custom_ops" and not (fi and fe) else None

        def fail(what, extra=None, found=True, cls=cls):
            r2 = dict(rep, **(extra or {}))
            if cls:
                run.finding(cls, what, r2)
            else:
                run.violation(what, r2, found_input=found)

        if not g.ok:
            fail(f"generation fails with {tag} but succeeds unpruned: {g.res.get('exc')}", {"observed": g.res.get("exc")}, cls=None)
            continue
        files = g.files()
        got_in = prune_inputs.classes_of(files.get("input_types.py", ""))
        got_en = prune_inputs.classes_of(files.get("enums.py", ""))
        # ---- K1b: model prediction, names and text
        m = mres[idx]
        if model.is_error(m) or m == "none":
            run.broken("K1b model", f"model returned {m!r}")
            continue
        m_in = [(d[0], d[1]) for d in m[1][0]]
        m_en = [(d[0], d[1]) for d in m[1][1]]
        # imports of input_types.py: model prediction (exact) and the property-level cover check
        got_imp = sorted(set(prune_inputs.import_items(files.get("input_types.py", ""))))
        m_imp = sorted(set(m[1][3]))
        needed = sorted({x for n, _ in got_in for x in needs.get(n, [])})
        missing_imp = [x for x in needed if x not in got_imp]
        run.dist("autoflake_gives_up", "yes" if m[1][4] == "t" else "no")
        if needed and any(not x.startswith(("typing:", "pydantic:", ".base_model:BaseModel")) for x in needed) and not fi:
            run.nontrivial_case((sc.seed, stream, "imp", tag, tuple(needed)))
        k1_ok = (m_in == got_in and m_en == got_en and m_imp == got_imp)
        # ---- K3a: the closure the property names
        names_in = [n for n, _ in got_in]
        names_en = [n for n, _ in got_en]
        spec_in = set(all_inputs) if fi else (an.spec_inputs() & set(all_inputs))
        spec_en = set(all_enums) if fe else (an.spec_enums(names_in) & set(all_enums))
        problems = []
        if set(names_in) != spec_in:
            missing, extra = sorted(spec_in - set(names_in)), sorted(set(names_in) - spec_in)
            problems.append(f"input classes: missing {missing} extra {extra}")
        if set(names_en) != spec_en:
            missing, extra = sorted(spec_en - set(names_en)), sorted(set(names_en) - spec_en)
            problems.append(f"enum classes: missing {missing} extra {extra}")
        text0 = dict(ins_cls)
        text0e = dict(en_cls)
        for n, t in got_in:
            if text0.get(n) != t:
                problems.append(f"input class {n} differs textually from its unpruned counterpart")
        for n, t in got_en:
            if text0e.get(n) != t:
                problems.append(f"enum class {n} differs textually from its unpruned counterpart")
        if len(set(names_in)) != len(names_in) or len(set(names_en)) != len(names_en):
            problems.append("duplicate class")
        if missing_imp:
            problems.append(f"input_types.py lacks imports its retained classes refer to: {missing_imp}")
        if problems:
            only_missing = set(names_in) <= spec_in and set(names_en) <= spec_en and all("missing" in p for p in problems)
            fail(f"[{tag}] retained definitions are not the closure: " + "; ".join(problems[:4]),
                 {"observed": {"inputs": names_in, "enums": names_en},
                  "expected": {"inputs": sorted(spec_in), "enums": sorted(spec_en)}},
                 cls=cls if only_missing else None)
        elif not k1_ok:
            run.violation(f"[{tag}] K1b: Model/Prune.v predicts inputs {[n for n, _ in m_in]} enums {[n for n, _ in m_en]} "
                          f"imports {m_imp}, generator wrote inputs {names_in} enums {names_en} imports {got_imp} "
                          f"(closure and import-cover oracles still satisfied)",
                          dict(rep, model={"inputs": m_in, "enums": m_en, "imports": m_imp},
                               observed={"inputs": got_in, "enums": got_en, "imports": got_imp}),
                          found_input=False)
        if not fi and len(names_in) not in (0, len(all_inputs)):
            run.nontrivial_case((sc.seed, stream, "in", tuple(names_in)))
        if not fe and len(names_en) not in (0, len(all_enums)):
            run.nontrivial_case((sc.seed, stream, "en", tuple(names_en)))
        run.dist("retained_inputs_fraction" if not fi else "_", f"{len(names_in)}/{len(all_inputs)}" if not fi else "all")
        # ---- K3b: loads, models complete
        d = driven[idx]
        ld = d["load"] or {}
        if not ld.get("ok"):
            bad = {k: v for k, v in (ld.get("modules") or {}).items() if v != "ok"}
            fail(f"[{tag}] package does not import: {bad}", {"observed": bad})
            continue
        if ld.get("incomplete"):
            fail(f"[{tag}] pydantic models not fully built: {ld['incomplete'][:5]}", {"observed": ld["incomplete"]})
            continue
        # ---- K3c: same requests, same results as the unpruned package
        if idx == 0 or ref_calls is None:
            continue
        for (op, pi, r), (_op0, _pi0, r0) in zip(d["calls"], ref_calls):
            run.count()
            b, b0 = behaviour(r), behaviour(r0)
            if b != b0:
                diff = [k for k in b if b[k] != b0[k]]
                fail(f"[{tag}] operation {op} behaves differently from the unpruned package in {diff}",
                     {"operation": op, "plan": PLANS[pi], "observed": b, "expected": b0})
                break
    if stream == "prune":
        run.dist("graph_shape", sc.notes["shape"])
        for _e, ro in sc.notes["routes"].items():
            run.dist("enum_route", ro)
        run.dist("ops_with_variables", str(sc.notes["ops_with_variables"]))
        run.dist("import_carrying_input_fields", str(min(sc.notes.get("scalar_fields", 0), 6)))
        run.dist("scalars_configured", str(sc.notes.get("scalars_configured", 0)))
        run.dist("subscription_operations", str(sc.notes.get("subscriptions", 0)))
        run.dist("directive_argument_variables", str(sc.notes.get("directive_argument_variables", 0)))


def run_stream(ctx, scs, stream, extra_cfg=None, n_plans=2):
    run = ctx.run
    with workers.Scratch(prefix="vh-c09-") as scratch:
        reqs, owner = [], []
        for sc in scs:
            rs = requests_for(sc, scratch, extra_cfg)
            reqs += rs
            owner += [sc] * len(rs)
        res = workers.generate_many(reqs, jobs=14)
        groups = []
        for i, sc in enumerate(scs):
            gens = [scen.Generated(sc, reqs[4 * i + k], res[4 * i + k]) for k in range(4)]
            groups.append((sc, gens))
        usable = []
        for sc, gens in groups:
            if not gens[0].ok:
                run.dist("skipped", f"{stream}: unpruned generation failed ({(gens[0].res.get('exc') or ['?'])[0]})")
                continue
            usable.append((sc, gens))
        driven = scen.parallel(usable, lambda t: drive(t[1], t[0].seed, n_plans), jobs=4)
        cmds, meta = [], []
        for sc, gens in usable:
            an = prune_inputs.Analysis(sc.sdl, sc.queries)
            if stream == "custom_ops":
                # the builder modules' own imports are part of what is needed
                bi, be = prune_inputs.builder_imports(gens[0].files(), set(an.graph), set(an.enum_names))
                an.custom, an.builder_inputs, an.builder_enums = True, bi, be
                run.dist("custom_ops_builder_imports", f"inputs={len(bi)},enums={len(be)}")
            # the variables' types and the enums reachable from operations / fragments come from the MODEL
            # (Model/PruneDoc.v); the independent Python walk only cross-checks them (as sets, the order of the
            # accumulation is irrelevant to the filter)
            dm = model.call("C09", prune_inputs.docenums_cmd(an))
            run.count()
            if model.is_error(dm) or dm == "none":
                run.broken("K2 docenums", f"model returned {dm!r} for seed {sc.seed}")
                continue
            m_ai, m_ae, m_re, m_fe = dm[1]
            walk = (an.arg_inputs, an.arg_enums, an.res_enums, an.frag_enums)
            if [sorted(set(x)) for x in (m_ai, m_ae, m_re, m_fe)] != [sorted(set(x)) for x in walk] or m_ai != an.arg_inputs:
                run.violation(f"K2: Model/PruneDoc.v doc_analysis {dm[1]} differs from the independent graphql-core walk {walk}",
                              {"seed": sc.seed, "schema": sc.sdl, "queries": sc.queries}, found_input=False)
            an.arg_inputs, an.arg_enums, an.res_enums, an.frag_enums = m_ai, m_ae, m_re, m_fe
            cfg0 = gens[0].res.get("config", {})
            c, ins_cls, en_cls, needs, dc = model_cmds(an, gens[0].files(), cfg0.get("scalars"),
                                                       cfg0.get("convert_to_snake_case", True))
            cmds += c
            derived = model.batch("C09", dc) if dc else []
            check_derivation(run, sc, an, ins_cls, needs, derived, cfg0.get("scalars"))
            meta.append((an, ins_cls, en_cls, needs))
        mres = model.batch("C09", cmds)
        for i, ((sc, gens), drv, (an, ins_cls, en_cls, needs)) in enumerate(zip(usable, driven, meta)):
            check_scenario(run, sc, gens, drv, mres[4 * i: 4 * i + 4], ins_cls, en_cls, an, stream, needs)
            if len(run.samples) < 6 and stream == "prune":
                files = gens[3].files()
                run.sample({"stream": stream, "seed": sc.seed, "shape": sc.notes.get("shape"),
                            "variables_inputs": an.arg_inputs,
                            "pruned_inputs": [n for n, _ in prune_inputs.classes_of(files.get("input_types.py", ""))],
                            "all_inputs": [n for n, _ in ins_cls],
                            "pruned_enums": [n for n, _ in prune_inputs.classes_of(files.get("enums.py", ""))],
                            "all_enums": [n for n, _ in en_cls]})
    return len(usable)


def run(ctx):
    run = ctx.run
    run.rule = ("K1a: seeded input dependency graphs (8 shapes, shuffled definition order, duplicate edges) x root "
                "lists, model vs InputTypesGenerator in-process. K1b/K3: seeded scenarios (dedicated prune stream: "
                "8 graph shapes x 10 enum routes; plus the shared main stream) x the 4 flag combinations through the "
                "real generator; every operation x response plans on all four packages. non-trivial = scenario/flag "
                "combination whose retained set is a proper non-empty subset")
    run.assumptions += [
        "graphql-core 3.2.12 (schema building, TypeInfo-free selection walk, execution) is the reference",
        "class definitions are compared as exact source text of top-level ClassDef nodes (ast.get_source_segment)",
        "the enum lists of results/fragments fed to the model are computed by an independent selection walk; "
        "which selections end up in which generated class is C01/C08's business",
    ]
    preamble_from_source(run)
    k1a(ctx)
    base = ctx.seed * 100000
    n_prune = 260 if ctx.thorough else 44
    n_main = 60 if ctx.thorough else 10
    n_custom = 24 if ctx.thorough else 8
    scs = []
    for i in range(n_prune):
        try:
            scs.append(prune_scen.make(base + i))
        except RuntimeError:
            run.dist("skipped", "prune generator gave up")
    scs.insert(0, prune_scen.deep_scalar_regression())
    scs.insert(1, prune_scen.last_operation_enum_regression())
    scs.insert(2, prune_scen.subscription_input_regression())
    scs.insert(3, prune_scen.coq_doc_example())
    n1 = run_stream(ctx, scs, "prune", n_plans=3 if ctx.thorough else 2)
    mains = []
    for i in range(n_main):
        try:
            mains.append(scenario.make(base + 50000 + i, (), depth=3))
        except RuntimeError:
            run.dist("skipped", "main generator gave up")
    n2 = run_stream(ctx, mains, "main", n_plans=2)
    cust = []
    for i in range(n_custom):
        try:
            cust.append(prune_scen.make(base + 70000 + i))
        except RuntimeError:
            pass
    # regression case of the former finding F25 (fixed in /repo c0f9ed8); runs first in its stream
    cust.insert(0, scenario.Scenario(
        seed=-25, features=("prune",),
        sdl="enum Color { RED GREEN }\ninput InA { x: Int }\ntype Obj { id: ID! }\n"
            "type Query { obj(a: InA, c: Color): Obj plain: Int }\n",
        queries="query Plain { plain }\n", config={},
        notes={"shape": "f25-regression", "routes": {}, "ops_with_variables": 0, "n_inputs": 1}))
    # Relay-style: a concrete type reachable only through its interface, arguments on the interface field
    cust.insert(1, scenario.Scenario(
        seed=-26, features=("prune",),
        sdl="enum SortOrder { ASC DESC }\ninput ChildFilter { name: String }\n"
            "interface Node { id: ID! children(filter: ChildFilter, order: SortOrder): [Node!] }\n"
            "type Folder implements Node { id: ID! children(filter: ChildFilter, order: SortOrder): [Node!] size: Int }\n"
            "type Query { node: Node plain: Int }\n",
        queries="query Plain { plain }\n", config={},
        notes={"shape": "relay-interface-args-regression", "routes": {}, "ops_with_variables": 0, "n_inputs": 1}))
    cust.insert(2, prune_scen.subscription_input_regression())
    n3 = run_stream(ctx, cust, "custom_ops", extra_cfg={"enable_custom_operations": True}, n_plans=1)
    run.extra["scenarios"] = {"prune": n1, "main": n2, "custom_ops": n3}
    run.exhaustive = False
    run.extra["flag_combinations_exhaustive"] = True
