"""C10 stress scenarios: inputs built to make unordered collections matter.

  many fragments on one object type spreading each other (mixins: a DAG whose names are unrelated to the
  dependency order, so the DFS of the fragments module meets sets of 2+ dependencies), fragments that are
  unpacked (on interfaces with inline fragments, on unions, spread at a super-type position), unions with many
  members only partly covered by inline fragments (the `types_without_class` set difference of the
  __typename literal), several enums, custom scalars, inputs; optional feature `casefold`: fragment names
  that differ only in letter case, spread in one selection set (isort's case-insensitive key ties).

Also: splitting a schema / an operations document into a directory tree of files with awkward names.
"""
from __future__ import annotations

import random

from graphql import build_schema, parse, print_ast, specified_rules, validate

from ..gen.scenario import Scenario

ENUM_VALS = ["RED", "GREEN", "BLUE", "ACTIVE", "INACTIVE", "lowercase", "MixedCase", "A1", "X_Y", "OTHER"]
SCALAR_FIELDS = [("count", "Int"), ("title", "String"), ("score", "Float"), ("isActive", "Boolean!"),
                 ("shortName", "String!"), ("URLValue", "String"), ("createdAt", "DateTime"),
                 ("blob", "JSONBlob"), ("ratio", "Float!"), ("tags", "[String!]"), ("ownerId", "ID")]
NAME_PARTS = ["Alpha", "beta", "Gamma", "delta", "Zeta", "omega", "Core", "base", "Main", "extra", "Item", "info",
              "Meta", "short", "Full", "mini"]


class Stress:
    def __init__(self, seed: int, features=(), n_frag: int = 7, n_obj: int = 6):
        self.r = random.Random(seed)
        self.features = tuple(features)
        self.n_frag, self.n_obj = n_frag, n_obj

    def schema(self) -> str:
        r = self.r
        out = ["scalar DateTime", "scalar JSONBlob"]
        self.enums = {}
        for i in range(r.randint(2, 4)):
            self.enums[f"Enum{chr(65 + i)}"] = r.sample(ENUM_VALS, r.randint(2, 5))
        for n, vs in self.enums.items():
            out.append(f"enum {n} {{ " + " ".join(vs) + " }")
        out.append("interface Node { id: ID! }")
        out.append("interface Named { name: String }")
        self.objs = {}
        names = [f"T{i}" for i in range(self.n_obj)]
        for n in names:
            fields = {"id": "ID!"}
            impl = ["Node"]
            if r.random() < 0.6 or n == "T0":
                impl.append("Named")
                fields["name"] = "String"
            k = r.randint(4, 7) if n != "T0" else len(SCALAR_FIELDS)
            for fn, ft in r.sample(SCALAR_FIELDS, k):
                fields[fn] = ft
            fields["kind"] = r.choice(list(self.enums))
            fields["link"] = r.choice(names)
            fields["many"] = f"[{r.choice(names)}!]"
            self.objs[n] = (impl, fields)
        for n, (impl, fields) in self.objs.items():
            out.append(f"type {n} implements {' & '.join(impl)} {{ " + " ".join(f"{k}: {v}" for k, v in fields.items()) + " }")
        self.union_members = names[:]
        r.shuffle(self.union_members)
        out.append("union AnyT = " + " | ".join(self.union_members))
        small = r.sample(names, min(3, len(names)))
        out.append("union FewT = " + " | ".join(small))
        self.small_union = small
        out.append("input FilterIn { kind: " + list(self.enums)[0] + " since: DateTime text: String = \"x\" nested: FilterIn }")
        q = ["node(id: ID!): Node", "named: [Named!]!", "anyT(filter: FilterIn): AnyT", "allT: [AnyT!]!", "fewT: FewT"]
        for n in names:
            q.append(f"{n.lower()}(id: ID, kinds: [{list(self.enums)[-1]}!]): {n}")
        out.append("type Query { " + " ".join(q) + " }")
        out.append("type Mutation { touch(id: ID!, at: DateTime, filter: FilterIn!): T0 }")
        return "\n\n".join(out) + "\n"

    def frag_name(self, used: set) -> str:
        r = self.r
        for _ in range(100):
            n = r.choice(NAME_PARTS) + r.choice(["", "Part", "Bits", "_x", "Data"]) + r.choice(["", "1", "2"])
            n = n[0].upper() + n[1:] if r.random() < 0.7 else n
            if n.lower() not in {u.lower() for u in used}:
                used.add(n)
                return n
        n = f"Frag{len(used)}"
        used.add(n)
        return n

    def operations(self) -> str:
        r = self.r
        used: set = set()
        frs = {}  # name -> (type, selection text)
        # --- the mixin DAG on T0 (all its scalar fields exist)
        t0_fields = [k for k, v in self.objs["T0"][1].items() if k not in ("link", "many")]
        dag = [self.frag_name(used) for _ in range(self.n_frag)]
        casefold_pairs = []
        if "casefold" in self.features:
            # 2-4 names that differ only in letter case, none of them all-upper (isort would class it apart);
            # standalone leaf fragments spread together by one operation: nothing inherits them, so all of
            # them stay bases of the operation's class and names of its `from .fragments import`
            base = r.choice(NAME_PARTS).capitalize() + r.choice(["Data", "Part", "Bits"]) + r.choice(["", "1", "2"])
            variants = [base]
            for _ in range(20):
                v = "".join(c.upper() if (c.isalpha() and r.random() < 0.5) else c.lower() for c in base)
                v = v[0].upper() + v[1:]
                if v not in variants and any(c.islower() for c in v) and v.lower() not in {u.lower() for u in used}:
                    variants.append(v)
                if len(variants) >= r.randint(2, 4):
                    break
            for v in variants:
                used.add(v)
            casefold_pairs = variants
        for i, n in enumerate(dag):
            fields = r.sample(t0_fields, r.randint(1, 3))
            later = dag[i + 1:]
            spreads = r.sample(later, min(len(later), r.choice([0, 1, 2, 2, 3]))) if later else []
            parts = fields + ["..." + s for s in spreads]
            r.shuffle(parts)
            frs[n] = ("T0", "{ " + " ".join(parts) + " }")
        for v in casefold_pairs:
            frs[v] = ("T0", "{ " + " ".join(r.sample(t0_fields, r.randint(1, 2))) + " }")
        # --- a mixin chain on another type
        other = r.choice([n for n in self.objs if n != "T0"])
        of = [k for k, v in self.objs[other][1].items() if k not in ("link", "many")]
        c1, c2 = self.frag_name(used), self.frag_name(used)
        frs[c1] = (other, "{ " + " ".join(r.sample(of, 2)) + " ..." + c2 + " }")
        frs[c2] = (other, "{ " + " ".join(r.sample(of, 2)) + " }")
        # --- unpacked fragments
        nf = self.frag_name(used)
        cover = r.sample(list(self.objs), r.randint(1, 3))
        frs[nf] = ("Node", "{ id " + " ".join(
            f"... on {t} {{ {r.choice([k for k in self.objs[t][1] if k not in ('link', 'many', 'id')])} }}" for t in cover) + " }")
        uf = self.frag_name(used)
        ucover = r.sample(self.union_members, r.randint(1, max(1, len(self.union_members) - 2)))
        frs[uf] = ("AnyT", "{ __typename " + " ".join(
            f"... on {t} {{ id {r.choice([k for k in self.objs[t][1] if k not in ('link', 'many', 'id')])} }}" for t in ucover) + " }")
        namedf = self.frag_name(used)
        frs[namedf] = ("Named", "{ name }")
        # --- operations
        ops = []
        top = r.sample(dag, min(len(dag), r.randint(2, 4)))
        if casefold_pairs:
            top = list(dict.fromkeys(casefold_pairs + top))
        ops.append("query GetRoot($id: ID, $kinds: [" + list(self.enums)[-1] + "!]) { t0(id: $id, kinds: $kinds) { id " +
                   " ".join("..." + t for t in top) + " } }")
        sub = r.sample(dag, min(len(dag), 2))
        ops.append("query listLinked { t0 { id link { id } } " + other.lower() + " { ..." + c1 + " } other: t0 { " +
                   " ".join("..." + t for t in sub) + " } }")
        part = r.sample(self.union_members, r.randint(1, max(1, len(self.union_members) // 2)))
        ops.append("query Unions($f: FilterIn) { anyT(filter: $f) { __typename " + " ".join(
            f"... on {t} {{ id kind }}" for t in part) + " } allT { ..." + uf + " } fewT { __typename ... on " +
            self.small_union[0] + " { id createdAt: id } } }")
        ops.append("query Nodes($id: ID!) { node(id: $id) { __typename ..." + nf + " ... on T0 { ..." + r.choice(dag) +
                   " } } named { __typename ..." + namedf + " ... on T0 { blob createdAt } } }")
        ops.append("mutation Touch($id: ID!, $at: DateTime, $filter: FilterIn!) { touch(id: $id, at: $at, filter: $filter) { ..." +
                   r.choice(dag) + " kind } }")
        defs = ops + [f"fragment {n} on {t} {s}" for n, (t, s) in frs.items()]
        head, tail = defs[:len(ops)], defs[len(ops):]
        r.shuffle(tail)
        return "\n\n".join(head + tail) + "\n"


SCALARS_PY = ("from datetime import datetime\n"
              "def parse_dt(v):\n    return datetime.fromisoformat(v)\n"
              "def ser_dt(v):\n    return v.isoformat()\n")


def make(seed: int, features=(), tries: int = 30) -> Scenario:
    for k in range(tries):
        g = Stress(seed * 977 + k, features)
        sdl = g.schema()
        try:
            gs = build_schema(sdl)
            q = g.operations()
            doc = parse(q)
            if validate(gs, doc, specified_rules[:]):
                # unused fragments are allowed by the generator (NoUnusedFragments is skipped there)
                errs = [e for e in validate(gs, doc, specified_rules) if "is never used" not in e.message]
                if errs:
                    continue
        except Exception:
            continue
        r = g.r
        cfg = {"convert_to_snake_case": r.random() < 0.7, "async_client": r.random() < 0.5}
        files = {}
        if r.random() < 0.7:
            files = {"scalars_impl.py": SCALARS_PY}
            cfg["scalars"] = {"DateTime": {"type": "datetime.datetime", "parse": "scalars_impl.parse_dt",
                                           "serialize": "scalars_impl.ser_dt"},
                              "JSONBlob": {"type": "typing.Any"}}
        return Scenario(seed=seed, sdl=sdl, queries=q, config=cfg, features=tuple(features) + ("stress",),
                        files=files, notes={"subseed": k})
    raise RuntimeError(f"no valid stress scenario for seed {seed}")


# ---------------------------------------------------------------------------------------------- splitting
AWKWARD = ["a.graphql", "B.graphql", "a-b.gql", "a/b.graphql", "a/z.graphqls", "_x.graphql", "Z/a.graphql",
           "a b.graphql", "10.graphql", "9.graphql", "sub/deep/er.gql", "a.b.graphql", "b/.hidden.graphql",
           "sub.graphql", "sub-x/y.graphql"]


def split_document(text: str, rng: random.Random, n_files: int | None = None) -> dict:
    """Distribute the definitions of a document over files with awkward names (+ files the loader must skip)."""
    doc = parse(text)
    defs = [print_ast(d) for d in doc.definitions]
    n = n_files or rng.randint(2, min(6, max(2, len(defs))))
    names = rng.sample(AWKWARD, n)
    buckets = {nm: [] for nm in names}
    for d in defs:
        buckets[rng.choice(names)].append(d)
    out = {nm: "\n\n".join(ds) + "\n" for nm, ds in buckets.items() if ds}
    out["notes.txt"] = "not graphql\n"
    out["sub/readme.md"] = "# ignored\n"
    return out


def shuffled(d: dict, rng: random.Random) -> dict:
    ks = list(d)
    rng.shuffle(ks)
    return {k: d[k] for k in ks}


def many_files(text: str, rng: random.Random, kind: str, at_least: int = 24, big: bool = True) -> dict:
    """One definition per file (nested directories, awkward names), padded with unused definitions to at least
    `at_least` files, plus one file that takes noticeably longer to read and parse: a project laid out the way
    large schemas are, beyond any threshold at which a loader might start reading files concurrently."""
    defs = [print_ast(d) for d in parse(text).definitions]
    out = {}
    dirs = ["", "a/", "b/", "a/deep/", "Z/", "_x/"]
    for i, d in enumerate(defs):
        out[f"{rng.choice(dirs)}{i:02d}_{rng.choice(['def', 'Part', 'x-y', 'item'])}.{rng.choice(['graphql', 'gql', 'graphqls'])}"] = d + "\n"
    i = len(defs)
    while len(out) < at_least:
        if kind == "schema":
            out[f"{rng.choice(dirs)}{i:02d}_filler.graphql"] = f"enum FillerEnum{i} {{ A{i} B{i} }}\n"
        else:
            out[f"{rng.choice(dirs)}{i:02d}_filler.graphql"] = f"fragment FillerFrag{i} on Query {{ __typename }}\n"
        i += 1
    if big:
        if kind == "schema":
            out["a/99_big.graphql"] = "\n".join(
                f'"""{"long description " * 40}"""\nenum BigEnum{k} {{ ' + " ".join(f"V{k}_{j}" for j in range(8)) + " }" for k in range(6)) + "\n"
        else:
            out["a/99_big.graphql"] = "\n".join(
                f"fragment BigFrag{k} on Query {{ " + " ".join(f"a{j}: __typename" for j in range(20)) + " }" for k in range(6)) + "\n"
    out["notes.txt"] = "not graphql\n"
    return out
