"""C02 — The document sent is the document written.

K1a  Model/Multiline.v (extracted) vs ast.unparse + utils.format_multiline_strings + CPython evaluation, on
     random line lists (both statement shapes: client method, ExtractOperations constant).
K1b  Model/OpStr.v (extracted) vs the document every generated method really sends (captured at the transport,
     parsed): exact AST equality, i.e. the automatic __typename insertions, the @mixin removal and the related
     fragments are predicted position by position.
K2   the spec side: reachable fragments (`closure` = frag_names) vs an independent Python closure.
K3   the property oracle on every captured request of every generated method (decorated scenario streams with
     string literals, block strings, directives with arguments, variable defaults, @mixin; with and without the
     ExtractOperations plugin): parses, validates against the user's schema with the full rule set, operationName,
     exactly the reachable fragments, AST equal to the authored one after undoing the two documented rewrites.
Search: on a failing literal, minimise it character by character (parallel generations); replay = operation text +
     captured text.
"""
from __future__ import annotations

import ast
import json
import random
import warnings

from graphql import FragmentDefinitionNode, build_schema, parse, print_ast

from .. import model
from ..canon import docenc, encode
from ..gen import scenario
from ..impl import scen, workers
from ..sexp import Sym
from . import c02_gen as G

FUEL = 400
EXTRACT = "ariadne_codegen.contrib.extract_operations.ExtractOperationsPlugin"
TEXT_CLASSES = ("C02-literal-single-quote", "C02-literal-backslash-n", "C02-block-string", "C02-literal-line-separator")


# ====================================================================================== K1a text path
def real_embed(lines, variant):
    from ariadne_codegen import utils
    from ariadne_codegen.codegen import generate_assign, generate_call, generate_constant, generate_name

    if variant == "client":
        node = generate_assign(targets=["query"], value=generate_call(
            func=generate_name("gql"), args=[[generate_constant(l + "\n") for l in lines]]))
        src = " " * 8 + ast.unparse(node)
        off = 4
    else:
        node = generate_assign(targets=["OP_GQL"], value=[generate_constant(l + "\n") for l in lines])
        src = ast.unparse(node)
        off = 0
    out = utils.format_multiline_strings(src, offset=off)
    try:
        code = compile(out.strip() if variant == "client" else out, "<c02>", "exec")
        env = {"gql": lambda q: q}
        exec(code, env)  # noqa: S102 (text built here from string constants only)
        val = ("ok", env["query" if variant == "client" else "OP_GQL"])
    except SyntaxError:
        val = ("syntax",)
    except Exception as exc:  # noqa
        val = ("exc", type(exc).__name__)
    return src, out, val


# the line lists of the Examples / former refutation witnesses of Properties/C02.v: replayed first, on the real code
CORPUS_LINES = [
    ["query A {", '  echo(s: "it\'s")', "}"],                       # C02_regression_quote
    ["query A {", '  echo(s: "a\\nb")', "}"],                      # C02_regression_escape
    ["query A {", '  echo(s: """b""")', "}"],                        # C02_regression_block
    ["query A {", '  echo(s: """', "  a", "     ", "  b", '  """)', "}"],   # C02_regression_blank_line_of_block_string
    ["", "\"'=", "", ""],                                            # C02_two_matches_still_round_trip
    ["query A($v: Int = 3) {", '  echo(s: "a \\n # b = c\\\\ """)', "", "}"],   # C02_embed_hypotheses_satisfiable
    ["single line"],                                                  # no rewrite at all
]


def source_constants(run):
    """model data that is literal in Model/*.v, re-derived from /repo's source on every run (fail closed)"""
    import inspect
    import re as _re

    from ariadne_codegen import utils
    from ariadne_codegen.client_generators import client as cg
    from ariadne_codegen.client_generators import constants as K
    from ariadne_codegen.contrib import extract_operations as xo

    want = {
        "MIXIN_NAME": ("mixin", K.MIXIN_NAME), "TYPENAME_FIELD_NAME": ("__typename", K.TYPENAME_FIELD_NAME),
        "SKIP_DIRECTIVE_NAME": ("skip", K.SKIP_DIRECTIVE_NAME), "INCLUDE_DIRECTIVE_NAME": ("include", K.INCLUDE_DIRECTIVE_NAME),
    }
    for k, (model_value, repo_value) in want.items():
        if model_value != repo_value:
            run.broken("source constants", f"{k}: model {model_value!r}, /repo {repo_value!r}")
    src = inspect.getsource(utils.format_multiline_strings)
    m = _re.search(r're\.finditer\(r"([^"]*)"', src)
    if not m or m.group(1) != ".*?=.*?('.*?'\\s*){2,}":
        run.broken("source constants", f"format_multiline_strings regex is {m.group(1) if m else None!r}: Model/Multiline.v find_match models "
                                       ".*?=.*?('.*?'\\s*){2,}")
    m = _re.search(r're\.search\(("[^\n]*"), line\)', src)
    if not m or eval(m.group(1)) != "['\"].*['\"]":  # noqa: S307 (a string literal of /repo's source)
        run.broken("source constants", f"span regex is {m.group(1) if m else None}: Model/Multiline.v quoted_span models ['\"].*['\"]")
    sig = inspect.signature(utils.ast_to_str).parameters["multiline_strings_offset"].default
    if sig != 4:
        run.broken("source constants", f"multiline_strings_offset default {sig}, model 4")
    if "offset=0" not in inspect.getsource(xo.ExtractOperationsPlugin._module_to_str):
        run.broken("source constants", "ExtractOperations no longer formats with offset=0")
    g = cg.ClientGenerator.__init__
    srcg = inspect.getsource(g)
    for needle in ('self._operation_str_variable = "query"', 'self._gql_func_name = "gql"'):
        if needle not in srcg:
            run.broken("source constants", f"client generator: {needle!r} not found (model prefix is 8 blanks + 'query = gql(')")
    # the locations at which @mixin is accepted must be exactly the ones the stripper handles (the validity
    # hypothesis mixin_located of C02_rewrites: FIELD and FRAGMENT_DEFINITION)
    from graphql import build_schema as _bs

    from ariadne_codegen.client_generators import result_types as rt
    from ariadne_codegen.schema import add_mixin_directive_to_schema

    sch = add_mixin_directive_to_schema(_bs("type Query { a: Int }"))
    registered = sorted(loc.name for d in sch.directives if d.name == "mixin" for loc in d.locations)
    handled = sorted(x.upper() for x in _re.findall(r"def enter_(\w+)\(", inspect.getsource(
        rt.ResultTypesGenerator._get_node_without_mixin_directive)))
    run.extra["mixin_locations"] = {"registered": registered, "stripped": handled}
    if registered != handled or handled != ["FIELD", "FRAGMENT_DEFINITION"]:
        run.broken("source constants", f"@mixin is accepted at {registered} but RemoveMixinVisitor strips it at {handled} "
                                       "(Model/OpStr.v strip_*: FIELD, FRAGMENT_DEFINITION)")
    run.dist("source_constants", "checked", 10)


def k1_multiline(ctx):
    run = ctx.run
    source_constants(run)
    n = 60000 if ctx.thorough else 9000
    rng = random.Random(ctx.seed * 7919 + 11)
    cases = [(ls, v, False) for ls in CORPUS_LINES for v in ("client", "ops")]
    for i in range(n):
        safe = i % 3 == 0
        lines = G.rand_lines(rng, safe)
        cases.append((lines, rng.choice(["client", "ops"]), safe))
    cmds = []
    for lines, v, _s in cases:
        if v == "client":
            cmds.append([Sym("embed"), " " * 8 + "query = gql(", ")", True, 4, lines])
        else:
            cmds.append([Sym("embed"), "OP_GQL = ", "", False, 0, lines])
    res = model.batch("C02", cmds)
    bad = 0
    with warnings.catch_warnings():
        warnings.simplefilter("ignore")
        for (lines, v, safe), r in zip(cases, res):
            run.count()
            src, out, val = real_embed(lines, v)
            m_src, m_out, m_ev, m_matches = r
            suf = ")" if v == "client" else ""
            k = 12 if v == "client" else 0
            # ---- the property itself on the real code: the evaluated text is the lines, each possibly indented
            if not text_roundtrip_ok(val, lines, k):
                run.violation(f"the embedded operation text does not evaluate back to the lines {lines!r} ({v})",
                              {"lines": lines, "variant": v, "source": src, "formatted": out, "value": val})
            if m_out == "unsupported":
                run.dist("k1_text", "outside-model")
                continue
            problems = []
            if m_src != src:
                problems.append("unparse/repr")
            if m_out != out:
                problems.append("format_multiline_strings")
            kind = m_ev[0]
            if kind == "ok" and m_ev[2] == suf:
                kind = "clean"
                if val != ("ok", m_ev[1]):
                    problems.append("evaluation")
            elif kind == "ok":
                kind = "dirty-tail"
                if val[0] == "ok" and isinstance(val[1], str) and not val[1].startswith(m_ev[1]):
                    problems.append("evaluation(prefix)")
            elif kind == "syntax" and val[0] == "ok":
                problems.append("model says syntax error, Python evaluates")
            run.dist("k1_text", kind)
            run.dist("k1_text_matches", {"0": "no-match", "1": "one-match"}.get(m_matches, "several-matches"))
            if kind != "clean":
                problems.append(f"model does not predict a clean statement ({kind})")
            # C02_embed_roundtrip on the model's own output: rewritten iff the regex matches, whatever the count
            if kind == "clean" and not text_roundtrip_ok(("ok", m_ev[1]), lines, k):
                problems.append("model value is not the text (contradicts C02_embed_roundtrip)")
            if problems:
                bad += 1
                if bad <= 5:
                    run.violation(f"K1 text path: model and implementation disagree at {', '.join(problems)} for "
                                  f"lines {lines!r} ({v}); the property "
                                  + ("fails" if not text_roundtrip_ok(val, lines, k) else "holds") + " on this input",
                                  {"lines": lines, "variant": v, "impl": {"source": src, "formatted": out, "value": val},
                                   "model": {"source": m_src, "formatted": m_out, "eval": m_ev}},
                                  found_input=not text_roundtrip_ok(val, lines, k))
            if not all(G.is_safe_line(l) for l in lines):
                run.nontrivial_case(("text", tuple(lines), v))
    run.extra["k1_text_cases"] = n
    run.extra["k1_text_disagreements"] = bad


def text_roundtrip_ok(val, lines, k):
    """C02 on the text path: the literal evaluates to the operation text up to a leading newline and an
    indentation of k blanks in front of lines (and after the last one)"""
    if val[0] != "ok" or not isinstance(val[1], str):
        return False
    text = val[1]
    if text == "".join(l + "\n" for l in lines):
        return True
    parts = text.split("\n")
    if len(parts) != len(lines) + 2 or parts[0] != "" or parts[-1] != " " * k:
        return False
    return all(p == l or p == " " * k + l for p, l in zip(parts[1:-1], lines))


# ====================================================================================== K2 closure
def k2_closure(ctx):
    run = ctx.run
    rng = random.Random(ctx.seed + 5)
    cmds, wants = [], []
    for _ in range(400 if not ctx.thorough else 3000):
        n = rng.randint(1, 7)
        names = [f"F{i}" for i in range(n)]
        order = names[:]
        rng.shuffle(order)
        rank = {x: i for i, x in enumerate(order)}
        frs, edges = [], {}
        for x in names:
            lower = [y for y in names if rank[y] < rank[x]]
            es = rng.sample(lower, rng.randint(0, min(3, len(lower)))) if lower else []
            if rng.random() < 0.1:
                es.append("Missing")
            edges[x] = es
            sels = []
            for e in es:
                s = [Sym("s"), e, []]
                if rng.random() < 0.5:
                    s = [Sym("f"), 0, None, "w", [], [], [Sym("some"), [s]]]
                if rng.random() < 0.3:
                    s = [Sym("i"), None, [], [s]]
                sels.append(s)
            frs.append([Sym("frag"), x, "T", [], sels])
        rng.shuffle(frs)
        start = rng.sample(names, rng.randint(0, min(3, n)))
        cmds.append([Sym("closure"), n + 2, frs, start])
        seen, todo, missing = set(), list(start), False
        while todo:
            x = todo.pop()
            if x == "Missing":
                missing = True
                continue
            if x in seen:
                continue
            seen.add(x)
            todo.extend(edges[x])
        wants.append(None if missing else sorted(seen))
    res = model.batch("C02", cmds)
    for c, r, w in zip(cmds, res, wants):
        run.count()
        got = None if r == "none" else r[1]
        if got != w:
            run.broken("K2 closure", f"frag_names {got} vs independent closure {w} on {c!r}"[:1500])
    run.dist("k2", "closure-cases", len(cmds))


def k2_lexer(ctx):
    """Gql/Lex.v (the specification lexer of C02_tokens_preserved) vs graphql-core's Lexer on printed operations"""
    from graphql import Lexer, Source, TokenKind

    run = ctx.run
    texts = []
    base = ctx.seed * 100000 + 2000
    for i in range(40 if ctx.thorough else 8):
        s = make_base(base + 1000 + i)
        if s:
            d = G.decorate(s, base + i, adversarial=True, mixin_field=True, blocks=True) or s
            texts.append(d.queries)
    for i in range(20 if ctx.thorough else 6):
        x = G.structured(base + 7000 + i)
        if x:
            texts.append(x.queries + "# a comment, with (punctuation) \"and quotes\"\n")
    # Gql/Block.v block_value vs graphql-core's dedent on random raw contents (LF only, blanks/tabs, blank lines at both ends)
    from graphql.language.block_string import dedent_block_string_lines

    rng = random.Random(ctx.seed * 31 + 9)
    raws = []
    for _ in range(1500 if ctx.thorough else 300):
        ls = []
        for _i in range(rng.randint(1, 6)):
            ls.append(rng.choice(["", " ", "  ", "\t", "   "]) * rng.randint(0, 2) + rng.choice(["", "", "a", "b c", "x  ", '"q"', "\\"]))
        raws.append("\n".join(ls))
    rb = model.batch("C02", [[Sym("blockvalue"), r] for r in raws])
    for r, got in zip(raws, rb):
        run.count()
        want = list(dedent_block_string_lines(r.split("\n")))
        if list(got) != want:
            run.broken("K2 block value", f"Gql/Block.v block_value {got!r} vs graphql-core {want!r} for raw {r!r}")
    run.dist("k2", "block-values", len(raws))
    block_raws = []
    cmds = [[Sym("tokens"), t] for t in texts]
    res = model.batch("C02", cmds)
    for t, r in zip(texts, res):
        run.count()
        want = []
        lx = Lexer(Source(t))
        while True:
            tk = lx.advance()
            if tk.kind == TokenKind.EOF:
                break
            raw = t[tk.start:tk.end]
            if tk.kind == TokenKind.SPREAD:
                want.append(["spread"])
            elif tk.kind == TokenKind.BLOCK_STRING:
                want.append(["b", raw[3:-3]])
                block_raws.append((raw[3:-3], tk.value))
            elif tk.kind == TokenKind.STRING:
                want.append(["s", raw[1:-1]])
            elif tk.kind in (TokenKind.NAME, TokenKind.INT, TokenKind.FLOAT):
                want.append(["w", raw])
            else:
                want.append(["p", raw])
        got = None if r == "none" else r[1]
        if got != want:
            i = next((k for k, (a, b) in enumerate(zip(got or [], want)) if a != b), min(len(got or []), len(want)))
            run.broken("K2 lexer", f"Gql/Lex.v and graphql-core disagree at token {i}: {(got or [None])[i:i+2]} vs {want[i:i+2]} "
                                   f"in {t[:200]!r}")
        run.dist("k2", "lexer-documents")
        run.dist("k2_tokens", "compared", len(want))
    # the value graphql-core gives each block string token of those documents
    bv = model.batch("C02", [[Sym("blockvalue"), r] for r, _v in block_raws]) if block_raws else []
    for (r, v), got in zip(block_raws, bv):
        run.count()
        if "\r" in r:
            continue
        if "\n".join(got).replace('\\"""', '"""') != v:
            run.broken("K2 block value", f"block string {r!r}: Gql/Block.v {got!r}, graphql-core value {v!r}")
    run.dist("k2", "block-string-tokens", len(block_raws))


# ====================================================================================== K1b + K3 documents
def base_rep(g):
    return {"seed": g.sc.seed, "features": list(g.sc.features), "schema": g.sc.sdl, "queries": g.sc.queries,
            "config": g.res.get("config", g.sc.config)}


def model_docs(gens):
    cmds, cmds2 = [], []
    for g in gens:
        frs, ops = docenc.document(g.doc)
        snake = g.sc.config.get("convert_to_snake_case", True)
        es = encode.schema(g.schema)
        cmds.append([Sym("docs"), FUEL, snake, es, frs, ops])
        cmds2.append([Sym("sets"), FUEL, snake, es, frs, ops])
    return model.batch("C02", cmds, chunk=20), model.batch("C02", cmds2, chunk=20)


OPEN_TEXT_CLASS = None   # every class found so far is fixed in /repo (known_findings/C02.json "fixed")


def classify(g, op, problems, covered):
    """finding class of a failing operation, or None (= violation)"""
    return None


def positional_args(g, op, minfo, rng):
    """argument values for the i-th operation variable under the name of the i-th method parameter (whatever the
    generator renamed it to)"""
    from ..gen import args as argsgen

    from graphql import NonNullTypeNode

    ag = argsgen.ArgGen(g.sc.notes.get("schema") or g.schema, rng, g.res.get("config", {}).get("scalars"))
    vals = ag.for_operation(op, "rand")
    params = [p for p in minfo["params"] if "VAR_" not in p[3]]
    # the generator lists the parameters of non-null variables first, then the nullable ones, each in variable order
    vdefs = list(op.variable_definitions or ())
    order = [v.variable.name.value for v in vdefs if isinstance(v.type, NonNullTypeNode)] + \
            [v.variable.name.value for v in vdefs if not isinstance(v.type, NonNullTypeNode)]
    enc = {}
    for var, p in zip(order, params):
        jv, e = vals[var]
        if jv is argsgen.OMIT:
            continue
        enc[p[0]] = e
    return enc


def drive(run, g, mdocs, msets, stream, extract=False):
    """K1b + K3 for one generated scenario; returns number of methods checked"""
    rep = base_rep(g)
    schema = g.sc.notes.get("schema") or g.schema
    n = 0
    ld = g.start()
    try:
        if not ld.get("ok"):
            # no method can hand anything to the transport: the property fails for every operation of the package
            bad = {k: v for k, v in (ld.get("modules") or {}).items() if v != "ok"}
            run.dist(stream, "package-does-not-import")
            run.extra.setdefault("import_failures", []).append({"seed": g.sc.seed, "modules": bad})
            run.violation(f"the generated package does not import ({str(bad)[:200]}): no operation of it can be sent",
                          dict(rep, modules=bad))
            return 0
        consts = None
        if extract:
            r = g.driver.ask({"cmd": "eval", "code": "m = mods['operations']\nresult = {n: getattr(m, n) for n in m.__all__}"})
            consts = r.get("value")
            if not isinstance(consts, dict):
                run.violation("ExtractOperations: operations module has no readable constants", dict(rep, probe=r),
                              found_input=False)
                consts = {}
        from ariadne_codegen.utils import str_to_snake_case

        for i, op in enumerate(g.operations()):
            m = scen.method_name(op.name.value)
            if m not in ld.get("methods", {}):
                run.violation(f"method {m} missing from the generated client", dict(rep, op=op.name.value), found_input=False)
                continue
            enc = positional_args(g, op, ld["methods"][m], random.Random(g.sc.seed * 31 + i))
            c = g.call(method=m, args=enc, response={}, events=0)
            run.dist("operation_kind", op.operation.value + ("/extract" if extract else ""))
            if any(v.variable.name.value in G.LOCALS for v in (op.variable_definitions or ())):
                run.dist("variables_named_like_locals", op.operation.value)
            req = c.get("request") or {}
            q, on = req.get("query"), req.get("operationName")
            run.count()
            n += 1
            problems = G.oracle(schema, g.doc, op, q, on)
            if q is None:
                problems = [{"kind": "no-query", "exc": c.get("exc")}]
            if extract and q is not None:
                var = str_to_snake_case(op.name.value).upper() + "_GQL"
                if consts.get(var) != q:
                    problems.append({"kind": "constant", "variable": var, "constant": consts.get(var)})
            covered = None
            if msets and msets[0] == "ok" and i < len(msets[1]):
                if msets[1][i][3] != "t":
                    run.broken("guard", f"recorded_reachable is false for {op.name.value} seed {g.sc.seed}: the generator "
                                        "recorded a fragment the operation does not reach")
            # K1b
            if mdocs and mdocs[0] == "ok" and q is not None and i < len(mdocs[1]):
                try:
                    sent = docenc.parsed(parse(q))
                except Exception:  # noqa
                    sent = None
                if sent is not None:
                    if sent == mdocs[1][i]:
                        run.dist("k1_docs", "equal")
                    elif problems and classify(g, op, problems, covered):
                        run.dist("k1_docs", "differs-in-open-finding-class")
                    else:
                        run.dist("k1_docs", "DIFFERENT")
                        run.violation(
                            f"K1 documents: Model/OpStr.v predicts another document for {op.name.value} "
                            + ("and the property fails on it" if problems else "(property holds on this input)"),
                            dict(rep, op=op.name.value, sent=q, model=mdocs[1][i], problems=problems),
                            found_input=bool(problems))
                        continue
            elif mdocs and mdocs[0] != "ok":
                run.violation(f"K1 documents: model error {mdocs!r} but the generator produced a client",
                              dict(rep, model=mdocs), found_input=False)
            if problems:
                cls = classify(g, op, problems, covered)
                r2 = dict(rep, op=print_ast(op), sent=q, operationName=on, problems=problems, extract=extract)
                what = f"{op.name.value}: " + "; ".join(p["kind"] for p in problems)
                if cls:
                    run.finding(cls, what, r2)
                    run.dist(stream, "finding:" + cls)
                else:
                    run.violation(f"C02 fails for operation {what}", r2)
                    run.dist(stream, "VIOLATION")
            else:
                run.dist(stream, "holds")
                names, _ = G.reachable(g.doc, op)
                run.nontrivial_case((g.sc.seed, stream, op.name.value)) if (names or "__typename" in (q or "")) else None
    finally:
        g.stop()
    return n


def generation_failed(run, g, stream):
    exc = g.res.get("exc") or ["?", "?"]
    short = exc[0].split(".")[-1]
    run.dist(stream, "generator-raised:" + short)
    if "InvalidInput" in exc[0] or "SyntaxError" in exc[0] or "TokenError" in exc[0]:
        # a C02 failure only when the source line black chokes on belongs to an embedded operation string
        # (other causes, e.g. an invalid identifier in a model, are C04/C18's)
        msg = (exc[1] or "").splitlines()
        offending = msg[1].strip() if len(msg) > 1 else ""
        printed = {l.strip() for d in parse(g.sc.queries).definitions for l in print_ast(d).splitlines()}
        if not (offending in printed or "gql(" in offending or "_GQL" in offending or '"""' in offending
                or any(offending and offending in l for l in printed)):
            run.dist(stream, "generator-raised-elsewhere:" + short)
            return False
        run.violation(f"generation dies in the text path ({short}) on a valid operation",
                      dict(base_rep(g), exc=exc, text_classes=G.text_classes(print_ast(parse(g.sc.queries)))))
        return True
    return False


class LockedRun:
    """report.Run used from the client-driving threads: one lock around every call"""

    def __init__(self, run):
        import threading

        object.__setattr__(self, "_run", run)
        object.__setattr__(self, "_lock", threading.RLock())

    def __getattr__(self, k):
        v = getattr(self._run, k)
        if callable(v):
            def f(*a, **kw):
                with self._lock:
                    return v(*a, **kw)
            return f
        return v


def stream_scenarios(ctx, name, scs, extract=False):
    run = LockedRun(ctx.run)
    if not scs:
        return 0
    over = {}
    total = 0
    with workers.Scratch() as scratch:
        if extract:
            gens = scen.generate(scs, scratch, config={"plugins": [EXTRACT]})
        else:
            gens = scen.generate(scs, scratch)
        ok = [g for g in gens if g.ok]
        for g in gens:
            if not g.ok:
                generation_failed(run, g, name)
        docs, sets = model_docs(ok) if ok else ([], [])

        def one(t):
            g, d, s = t
            return drive(run, g, d, s, name, extract=extract)

        total = sum(scen.parallel(list(zip(ok, docs, sets)), one, jobs=10))
    run.extra.setdefault("streams", {})[name] = {"scenarios": len(scs), "generated": len(ok), "methods": total}
    return len(ok)


NOREIMPORTS = "ariadne_codegen.contrib.no_reimports.NoReimportsPlugin"
MIXIN_SDL = ("interface Node { id: ID! }\ntype A implements Node { id: ID! x: Int b: B }\ntype B { y: Int }\n"
             "type Query {\n  a(id: ID): A\n  node: Node\n}\ntype Mutation { m(id: ID): A }\ntype Subscription { s(id: ID): A }\n")
MX = '@mixin(from: ".c02_mixins", import: "M")'
MIXIN_PLACES = {
    "field": f"query Q {{ a {MX} {{ x }} }}",
    "nested_field": f"query Q {{ a {{ b {MX} {{ y }} }} }}",
    "leaf_field": f"query Q {{ a {{ x {MX} }} }}",
    "fragment_definition": f"query Q {{ a {{ ...F }} }}\nfragment F on A {MX} {{ x }}",
    "query": f"query Q {MX} {{ a {{ x }} }}",
    "mutation": f"mutation Q {MX} {{ m {{ x }} }}",
    "subscription": f"subscription Q {MX} {{ s {{ x }} }}",
    "variable_definition": f"query Q($i: ID {MX}) {{ a(id: $i) {{ x }} }}",
    "inline_fragment": f"query Q {{ node {{ id ... on A {MX} {{ x }} }} }}",
    "fragment_spread": f"query Q {{ a {{ ...F {MX} }} }}\nfragment F on A {{ x }}",
}


def mixin_boundary(ctx):
    """@mixin at every directive location of an executable document: either refused up front with the validation
    error naming the directive, or what is sent is the authored operation without @mixin and valid"""
    run = LockedRun(ctx.run)
    scs = []
    for i, (place, q) in enumerate(MIXIN_PLACES.items()):
        for extract in (False, True):
            scs.append((place, extract, scenario.Scenario(
                seed=700 + i, sdl=MIXIN_SDL, queries=q + "\n", features=("c02", "mixin_at", place),
                config={"async_client": True, "files_to_include": ["c02_mixins.py"],
                        **({"plugins": [EXTRACT]} if extract else {})},
                files={"c02_mixins.py": G.MIXINS_FILE})))
    with workers.Scratch() as scratch:
        gens = scen.generate([x[2] for x in scs], scratch)
        for (place, extract, sc), g in zip(scs, gens):
            run.count()
            if not g.ok:
                exc = g.res.get("exc") or ["?", "?"]
                if "InvalidOperationForSchema" in exc[0] and "mixin" in exc[1]:
                    run.dist("mixin_at", f"{place}:refused")
                else:
                    run.violation(f"@mixin at {place}: generation fails with {exc[0]} instead of the validation error",
                                  dict(base_rep(g), exc=exc))
                continue
            run.dist("mixin_at", f"{place}:accepted")
            run.nontrivial_case(("mixin_at", place, extract))
            drive(run, g, None, None, "mixin_at_" + place, extract=extract)


def regeneration_history(ctx):
    """ExtractOperations behind/in front of NoReimports, into a fresh directory and over an older generation of an
    EDITED set of operations: what is sent must be the current text"""
    run = LockedRun(ctx.run)
    base = ctx.seed * 100000 + 2000
    cases = []
    for i in range(12 if ctx.thorough else 3):
        b = make_base(base + 12000 + i)
        if not b:
            continue
        v1 = G.decorate(b, base + 3 * i, adversarial=False, mixin_field=False)
        v2 = G.decorate(b, base + 3 * i + 1, adversarial=True, mixin_field=False, blocks=True)
        if v1 and v2 and v1.queries != v2.queries:
            # (plugins of the older generation, plugins of the regeneration)
            cases.append((v1, v2, [([EXTRACT], [NOREIMPORTS, EXTRACT]), ([NOREIMPORTS, EXTRACT], [NOREIMPORTS, EXTRACT]),
                                   ([EXTRACT, NOREIMPORTS], [EXTRACT, NOREIMPORTS])][i % 3]))
    if not cases:
        run.broken("regeneration history", "no scenario pair could be built")
        return
    with workers.Scratch() as scratch:
        dirs = [scratch.new() for _ in cases]
        r1 = workers.generate_many([v1.request(d, config={"plugins": pl[0]}) for (v1, _v2, pl), d in zip(cases, dirs)])
        reqs2 = [v2.request(d, config={"plugins": pl[1]}) for (_v1, v2, pl), d in zip(cases, dirs)]
        r2 = workers.generate_many(reqs2)
        gens = [scen.Generated(v2, q, r) for (_v1, v2, _pl), q, r in zip(cases, reqs2, r2)]
        for (v1, v2, pl), a, g in zip(cases, r1, gens):
            run.count()
            label = "+".join(x.rsplit(".", 1)[-1] for x in pl[0]) + " then " + "+".join(x.rsplit(".", 1)[-1] for x in pl[1])
            if not a.get("ok") or not g.ok:
                run.dist("regeneration", f"{label}:generator-raised")
                if not generation_failed(run, g if not g.ok else scen.Generated(v1, {"dir": g.dir}, a), "regeneration"):
                    run.violation(f"regeneration with plugins {label} fails: {(a.get('exc') or g.res.get('exc'))}",
                                  dict(base_rep(g), first=a.get("exc"), second=g.res.get("exc")), found_input=True)
                continue
            run.dist("regeneration", f"{label}:generated-twice")
            run.nontrivial_case(("regen", v2.seed, label))
        ok = [g for g in gens if g.ok]
        docs, sets = model_docs(ok) if ok else ([], [])
        for g, d, s_ in zip(ok, docs, sets):
            drive(run, g, d, s_, "regeneration_after_edit", extract=True)


def make_base(seed, feats=()):
    try:
        return scenario.make(seed, feats)
    except RuntimeError:
        return None


def documents(ctx):
    run = ctx.run
    T = ctx.thorough
    base = ctx.seed * 100000 + 2000
    # ---- plain scenarios (every fragment graph the shared generator makes), then decorated ones
    plain = [s for s in (make_base(base + i) for i in range(60 if T else 14)) if s]
    main = []
    for i in range(240 if T else 34):
        s = make_base(base + 1000 + i)
        if s:
            d = G.decorate(s, base + i, adversarial=False, mixin_field=True, blocks=False)
            run.dist("decoration", "decorated" if d else "fell-back-to-plain")
            main.append(d or s)
    n_ok = stream_scenarios(ctx, "plain", plain)
    n_ok += stream_scenarios(ctx, "decorated", main)
    if n_ok < 0.6 * (len(plain) + len(main)):
        run.broken("generation", f"only {n_ok} of {len(plain) + len(main)} valid scenarios generate")
    # ---- everything that used to be a finding class, together: quotes, \n escapes, block strings, U+2028,
    #      @mixin on fragment definitions
    advs = []
    for i in range(80 if T else 12):
        s = make_base(base + 2000 + i)
        if s:
            d = G.decorate(s, base + 555 + i, adversarial=True, mixin_field=True, mixin_def=True, blocks=True)
            if d:
                advs.append(d)
    stream_scenarios(ctx, "decorated_adversarial", advs)
    stream_scenarios(ctx, "decorated_adversarial_extract", advs[: (20 if T else 4)], extract=True)
    # ---- structured stream: deep fragment chains in every definition order, spreads nested in fields of fragments,
    #      mixin fragments with object/abstract fields in every order, variables named like the method's locals on
    #      queries, mutations and subscriptions, sync and async; and the C01 regression corpus
    st = [x for x in (G.structured(base + 7000 + i) for i in range(120 if T else 24)) if x]
    for x in st:
        run.dist("structured_order", x.notes["order"])
    stream_scenarios(ctx, "structured", st)
    stream_scenarios(ctx, "structured_extract", st[: (40 if T else 8)], extract=True)
    cp = G.corpus_c01()
    stream_scenarios(ctx, "corpus_c01", cp)
    stream_scenarios(ctx, "corpus_c01_extract", cp, extract=True)
    # ---- @skip/@include on inline fragments and spreads (e47d9e8: conditional spreads are unpacked, the collected
    #      fields are copies with the container's directives): the SENT text must still be the authored one
    cf = [s for s in (make_base(base + 9000 + i, ("cond_fragment",)) for i in range(60 if T else 12)) if s]
    stream_scenarios(ctx, "cond_fragment", cf)
    cfd = []
    for i in range(40 if T else 8):
        s = make_base(base + 9500 + i, ("cond_fragment", "subscriptions"))
        if s:
            d = G.decorate(s, base + 950 + i, adversarial=True, mixin_field=True, mixin_def=True, blocks=True)
            cfd.append(d or s)
    stream_scenarios(ctx, "cond_fragment_decorated", cfd)
    stream_scenarios(ctx, "cond_fragment_extract", cf[: (16 if T else 4)], extract=True)
    wn = [s for s in (make_base(base + 8000 + i, ("weird_names", "subscriptions")) for i in range(40 if T else 8)) if s]
    stream_scenarios(ctx, "weird_names_subscriptions", wn)
    stream_scenarios(ctx, "weird_names_subscriptions_extract", wn[: (12 if T else 3)], extract=True)
    # ---- ExtractOperations
    ext = []
    for i in range(60 if T else 10):
        s = make_base(base + 3000 + i)
        if s:
            d = G.decorate(s, base + 77 + i, adversarial=False, mixin_field=False)
            ext.append(d or s)
    stream_scenarios(ctx, "extract_operations", ext, extract=True)
    # ---- finding-class streams
    fc = []
    for i in range(40 if T else 8):
        s = make_base(base + 5000 + i, ("foreign_cond",))
        if s:
            fc.append(s)
    stream_scenarios(ctx, "foreign_cond", fc)
    md = []
    for i in range(40 if T else 8):
        s = make_base(base + 6000 + i)
        if s:
            d = G.decorate(s, base + 99 + i, adversarial=False, mixin_field=True, mixin_def=True)
            if d:
                md.append(d)
    stream_scenarios(ctx, "mixin_on_definition", md)
    fixed = scenario.Scenario(
        seed=1, features=("c02", "fixed"), config={},
        sdl=("interface Node { id: ID! }\ninterface Animal { name: String }\n"
             "type Dog implements Node & Animal { id: ID! name: String }\ntype Cat implements Animal { name: String }\n"
             "type A { bC: X }\ntype AB { c: Y }\ntype X { x: Int }\ntype Y { y: Int }\n"
             "type Query {\n  animal: Animal\n  a: A\n  aB: AB\n}\n"),
        queries=("query Dropped { animal { name ...NF } }\n\nfragment NF on Node { id }\n\n"
                 "query Collide { a { bC { ...FX } } aB { c { ...FY } } }\n\nfragment FX on X { x }\n\n"
                 "fragment FY on Y { y }\n"))
    stream_scenarios(ctx, "dropped_spread_fixed", [fixed])


# ====================================================================================== literal streams + search
def literal_result(g):
    """-> (ok?, problems, sent) for a tiny one-operation scenario"""
    if not g.ok:
        return False, [{"kind": "generation", "exc": g.res.get("exc")}], None
    ld = g.start()
    try:
        if not ld.get("ok"):
            return False, [{"kind": "generation", "exc": ["import", str(ld.get("modules"))[:300]]}], None
        op = g.operations()[0]
        c = g.call(method=scen.method_name(op.name.value), args={}, response={})
        req = c.get("request") or {}
        problems = G.oracle(g.schema, g.doc, op, req.get("query"), req.get("operationName"))
        return not problems, problems, req.get("query")
    finally:
        g.stop()


def run_tiny(specs, extract=False):
    scs = [G.tiny(v, b, w, i) for i, (v, b, w) in enumerate(specs)]
    with workers.Scratch() as scratch:
        gens = scen.generate(scs, scratch, **({"config": {"plugins": [EXTRACT]}} if extract else {}))
        res = scen.parallel(gens, literal_result, jobs=10)
    return list(zip(scs, res))


def minimise(value, block, where, budget=4):
    """delete characters while the literal keeps failing (one parallel round per pass)"""
    cur = value
    for _ in range(budget):
        cands = [cur[:i] + cur[i + 1:] for i in range(len(cur))]
        cands = [c for c in dict.fromkeys(cands)]
        if not cands:
            break
        out = run_tiny([(c, block and '"""' not in c, where) for c in cands])
        failing = [c for c, (_s, (ok, _p, _q)) in zip(cands, out) if not ok]
        if not failing:
            break
        cur = min(failing, key=len)
    return cur


def literals(ctx):
    run = ctx.run
    T = ctx.thorough
    rng = random.Random(ctx.seed * 13 + 3)
    specs = []
    # safe stream: expected to hold
    for i in range(120 if T else 24):
        v = G.rand_value(rng, False)
        while G.text_classes(print_ast(G.sval(v))):
            v = G.rand_value(rng, False)
        specs.append((v, False, G.WHERE[i % len(G.WHERE)]))
    # adversarial stream
    adv = [("a\n   \nb", True, "argument"), ("it's", False, "argument"), ("a\nb", False, "argument"), ("a\\nb", False, "directive"),
           ("blk", True, "argument"), ("a b", False, "default"), ("two\nlines", True, "object")]
    for i in range(100 if T else 18):
        v = G.rand_value(rng, True)
        b = rng.random() < 0.25 and '"""' not in v and not v.endswith("\\") and not v.endswith('"')
        adv.append((v, b, G.WHERE[i % len(G.WHERE)]))
    out = run_tiny(specs + adv)
    minimised = 0
    for (v, b, w), (sc, (ok, problems, sent)) in zip(specs + adv, out):
        run.count()
        printed = print_ast(parse(sc.queries))
        tc = G.text_classes(printed)
        stream = "literal_adversarial" if (v, b, w) in adv else "literal_safe"
        run.dist(stream, ("holds" if ok else "fails") + ":" + (tc[0] if tc else "no-class"))
        run.dist("literal_position", w)
        if tc or not ok:
            run.nontrivial_case(("lit", v, b, w))
        if ok:
            continue
        rep = {"schema": sc.sdl, "queries": sc.queries, "value": v, "block": b, "where": w, "problems": problems,
               "sent": sent}
        if OPEN_TEXT_CLASS and OPEN_TEXT_CLASS in tc and {p["kind"] for p in problems} <= {"ast"}:
            run.finding(OPEN_TEXT_CLASS, f"block string {v!r} at position {w}: value altered", rep)
            continue
        m = minimise(v, b, w) if minimised < 2 else v
        minimised += 1
        rep["minimised_value"] = m
        rep["formerly_class"] = tc
        run.violation(f"C02 fails for the string literal {m!r} at position {w}", rep)
    # ExtractOperations goes through the same rewriter with offset 0: one representative per class
    ex = run_tiny([("plain = # text", False, "argument"), ("it's", False, "argument"), ("a\nb", False, "argument"),
                   ("blk", True, "argument")], extract=True)
    for sc, (ok, problems, sent) in ex:
        run.count()
        tc = G.text_classes(print_ast(parse(sc.queries)))
        run.dist("literal_extract_operations", ("holds" if ok else "fails") + ":" + (tc[0] if tc else "no-class"))
        if not ok:
            rep = {"schema": sc.sdl, "queries": sc.queries, "problems": problems, "sent": sent, "extract": True}
            run.violation("C02 fails with ExtractOperations for the literal of " + sc.queries.strip()[:80], rep)


def run(ctx):
    run = ctx.run
    run.rule = ("text path: random line lists over a pool with both quotes, backslashes, #, =, unicode, triple quotes "
                "(1/3 over the safe alphabet), x {client method, ExtractOperations constant}; documents: every "
                "operation of seeded scenarios (plain / decorated with literals, directives, defaults, @mixin / "
                "ExtractOperations / finding-class streams) sent through httpx.MockTransport; literals: one literal "
                "at one of 6 positions of a tiny schema; non-trivial = line list outside the safe alphabet, operation "
                "with fragments or automatic __typename, literal in a finding class or failing")
    run.assumptions += [
        "graphql-core parse/print_ast/validate (print_ast then parse is the identity on ASTs: checked by K1b on every "
        "captured document); CPython repr/ast.unparse/re/textwrap/string-literal evaluation (K1a on every run); "
        "black/isort keep string literals (inside K3)",
        "text model is byte-level: bytes >= 0x80 stand for printable non-ASCII characters; str.splitlines separators "
        "other than LF are outside the model (the U+2028/U+2029 class is found by K3, not modelled)",
        "model fuel 400 for selection depth / fragment chains (out-of-fuel is an error value, never a verdict)",
    ]
    k1_multiline(ctx)
    k2_closure(ctx)
    k2_lexer(ctx)
    documents(ctx)
    mixin_boundary(ctx)
    regeneration_history(ctx)
    literals(ctx)
    run.sample({"safe_lines": ["query A($v: Int = 3) {", '  echo(s: "a # b = c")', "}"],
                "embedded": "\\n + 12 spaces before every non-blank line + 12 spaces"})
    run.sample({"literal": "it's", "before 0f971a2": "black.parsing.InvalidInput", "now": "sent unchanged"})
    run.sample({"literal": "a\\nb", "before 0f971a2": 'sent as "a            b"', "now": "sent unchanged"})
