"""C08 — Fragments and mixins are honoured as reusable base types.

K2  Python sorted()/str_to_pascal_case vs the model's sort_uniq/pascal_s (the theorems reason about these).
K1a (volume, in-process) FragmentsGenerator._get_sorted_fragments_names vs Model/Fragments.v `toposort` on seeded
    DAGs with the dependency collections handed over as shuffled LISTS; since /repo 93e79d6 the code sorts them, which
    is the model's identity oracle - exact equality.
K1b every scenario through the REAL generator: class skeletons (name, bases, in file order) of every operation
    module and of fragments.py, the imports from the fragments module, and the existence of the module, vs
    `generate_package`; the class order of fragments.py must be one of the orders the model produces for some
    iteration order of the dependency sets (exactly one since /repo 93e79d6), and must define every class after its bases.
K3  on the imported packages: all modules import, all models complete; __bases__/__mro__ of every generated class
    contain the fragment classes exactly as the model says; every directly spread fragment that satisfies the
    property's premise is a base; @mixin classes are imported bases; objects returned by client methods are
    instances of the fragment classes and `F.model_validate(sub-payload)` succeeds.
    Repeated for permuted definition orders of the queries file x PYTHONHASHSEED values.
"""
from __future__ import annotations

import itertools
import json
import random

from .. import model
from ..canon import frag_inputs
from ..gen import frag_scen, scenario
from ..impl import scen, workers
from ..sexp import Sym

PLANS = [
    {"k": 0, "null": 0.0, "lens": [1], "seed": 0},
    {"k": 1, "null": 0.0, "lens": [2], "seed": 1},
    {"k": 2, "null": 0.25, "lens": [0, 2], "seed": 2, "mix": False},
]
PROBE = """
res = {}
for mn, mod in mods.items():
    for name, obj in vars(mod).items():
        if isinstance(obj, type) and obj.__module__ == mod.__name__:
            res[mn + "." + name] = {"bases": [b.__name__ for b in obj.__bases__],
                                    "mro": [c.__module__.split(".")[-1] + "." + c.__name__ for c in obj.__mro__]}
result = res
"""


class LockedRun:
    """report.Run is not thread-safe; packages are checked on several threads."""

    def __init__(self, run):
        import threading

        self._run, self._lock = run, threading.Lock()

    def __getattr__(self, name):
        attr = getattr(self._run, name)
        if not callable(attr):
            return attr

        def locked(*a, **kw):
            with self._lock:
                return attr(*a, **kw)

        return locked


def pascal(n):
    from ariadne_codegen.utils import str_to_pascal_case

    return str_to_pascal_case(n)


# ------------------------------------------------------------------------------------------- K2 / K1a
def k2_and_k1a(ctx):
    run = ctx.run
    rng = random.Random(ctx.seed * 31 + 8)
    pool = ["AnimalF0", "animalF0", "Dog_frag", "dog", "A", "a", "_x", "Z9", "Zz", "aB", "Ab", "AB", "b_", "F10", "F2", "F1"]
    cmds, cases = [], []
    for _ in range(300 if not ctx.thorough else 2000):
        l = [rng.choice(pool) + rng.choice(["", "1", "_a", "X"]) for _ in range(rng.randint(0, 7))]
        cases.append(l)
        cmds.append([Sym("sorted"), l])
    res = model.batch("C08", cmds)
    for l, r in zip(cases, res):
        run.count()
        if r != sorted(set(l)):
            run.broken("K2 sorted", f"model {r} vs sorted(set()) {sorted(set(l))} for {l}")
            return
    names = list(dict.fromkeys(x + s for x in pool for s in ["", "_frag_b", "__x", "_1"]))
    res = model.batch("C08", [[Sym("pascal"), n] for n in names])
    for n, r in zip(names, res):
        run.count()
        if r != pascal(n):
            run.broken("K2 pascal", f"model {r!r} vs str_to_pascal_case {pascal(n)!r} for {n!r}")
            return
    # K2: the model's NoFragmentCycles check vs graphql-core's rule, on random small fragment sets (cyclic or not;
    # spreads at the top level, inside inline fragments, inside nested fields, conditional)
    from graphql import NoFragmentCyclesRule, build_schema as _bs, parse as _parse, validate as _validate

    zoo = _bs(frag_scen.SDL)
    docs, cmds = [], []
    for _ in range(250 if not ctx.thorough else 1500):
        k = rng.randint(1, 5)
        names_ = [rng.choice(["F", "g", "h_x", "Zed"]) + str(i) for i in range(k)]
        defs = []
        for nme in names_:
            parts = ["id"]
            for _j in range(rng.choice([0, 0, 0, 1, 1, 2])):
                tgt = rng.choice(names_)
                sp = "..." + tgt + rng.choice(["", "", " @include(if: true)"])
                parts.append(rng.choice([sp, "... on Dog { " + sp + " }", "mate { " + sp + " }",
                                         "mate { mate { ... on Dog { " + sp + " } } }"]))
            defs.append(f"fragment {nme} on Dog {{ " + " ".join(parts) + " }")
        text = "\n".join(defs) + "\nquery Q { dog { id } }\n"
        doc = _parse(text)
        ok = not _validate(zoo, doc, [NoFragmentCyclesRule])
        enc = frag_inputs.Encoded(frag_scen.SDL, text)
        frs = [[f.name.value, f.type_condition.name.value, frag_inputs.mixins_of(f), frag_inputs.sel_sx(f.selection_set)]
               for f in enc.frags]
        docs.append((text, ok))
        cmds.append([Sym("nocycles"), frs])
    n_cyc = 0
    for (text, ok), r in zip(docs, model.batch("C08", cmds)):
        run.count()
        n_cyc += (not ok)
        if (r == "t") != ok:
            run.broken("K2 NoFragmentCycles", f"model {r!r} vs graphql-core {'no cycle' if ok else 'cycle'} for {text!r}")
            return
    run.dist("k2_no_fragment_cycles_documents", "cyclic", n_cyc)
    run.dist("k2_no_fragment_cycles_documents", "acyclic", len(docs) - n_cyc)
    # K1a
    try:
        from graphql import build_schema

        from ariadne_codegen.client_generators.fragments import FragmentsGenerator

        fg = FragmentsGenerator(schema=build_schema("type Query { a: Int }"), fragments_definitions={})
        fn = fg._get_sorted_fragments_names
    except Exception as exc:
        run.extra["k1a"] = f"skipped: {type(exc).__name__}: {exc}"
        return
    n = 3000 if ctx.thorough else 500
    cmds, cases = [], []
    for _ in range(n):
        k = rng.randint(1, 7)
        nm = rng.sample(["F" + str(i) for i in range(8)] + ["alpha", "Beta", "gamma_x", "itemDetails", "itemName",
                         "ITEM_ALL", "item_all", "Itemdetails", "x1_y__2", "_lead", "Z9", "zz"], k)
        order = list(nm)
        rng.shuffle(order)  # a topological numbering unrelated to the alphabetical order
        deps = {}
        for i, a in enumerate(order):
            cands = order[:i]
            deps[a] = rng.sample(cands, rng.randint(0, min(3, len(cands))))
        given = list(nm)
        rng.shuffle(given)
        cases.append((given, deps))
        tbl = [[a, sorted(d)] for a, d in deps.items()]
        orc = []   # /repo 93e79d6: the code iterates sorted(deps) - the identity oracle of the model
        cmds.append([Sym("toposort"), tbl, list(deps), given, orc])
    res = model.batch("C08", cmds)
    bad = 0
    for (given, deps), r in zip(cases, res):
        run.count()
        run.dist("k1a_dag_size", str(len(given)))
        impl = fn(fragments_names=set(given), dependencies_dict={a: list(d) for a, d in deps.items()})
        if any(len(d) > 1 for d in deps.values()):
            run.nontrivial_case(("k1a", tuple(given), json.dumps(deps, sort_keys=True)))
        if r == "none" or model.is_error(r) or r[1] != impl:
            bad += 1
            pos = {x: i for i, x in enumerate(impl)}
            prop_fails = sorted(impl) != sorted(given) or any(pos[d] > pos[a] for a in deps for d in deps[a])
            run.violation(f"K1a: _get_sorted_fragments_names {impl} vs model {r} for names {given} deps {deps}; "
                          + ("the emitted order violates the property" if prop_fails else "order still valid"),
                          {"names": given, "deps": deps, "impl": impl, "model": r}, found_input=prop_fails)
            if bad > 5:
                break
    run.extra["k1a_cases"] = len(cases)


# ------------------------------------------------------------------------------------------- per package
def closure(top, fs):
    """fragments whose classes are in the __mro__ of a class with fragment bases fs (top: fragment -> the
    fragment bases of ITS OWN top-level class)"""
    out, todo = set(), list(fs)
    while todo:
        f = todo.pop()
        if f not in out:
            out.add(f)
            todo.extend(top.get(f, []))
    return out


def top_bases(pkg):
    top = {}
    if pkg["module"]:
        for n, cs in pkg["module"]["classes"].items():
            top[n] = list(cs[0]["bfrags"]) if cs else []
    return top


def mro_hazards(pkg):
    """classes whose listed fragment bases contain a fragment next to another one that inherits from it: Python's C3
    linearisation rejects `class X(A, B)` when B is a subclass of A (former finding C08-MRO, fixed in /repo
    959c464; C08_bases_no_ancestor proves the model never emits it, so this is a regression predicate)."""
    top = top_bases(pkg)
    out = []
    groups = [o["classes"] for o in pkg["ops"].values()]
    if pkg["module"]:
        groups += list(pkg["module"]["classes"].values())
    for cs in groups:
        for c in cs:
            fs = c["bfrags"]
            for i, a in enumerate(fs):
                for b in fs[i + 1:]:
                    if a in closure(top, top.get(b, [])):
                        out.append((c["name"], a, b))
    return out


def candidate_orders(enc, snake, base_pkg, cap=64):
    """class-name order of fragments.py according to the model.  Since /repo 93e79d6 dependency sets are iterated in
    sorted order (the model's identity oracle), so there is exactly one order; before, one per iteration order."""
    mod = base_pkg["module"]
    if mod is None:
        return [], True
    return [[c["name"] for n in mod["order"] for c in mod["classes"][n]]], True


def check_package(run, sc, g, enc, pkg, tag, rep, orders, complete, drive_calls):
    """All K1b / K3 checks of one generated package against the model's package `pkg`."""
    files = g.files()
    cfg = g.res.get("config", {})
    fmod = cfg.get("fragments_module_name", "fragments")

    def viol(what, extra=None, found=True):
        run.violation(f"[{tag}] {what}", dict(rep, **(extra or {})), found_input=found)

    # ---- K1b: operation modules
    model_classes = {}   # module.Class -> model class
    for op in enc.ops:
        name = op.name.value
        mname = scen.method_name(name)
        text = files.get(mname + ".py")
        if text is None:
            viol(f"module {mname}.py missing")
            continue
        classes, imports = frag_inputs.skeleton(text)
        m = pkg["ops"][name]
        want = [(c["name"], c["bases"]) for c in m["classes"]]
        if classes != want:
            viol(f"K1b: classes of {mname}.py differ from the model: generator {classes} model {want}",
                 {"operation": name}, found=False)
        got_imp = sorted(imports.get("." + fmod, []))
        # autoflake removes imports nothing refers to: what stays are the fragments LISTED as bases
        want_imp = sorted({pascal(f) for c in m["classes"] for f in c["bfrags"]})
        if not {f for c in m["classes"] for f in c["bfrags"]} <= set(m["mix"]):
            viol(f"K1b: model lists bases outside the fragments used as mixins in {mname}.py", found=False)
        if got_imp != want_imp:
            viol(f"K1b: {mname}.py imports {got_imp} from the fragments module, model says {want_imp}", found=False)
        for c in m["classes"]:
            model_classes[mname + "." + c["name"]] = c
    # ---- K1b: fragments module
    mod = pkg["module"]
    ftext = files.get(fmod + ".py")
    if (ftext is not None) != (mod is not None):
        viol(f"K1b: fragments module {'written' if ftext is not None else 'not written'}, model says the opposite", found=False)
    frag_order = []
    if ftext is not None and mod is not None:
        classes, f_imports = frag_inputs.skeleton(ftext)
        frag_order = [n for n, _ in classes]
        # @mixin imports of the module: those of EVERY generated fragment whose class is a base of some class
        # (autoflake drops the others), vs the import statements of the file
        used_bases = {b for _n, bs in classes for b in bs}
        want_mix = sorted({(fr, im) for fr, im in mod["imports"] if im in used_bases})
        got_mix = sorted({(m_, n_) for m_, ns in f_imports.items() if not m_.startswith(".") for n_ in ns
                          if n_ in used_bases})
        if want_mix != got_mix:
            missing = [x for x in want_mix if x not in got_mix]
            viol(f"fragments module imports {got_mix} for @mixin classes, the generated fragments need {want_mix}"
                 + (f": missing {missing}" if missing else ""), {"observed": got_mix, "expected": want_mix},
                 found=bool(missing))
        # every name a class statement refers to as a base is defined or imported
        imported = {n_ for ns in f_imports.values() for n_ in ns}
        for n, bs in classes:
            for b in bs:
                if b not in imported and b not in {c for c, _ in classes}:
                    viol(f"fragments module: base {b} of class {n} is neither defined nor imported", {"observed": sorted(imported)})
        by_name = {}
        for n in mod["order"]:
            for c in mod["classes"][n]:
                by_name[c["name"]] = c
                model_classes[fmod + "." + c["name"]] = c
        # the property: every class after its bases, every expected class exactly once
        pos = {n: i for i, n in enumerate(frag_order)}
        if sorted(frag_order) != sorted(by_name):
            viol(f"fragments module defines {sorted(frag_order)}, expected {sorted(by_name)}",
                 {"observed": frag_order, "expected": sorted(by_name)})
        for n, bases in classes:
            for b in bases:
                if b in pos and pos[b] > pos[n]:
                    viol(f"fragments module defines {n} before its base {b}", {"observed": frag_order})
            if n in by_name and bases != by_name[n]["bases"]:
                viol(f"K1b: bases of fragment class {n}: generator {bases} model {by_name[n]['bases']}", found=False)
        if complete and frag_order not in orders and sorted(frag_order) == sorted(by_name):
            viol(f"K1b: class order of the fragments module {frag_order} is none of the orders the model allows {orders[:4]}",
                 {"observed": frag_order, "model_orders": orders}, found=False)
        if len(orders) > 1:
            run.dist("fragment_module_orders_possible", str(len(orders)))
    # ---- K3: import
    ld = g.start()
    try:
        if not ld.get("ok"):
            bad = {k: v for k, v in (ld.get("modules") or {}).items() if v != "ok"}
            hz = mro_hazards(pkg)
            if hz and any("consistent method resolution" in str(v) for v in bad.values()):
                run.dist("mro_conflict_packages", tag.split("/")[0])
                run.finding("C08-MRO-base-listed-before-derived",
                            f"[{tag}] package does not import: {bad}; class {hz[0][0]} lists fragment base {pascal(hz[0][1])} before {pascal(hz[0][2])}, which inherits from it",
                            dict(rep, observed=bad, hazards=hz[:5]))
            else:
                viol(f"package does not import: {bad}", {"observed": bad})
            return
        if ld.get("incomplete"):
            # C08 demands that the module loads and the classes work, not pydantic's eager completeness (C04):
            # fragments.py calls model_rebuild() for top-level fragment classes only, so a class nested two levels
            # below a fragment keeps a pending forward reference until first use.  Violation only if a class is
            # top-level / of an operation module, or cannot be completed on demand.
            code = ("import importlib\nres = {}\n"
                    "for key in %r:\n"
                    "    mn, cn = key.split('.', 1)\n"
                    "    cls = getattr(mods[mn], cn)\n"
                    "    try:\n"
                    "        cls.model_rebuild(raise_errors=True)\n"
                    "        res[key] = bool(cls.__pydantic_complete__)\n"
                    "    except BaseException as exc:\n"
                    "        res[key] = type(exc).__name__ + ': ' + str(exc)[:200]\n"
                    "result = res\n" % (list(ld["incomplete"]),))
            fixed = g.driver.ask({"cmd": "eval", "code": code}).get("value") or {}
            top = {fmod + "." + pascal(f) for f in (pkg["module"]["names"] if pkg["module"] else [])}
            bad = [k for k in ld["incomplete"] if fixed.get(k) is not True or not k.startswith(fmod + ".") or k in top]
            if bad:
                viol(f"pydantic models not fully built and not completable on demand: {bad[:5]}",
                     {"observed": ld["incomplete"], "rebuild": fixed})
            else:
                run.dist("lazily_completed_nested_fragment_classes", str(min(len(ld["incomplete"]), 4)))
        probe = g.driver.ask({"cmd": "eval", "code": PROBE}).get("value") or {}
        table = top_bases(pkg)
        for key, c in model_classes.items():
            run.count()
            got = probe.get(key)
            if got is None:
                viol(f"class {key} not defined after import")
                continue
            if got["bases"] != c["bases"]:
                viol(f"__bases__ of {key} are {got['bases']}, model says {c['bases']}", found=False)
            mro_frags = {x.split(".", 1)[1] for x in got["mro"][1:] if x.startswith(fmod + ".")}
            want = {pascal(f) for f in closure(table, c["frags"])}
            if mro_frags != want:
                viol(f"__mro__ of {key} contains fragment classes {sorted(mro_frags)}, model says {sorted(want)}",
                     {"observed": got["mro"]})
            # the property's premise, evaluated directly on the documents
            for f, evaluated_for in c["direct_at"]:
                fd = enc.frag_by_name[f]
                on = fd.type_condition.name.value
                from graphql import GraphQLUnionType, InlineFragmentNode

                if evaluated_for != c["type"]:
                    run.dist("direct_spread", "inside-applicable-inline-fragment")
                premise = (on == evaluated_for and not isinstance(enc.schema.type_map[on], GraphQLUnionType)
                           and not any(isinstance(s, InlineFragmentNode) for s in fd.selection_set.selections))
                if premise:
                    run.dist("direct_spread", "premise-holds")
                    if fmod + "." + pascal(f) not in got["mro"]:
                        viol(f"{key} spreads {f} directly (fragment on {on}, no inline fragments) but {pascal(f)} is not among its base classes: {got['mro']}",
                             {"observed": got["mro"]})
                else:
                    run.dist("direct_spread", "premise-fails")
            for b in c["bases"]:
                if b.startswith("Mixin"):
                    run.dist("mixin_directive_bases", "class-with-@mixin-base")
                    if "mixins_impl." + b not in got["mro"]:
                        viol(f"@mixin class {b} is not in the __mro__ of {key}: {got['mro']}")
        # ---- K3: instances returned by the client
        if drive_calls:
            frag_map = {}
            for key, c in model_classes.items():
                fs = sorted(pascal(f) for f in closure(table, c["frags"]))
                if fs:
                    frag_map.setdefault(key.split(".", 1)[1], fs)
            for op in enc.ops:
                if op.operation.value == "subscription":
                    continue
                for pi, plan in enumerate(PLANS):
                    rng = random.Random(f"{sc.seed}/{op.name.value}/{pi}")
                    _v, encd = g.encoded_args(op, rng, mode="rand")
                    r = g.call(method=scen.method_name(op.name.value), args=encd, plan=plan, frag_map=frag_map,
                               fragments_module=fmod)
                    run.count()
                    if r.get("exc"):
                        run.dist("calls_skipped", r["exc"][0])   # C01's business (F27 / F3 / F4)
                        continue
                    fr = r.get("frag") or {}
                    run.dist("instances_checked", "objects", fr.get("stats", {}).get("objects", 0))
                    run.dist("instances_checked", "fragment_instance_checks", fr.get("stats", {}).get("checked", 0))
                    if fr.get("stats", {}).get("checked"):
                        run.nontrivial_case((sc.seed, tag, op.name.value, pi))
                    if fr.get("problems"):
                        p0 = fr["problems"][0]
                        viol(f"operation {op.name.value}: object of class {p0['class']} at {p0['path']}: {p0['what']} ({p0['fragment']})",
                             {"operation": op.name.value, "plan": plan, "response": r.get("data"), "observed": fr["problems"][:3]})
                        break
    finally:
        g.stop()


def variants_for(ctx, sc, rng):
    """permuted definition orders x hash seeds"""
    n = sc.notes["n_defs"]
    idx = list(range(n))
    perms = []
    if ctx.thorough and n <= 4:   # exhaustive over definition orders (<= 23 variants)
        perms = [list(p) for p in itertools.permutations(idx)][1:]
    else:
        seen = {tuple(idx)}
        for _ in range(12):
            p = idx[:]
            rng.shuffle(p)
            if tuple(p) not in seen:
                seen.add(tuple(p))
                perms.append(p)
            if len(perms) >= (6 if ctx.thorough else 2):
                break
        rev = idx[::-1]
        if tuple(rev) not in seen:
            perms.append(rev)
    return perms


def run_stream(ctx, scs, stream, with_variants):
    run = LockedRun(ctx.run)
    hashseeds = ["0", "1", "7", "12345"] if ctx.thorough else ["0", "3"]
    rng = random.Random(ctx.seed * 131 + 5)
    with workers.Scratch(prefix="vh-c08-") as scratch:
        jobs = []   # (scenario, variant tag, hashseed, is_base)
        for sc in scs:
            jobs.append((sc, "base", "0", True))
            if with_variants:
                perms = variants_for(ctx, sc, rng)
                for pi, p in enumerate(perms):
                    jobs.append((frag_scen.reorder(sc, p), f"order{pi}", hashseeds[pi % len(hashseeds)], False))
                for hs in hashseeds[1:]:
                    jobs.append((sc, "hashseed" + hs, hs, False))
        gens = [None] * len(jobs)
        for hs in sorted({j[2] for j in jobs}):
            idxs = [i for i, j in enumerate(jobs) if j[2] == hs]
            reqs = [jobs[i][0].request(scratch.new()) for i in idxs]
            res = workers.generate_many(reqs, jobs=14, hashseed=hs)
            for i, q, r in zip(idxs, reqs, res):
                gens[i] = scen.Generated(jobs[i][0], q, r)
        # model: one package per DISTINCT document (definition order matters only through sorted())
        items = []
        for (sc, tag, hs, is_base), g in zip(jobs, gens):
            run.dist("packages", f"{stream}:{'base' if is_base else tag.rstrip('0123456789')}")
            if not g.ok:
                if is_base:
                    run.dist("skipped", f"{stream}: generation failed ({(g.res.get('exc') or ['?'])[0]})")  # C04
                else:
                    base_ok = any(j[0].seed == sc.seed and j[3] and gg.ok for j, gg in zip(jobs, gens))
                    if base_ok:
                        run.violation(f"[{tag}] generation fails for a permuted definition order / hash seed {hs} but not for the base: {g.res.get('exc')}",
                                      {"seed": sc.seed, "schema": sc.sdl, "queries": sc.queries, "hashseed": hs, "observed": g.res.get("exc")})
                continue
            items.append((sc, tag, hs, is_base, g))

        def one(item):
            sc, tag, hs, is_base, g = item
            try:
                enc = frag_inputs.Encoded(sc.sdl, sc.queries)
            except ValueError as exc:
                return ("skip", str(exc))
            snake = g.res.get("config", {}).get("convert_to_snake_case", True)
            r = model.call("C08", enc.command(snake))
            pkg = frag_inputs.decode_package(r)
            if pkg is None:
                return ("model-none", r)
            orders, complete = candidate_orders(enc, snake, pkg)
            return ("ok", enc, pkg, orders, complete)

        prepared = scen.parallel(items, one, jobs=8)

        def two(t):
            item, prep = t
            sc, tag, hs, is_base, g = item
            if prep[0] != "ok":
                return
            _ok, enc, pkg, orders, complete = prep
            rep = {"seed": sc.seed, "stream": stream, "variant": tag, "hashseed": hs, "schema": sc.sdl,
                   "queries": sc.queries, "config": g.res.get("config"), "notes": {k: v for k, v in sc.notes.items() if k != "defs"}}
            check_package(run, sc, g, enc, pkg, f"{stream}/{sc.seed}/{tag}/hash{hs}", rep, orders, complete, drive_calls=is_base)

        for item, prep in zip(items, prepared):
            if prep[0] == "skip":
                run.dist("skipped", f"{stream}: {prep[1]}")
            elif prep[0] == "model-none":
                run.broken("K1b model", f"model returned {prep[1]!r} for seed {item[0].seed}")
        scen.parallel(list(zip(items, prepared)), two, jobs=6)
        for (sc, tag, hs, is_base, g), prep in zip(items, prepared):
            if is_base and prep[0] == "ok":
                pkg = prep[2]
                if stream == "frags":
                    run.dist("graph_shape", sc.notes["shape"])
                    run.dist("fragments_per_scenario", str(sc.notes["n_frags"]))
                    run.dist("fragment_name_style", sc.notes.get("name_style", "fixed"))
                    run.dist("skip_include_on_spreads_or_inline_fragments", str(min(sc.notes.get("conditions", 0), 6)))
                n_mix = sum(1 for o in pkg["ops"].values() for c in o["classes"] if c["frags"])
                run.dist("classes_with_fragment_bases", str(min(n_mix, 5)) + ("+" if n_mix >= 5 else ""))
                run.dist("fragments_module", "written" if pkg["module"] else "absent")
                if pkg["module"]:
                    back = [n for n in pkg["module"]["names"] if n in pkg["exclude"]]
                    if back:
                        run.dist("excluded_then_readded_by_worklist", str(len(back)))
                if len(run.samples) < 5 and pkg["module"]:
                    run.sample({"seed": sc.seed, "shape": sc.notes.get("shape"), "queries": sc.queries,
                                "model_fragment_order": pkg["module"]["order"], "excluded": pkg["exclude"],
                                "operation_classes": {k: [(c["name"], c["bases"]) for c in v["classes"]] for k, v in pkg["ops"].items()}})
    return len(items)


def run(ctx):
    run = ctx.run
    run.rule = ("fragment-graph scenarios (chain, diamond, shared, iface, union, inline, unused, mixed, conditional = @skip/"
                "@include on spreads and enclosing inline fragments; @mixin on fields "
                "and fragment definitions) x permuted definition orders x PYTHONHASHSEED values, plus the shared main "
                "stream; every generated class checked (skeleton, __bases__, __mro__), every operation x 3 response "
                "plans for instance checks. non-trivial = call in which at least one fragment-instance check ran; "
                "K1a non-trivial = DAG with a dependency set of >= 2 elements")
    run.assumptions += [
        "graphql-core 3.2.12 execute_sync is the reference executor; pydantic 2.13 model_validate",
        "names are ASCII; class-name collisions (F22) and untyped inline fragments (F2) are outside Model/Fragments.v",
        "set iteration order is an arbitrary permutation (oracle); hash seeds only sample it",
    ]
    k2_and_k1a(ctx)
    base = ctx.seed * 100000
    n_frag = 220 if ctx.thorough else 44
    n_main = 60 if ctx.thorough else 10
    scs = []
    for i in range(n_frag):
        try:
            scs.append(frag_scen.make(base + i))
        except RuntimeError:
            run.dist("skipped", "fragment generator gave up")
    # regression case of the former finding C08-MRO (fixed in /repo 959c464)
    defs = ["query Q { dog { ...B ...A } }", "fragment A on Dog { id }", "fragment B on Dog { bark ...A }"]
    scs.insert(0, scenario.Scenario(seed=-8, sdl=frag_scen.SDL, queries="\n\n".join(defs) + "\n", config={},
                                    features=("frags",), files={"mixins_impl.py": frag_scen.MIXINS_PY},
                                    notes={"shape": "mro-regression", "n_frags": 2, "n_defs": 3, "defs": defs,
                                           "mixin_directives": 0}))
    defs2 = ["query Q { dog { ...C ...A } }", "fragment A on Dog { id }", "fragment B on Dog { bark ...A }",
             "fragment C on Dog { name ...B }"]
    scs.insert(1, scenario.Scenario(seed=-9, sdl=frag_scen.SDL, queries="\n\n".join(defs2) + "\n", config={},
                                    features=("frags",), files={"mixins_impl.py": frag_scen.MIXINS_PY},
                                    notes={"shape": "mro-regression", "n_frags": 3, "n_defs": 4, "defs": defs2,
                                           "mixin_directives": 0}))
    defs3 = ["query Q { dog { ...itemDetails } }", "fragment itemDetails on Dog { bark ...itemName }",
             "fragment itemName on Dog { name }"]
    defs4 = ["query Q { dog { ...A ...B } }", "fragment A on Dog { id mate { ...B } }", "fragment B on Dog { bark }"]
    # the documents of the Coq Examples (Properties/C08.v) replayed on the real generator
    defs5 = ["query One { animal { ...AF } }", "query Two { dog { ...AF ...Only } }",
             'fragment AF on Animal @mixin(from: "mixins_impl", import: "MixinA") { ...Base }',
             "fragment Base on Animal { name }", "fragment Only on Dog { ... on Dog { bark } }"]
    defs6 = ["query Q { dog { ...A @include(if: true) } }",
             "query R { dog { ... on Dog @include(if: true) { ...B } ...B ...A @skip(if: false) } }",
             "fragment A on Dog { id }", "fragment B on Dog { bark ...A }"]
    defs7 = ["query Q { dog { ...DOG_ALL } }", "fragment itemDetails on Dog { bark ...itemName }",
             "fragment itemName on Dog { name }", "fragment dog_extra_1 on Dog { ...itemDetails }",
             "fragment DOG_ALL on Dog { ...dog_extra_1 ...itemName }"]
    defs8 = ["query Q($c: Boolean!) { dog { ...G ...Audited @include(if: $c) } }", "fragment G on Dog { bark ...Audited }",
             'fragment Audited on Dog @mixin(from: "mixins_impl", import: "MixinA") { kind owner @mixin(from: "mixins_impl", import: "MixinB") { id } }']
    defs9 = ["query GetViewer { dog { name ... on Animal { ...AnimalFields } } }",
             "query GetNode { animal { ...AnimalFields ... on Dog { ... on Named { ...NamedFields } } } }",
             "query Chain { cat { ... on Animal { ... on Named { ...NamedFields } id } } }",
             "fragment AnimalFields on Animal { id }", "fragment NamedFields on Named { name }"]
    for k_, (nm_, ds_) in enumerate([("spread-inside-implemented-interface-condition-regression", defs9),
                                     ("readded-fragment-imports-regression", defs8), ("case-style-regression", defs3), ("nested-mention-regression", defs4),
                                     ("coq-example:package", defs5), ("coq-example:conditional", defs6),
                                     ("coq-example:case-styles", defs7)]):
        scs.insert(2 + k_, scenario.Scenario(seed=-10 - k_, sdl=frag_scen.SDL, queries="\n\n".join(ds_) + "\n", config={},
                                             features=("frags",), files={"mixins_impl.py": frag_scen.MIXINS_PY},
                                             notes={"shape": nm_, "n_frags": sum(d.startswith("fragment") for d in ds_),
                                                    "n_defs": len(ds_), "defs": ds_,
                                                    "mixin_directives": 0}))
    n1 = run_stream(ctx, scs, "frags", with_variants=True)
    mains = []
    for i in range(n_main):
        try:
            mains.append(scenario.make(base + 30000 + i, (), depth=3))
        except RuntimeError:
            run.dist("skipped", "main generator gave up")
    n2 = run_stream(ctx, mains, "main", with_variants=False)
    run.extra["packages_checked"] = {"frags": n1, "main": n2}
