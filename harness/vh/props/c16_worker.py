"""Subprocess side of the C16 check (fresh interpreter per batch).

  python -m vh.props.c16_worker gen   < jobs.json > results.json   run the real strategy
  python -m vh.props.c16_worker load  < jobs.json > results.json   exec / parse what it wrote
"""
from __future__ import annotations

import contextlib
import io
import json
import os
import runpy
import sys
import traceback


def do_gen(job):
    from ariadne_codegen.main import graphql_schema

    os.chdir(job["dir"])
    out = io.StringIO()
    try:
        with contextlib.redirect_stdout(out):
            graphql_schema(job["config"])
        return {"ok": True, "stdout": out.getvalue()}
    except BaseException as e:  # noqa: BLE001 - report everything, including SystemExit
        return {"ok": False, "error": f"{type(e).__name__}: {str(e)[:400]}",
                "traceback": traceback.format_exc()[-1500:]}


def first_diff(a, b, path="$"):
    if type(a) is not type(b):
        return f"{path}: {a!r} != {b!r}"
    if isinstance(a, list):
        if len(a) != len(b):
            return f"{path}: length {len(a)} != {len(b)}: {str(a)[:200]} / {str(b)[:200]}"
        for i, (x, y) in enumerate(zip(a, b)):
            d = first_diff(x, y, f"{path}[{i}]")
            if d:
                return d
        return None
    return None if a == b else f"{path}: {a!r} != {b!r}"


def do_load(job):
    from graphql import GraphQLSchema, build_ast_schema, build_client_schema, build_schema, parse, print_schema

    from vh.props import c16_enc

    res = {"ok": False}
    try:
        path = job["file"]
        if path.endswith(".py"):
            ns = runpy.run_path(path)
            if job["sn"] not in ns or job["tm"] not in ns:
                res["error"] = f"variables missing: {job['tm']!r} in module: {job['tm'] in ns}, {job['sn']!r}: {job['sn'] in ns}"
                return res
            schema = ns[job["sn"]]
            tm = ns[job["tm"]]
            if not isinstance(schema, GraphQLSchema):
                res["error"] = f"{job['sn']} is {type(schema).__name__}, not a GraphQLSchema"
                return res
            if job["tm"] != job["sn"]:
                res["tm_ok"] = isinstance(tm, dict) and all(schema.type_map.get(k) is v for k, v in tm.items()) \
                    and set(tm) == {k for k in schema.type_map if k not in c16_enc.STANDARD_TYPES}
        else:
            schema = build_schema(open(path, encoding="utf-8").read())
        res["struct"] = c16_enc.p_schema(schema, with_standard=False)
        try:
            res["printed"] = print_schema(schema)
        except Exception as e:  # noqa: BLE001
            res["print_error"] = f"{type(e).__name__}: {str(e)[:200]}"
        res["ok"] = True
    except BaseException as e:  # noqa: BLE001
        res["error"] = f"{type(e).__name__}: {str(e)[:400]}"
        res["traceback"] = traceback.format_exc()[-1500:]
    return res


def _write_sources(root, files, mtime):
    """(re)create the schema source under root: {relative path: text}; files not listed are removed;
    mtime (epoch seconds or None = now) is applied to every file and directory of the source"""
    import shutil

    src = os.path.join(root, "schema_src")
    if os.path.isdir(src):
        shutil.rmtree(src)
    os.makedirs(src)
    for rel, text in files.items():
        path = os.path.join(src, rel)
        os.makedirs(os.path.dirname(path), exist_ok=True)
        with open(path, "w", encoding="utf-8") as fh:
            fh.write(text)
    if mtime is not None:
        for d, _ds, fs in os.walk(src, topdown=False):
            for f in fs:
                os.utime(os.path.join(d, f), (mtime, mtime))
            os.utime(d, (mtime, mtime))


def _read(path):
    """file content, byte-exact (undecodable bytes survive as surrogate escapes); None if absent"""
    try:
        with open(path, "rb") as fh:
            return fh.read().decode("utf-8", "surrogateescape")
    except FileNotFoundError:
        return None


def _write_extra(root, extra):
    for rel, text in (extra or {}).items():
        path = os.path.join(root, rel)
        os.makedirs(os.path.dirname(path), exist_ok=True)
        with open(path, "w", encoding="utf-8") as fh:
            fh.write(text)


def do_client(job):
    from ariadne_codegen.main import client

    os.chdir(job["dir"])
    out = io.StringIO()
    try:
        with contextlib.redirect_stdout(out):
            client(job["config"])
        return {"ok": True}
    except BaseException as e:  # noqa: BLE001
        return {"ok": False, "error": f"{type(e).__name__}: {str(e)[:300]}"}


def do_history(job):
    """a sequence of strategy runs in ONE project directory and ONE process: graphql_schema() steps, with
    main.client() runs in between"""
    out = []
    prev = None
    for st in job["steps"]:
        rec = {}
        # a step that does not change the schema leaves its files alone (they stay older than the target)
        if not (st["files"] == prev and st["mtime"] is None):
            _write_sources(job["dir"], st["files"], st["mtime"])
        prev = st["files"]
        _write_extra(job["dir"], st.get("extra"))
        if st.get("kind") == "client":
            rec["client"] = do_client({"dir": job["dir"], "config": st["config"]})
        else:
            rec["run"] = do_gen({"dir": job["dir"], "config": st["config"]})
            target = st["config"]["tool"]["ariadne-codegen"]["target_file_path"]
            rec["text"] = _read(os.path.join(job["dir"], target))
        rec["others"] = {t: _read(os.path.join(job["dir"], t)) is not None for t in job["targets"]}
        out.append(rec)
    os.chdir("/")
    return out


def do_fresh(job):
    """one graphql_schema() run in a directory of its own; also lists what is left next to the target"""
    target = job["config"]["tool"]["ariadne-codegen"]["target_file_path"]
    tdir = os.path.join(job["dir"], os.path.dirname(target))
    os.makedirs(tdir, exist_ok=True)
    _write_sources(job["dir"], job["files"], None)
    rec = {"run": do_gen({"dir": job["dir"], "config": job["config"]})}
    rec["text"] = _read(os.path.join(job["dir"], target))
    rec["listing"] = sorted(os.listdir(tdir))
    import locale

    rec["encoding"] = locale.getpreferredencoding(False)
    os.chdir("/")
    return rec


def main():
    mode = sys.argv[1]
    jobs = json.load(sys.stdin)
    fn = {"gen": do_gen, "load": do_load, "history": do_history, "fresh": do_fresh}[mode]
    out = []
    real_stdout = sys.stdout
    for j in jobs:
        try:
            out.append(fn(j))
        except BaseException as e:  # noqa: BLE001
            out.append({"ok": False, "error": f"worker: {type(e).__name__}: {e}"})
    json.dump(out, real_stdout)


if __name__ == "__main__":
    main()
