"""C19 — The schema source does not change the generated client.

K1  Model/Loader.v vs schema.py on real directory trees (which entries are taken, in which order,
    joined text, which error and for which file), Path.suffix / Path ordering (exhaustive / random),
    type map of the loaded definitions vs build_ast_schema;
    Model/Introspect.v vs get_graphql_schema_from_url over a loopback HTTP server and real httpx
    (status x body class x errors shape x data shape, URL classes), resolve_headers under a scripted
    environment; field-default decisions vs the generated input_types.py on both routes.
K2  what the model assumes of graphql-core: parse(join) = concatenation of the per-file definitions,
    build_client_schema(introspection(S)) keeps default values, loses AST nodes and deprecated inputs.
K3  the property itself on the real generator: one schema generated from one file, from k-way splits in
    nested directories with shuffled names and all three extensions, and from introspection (loopback
    server thread, with/without descriptions, headers with $ENV, TLS with verify on/off); packages
    compared class by class after parsing with `ast`.

The model follows /repo after the fixes 4077122 / 4fe57ef / 6530558; the former witnesses of the fixed finding
classes (defaults via introspection, malformed data, URL without scheme, directory named like a schema file) stay
in the streams as regression cases: a failure there is a VIOLATION."""
from __future__ import annotations

import itertools
import json
import os
import shutil
import subprocess
import tempfile
import threading
from concurrent.futures import ThreadPoolExecutor
from http.server import BaseHTTPRequestHandler, ThreadingHTTPServer
from pathlib import Path, PurePosixPath

from .. import model
from ..sexp import Sym, json_sx, opt
from . import c19_gen

ENG = "C19"
EXTS = (".graphql", ".graphqls", ".gql")


def L(*a):
    return [Sym("loader"), *a]


def I(*a):
    return [Sym("introspect"), *a]


def T(*a):
    return [Sym("toplevel"), *a]


# =============================================================== token level (Model/TopLevel.v)
KW_OF_NODE = {"SchemaDefinitionNode": "schema", "ScalarTypeDefinitionNode": "scalar", "ObjectTypeDefinitionNode": "type",
              "InterfaceTypeDefinitionNode": "interface", "UnionTypeDefinitionNode": "union", "EnumTypeDefinitionNode": "enum",
              "InputObjectTypeDefinitionNode": "input", "DirectiveDefinitionNode": "directive",
              "SchemaExtensionNode": "schema", "ScalarTypeExtensionNode": "scalar", "ObjectTypeExtensionNode": "type",
              "InterfaceTypeExtensionNode": "interface", "UnionTypeExtensionNode": "union", "EnumTypeExtensionNode": "enum",
              "InputObjectTypeExtensionNode": "input"}


def lex(text):
    """graphql-core's token stream (comments skipped) in the model's alphabet; None if it does not lex."""
    from graphql import GraphQLSyntaxError, Lexer, Source, TokenKind

    m = {TokenKind.PAREN_L: "(", TokenKind.BRACE_L: "{", TokenKind.BRACKET_L: "[", TokenKind.PAREN_R: ")",
         TokenKind.BRACE_R: ")", TokenKind.BRACKET_R: ")", TokenKind.AT: "@", TokenKind.AMP: "&", TokenKind.PIPE: "|",
         TokenKind.EQUALS: "=", TokenKind.STRING: "s", TokenKind.BLOCK_STRING: "s"}
    out = []
    try:
        lx = Lexer(Source(text))
        while True:
            t = lx.advance()
            if t.kind == TokenKind.EOF:
                return out
            out.append([Sym("n"), t.value] if t.kind == TokenKind.NAME else m.get(t.kind, "o"))
    except GraphQLSyntaxError:
        return None


def parser_split(text):
    """graphql-core's own split of a type-system document: [(token count, ext, keyword, name)]; None if the text does
    not parse or holds an executable definition."""
    from graphql import GraphQLSyntaxError, TokenKind, parse

    try:
        doc = parse(text)
    except GraphQLSyntaxError:
        return None
    out = []
    for d in doc.definitions:
        kind = type(d).__name__
        if kind not in KW_OF_NODE:
            return None
        n, t = 0, d.loc.start_token
        while True:
            if t.kind != TokenKind.COMMENT:
                n += 1
            if t is d.loc.end_token:
                break
            t = t.next
        kw = KW_OF_NODE[kind]
        name = "schema" if kw == "schema" else ("@" if kw == "directive" else "") + d.name.value
        out.append((n, "Extension" in kind, kw, name))
    return out


def tok_key(ts):
    return [t if isinstance(t, str) else ("n", t[1]) for t in ts]


def k2_tokens(run, texts, where):
    """For the files of one load (in load order): lexing the join = concatenating the token streams, and the automaton
    of Model/TopLevel.v cuts every document - each file and the join - where graphql-core's parser does."""
    toks = [lex(t) for t in texts]
    if any(t is None for t in toks):
        return
    joined = "\n".join(texts)
    jt = lex(joined)
    run.count()
    if jt is None or tok_key(jt) != tok_key([x for t in toks for x in t]):
        run.broken("K2 lex(join) != concat(lex)", json.dumps({"where": where, "texts": texts})[:1500])
        return
    docs = list(zip(texts, toks)) + [(joined, jt)]
    res = model.batch(ENG, [T(Sym("split"), t) for _x, t in docs])
    # the same from the TEXT: Gql/Lex.v + Model/TopLevel.v entirely inside the model (Model/LexTop.v)
    ascii_docs = [x for x, _t in docs if x.isascii()]
    res_text = dict(zip(ascii_docs, model.batch(ENG, [[Sym("lextop"), Sym("split-text"), x] for x in ascii_docs])))
    per_file = []
    for (text, _t), r in zip(docs, res):
        want = parser_split(text)
        if want is None:
            per_file.append(None)
            continue
        run.dist("toplevel_documents", "type-system document")
        got = None if r[0] != "ok" else [(int(n), sm[0] == "t", sm[1], sm[2]) if sm != "none" else (int(n),) for n, sm in r[1]]
        per_file.append(got)
        rt = res_text.get(text)
        if rt is not None:
            got_t = None if rt[0] != "ok" else [(int(n), sm[0] == "t", sm[1], sm[2]) if sm != "none" else (int(n),) for n, sm in rt[1]]
            run.dist("toplevel_documents", "lexed and split inside the model")
            if got_t != want:
                run.broken("K2 Gql/Lex.v + Model/TopLevel.v (from text) split a document differently from graphql-core's parser",
                           json.dumps({"where": where, "text": text, "parser": want, "model": got_t, "raw": rt if rt[0] != "ok" else None})[:1800])
                return
        if got != want:
            run.broken("K2 Model/TopLevel.v splits a document differently from graphql-core's parser",
                       json.dumps({"where": where, "text": text, "parser": want, "model": got})[:1800])
            return
    # the theorem's conclusion, observed on the real parser: join = concatenation
    if all(p is not None for p in per_file[:-1]) and per_file[-1] is not None:
        if [x for p in per_file[:-1] for x in p] != per_file[-1]:
            run.broken("parse(join) is not the concatenation although every file is a type-system document",
                       json.dumps({"where": where, "texts": texts})[:1500])
        else:
            run.dist("toplevel_documents", "join == concatenation (files)", len(texts))


TRICKY_DOCS = [
    "type type { input: enum }", "union union = type | input", "enum enum { type schema }", "scalar scalar @specifiedBy(url: \"x\")",
    "directive @d(a: Int = 1 @x, b: [String!] = [\"type\"]) repeatable on FIELD | OBJECT", "directive @e on | QUERY",
    "extend schema @a", "extend schema { mutation: M }", "extend union U = | A | B", "interface I implements & J & K { a: Int }",
    "schema @d(x: {a: 1}) { query: Q }", '\"\"\"block\ndescription\"\"\" type T implements I @a @b(x: 1) { a(x: Int = 1): Int @c }',
    "extend type T @d", "extend input In { a: Int = 1 }", '"d" directive @on on FIELD', "type implements implements on & repeatable",
    "union extend = directive", "enum E @a { A @deprecated B }", "input on { on: on = on }", "extend interface I implements J",
    '"desc" type type implements I & J @d(x: {}) { input: enum } union U = | type | B',
    "extend schema @a directive @on repeatable on FIELD | OBJECT",      # the documents of Example C19_join_hypotheses_met
    # the texts of Example C19_text_join_hypotheses_met
    '"""a block\ndescription""" type type implements I & J @d(x: {}) { input: enum }  # trailing comment, no line feed',
    "extend schema @a\ndirective @on repeatable on FIELD | OBJECT",
    "type Foo", "type Foo # trailing comment", "scalar S", "union U @a", "enum E", "input I", "interface I",
]


def k2_tricky_docs(ctx):
    run, rng = ctx.run, ctx.rng
    for _ in range(400 if ctx.thorough else 80):
        k2_tokens(run, [rng.choice(TRICKY_DOCS) for _ in range(rng.randint(1, 5))], "tricky")
    for d in TRICKY_DOCS:
        k2_tokens(run, [d], "tricky-single")
    # the hypothesis of the theorem is needed: a second "file" that is an executable document starting with `{`
    # continues the body-less definition before it (replay of the Example C19_join_needs_documents on the real parser)
    from graphql import parse

    # texts that do not lex (the side condition of C19_tokens_join): both lexers refuse them
    for bad in ('"unterminated', 'type T { a: Int } """open block', 'type T { a: "x\ny" }'):
        r = model.call(ENG, [Sym("lextop"), Sym("count-tokens"), bad])
        run.count()
        if (lex(bad) is None) != (r == "no-lex"):
            run.broken("K2 lexers disagree on a text that should not lex", f"{bad!r}: graphql-core {lex(bad)}, model {r}")
    a, b = "type Foo", "{ a: b }"
    real = [len(parse(x).definitions) for x in (a, b, a + "\n" + b)]
    m = model.batch(ENG, [T(Sym("split"), lex(x)) for x in (a, b, a + "\n" + b)])
    run.count()
    if real != [1, 1, 1] or m[0][0] != "ok" or m[1][0] != "reject" or m[2][0] != "ok" or len(m[2][1]) != 1:
        run.broken("hazard example (type Foo + { a: b })", f"parser {real}, model {m}")


# =============================================================== encoders
def enc_type(t):
    from graphql import GraphQLList, GraphQLNonNull

    if isinstance(t, GraphQLNonNull):
        return [Sym("nn"), enc_type(t.of_type)]
    if isinstance(t, GraphQLList):
        return [Sym("list"), enc_type(t.of_type)]
    return [Sym("named"), t.name]


def enc_type_node(t):
    from graphql import ListTypeNode, NonNullTypeNode

    if isinstance(t, NonNullTypeNode):
        return [Sym("nn"), enc_type_node(t.type)]
    if isinstance(t, ListTypeNode):
        return [Sym("list"), enc_type_node(t.type)]
    return [Sym("named"), t.name.value]


def enc_const(node):
    from graphql import (BooleanValueNode, EnumValueNode, FloatValueNode, IntValueNode, ListValueNode,
                         NullValueNode, ObjectValueNode, StringValueNode)

    if isinstance(node, IntValueNode):
        return [Sym("i"), int(node.value)]
    if isinstance(node, FloatValueNode):
        return [Sym("f"), node.value]
    if isinstance(node, StringValueNode):
        return [Sym("s"), node.value]
    if isinstance(node, BooleanValueNode):
        return [Sym("b"), bool(node.value)]
    if isinstance(node, NullValueNode):
        return Sym("n")
    if isinstance(node, EnumValueNode):
        return [Sym("e"), node.value]
    if isinstance(node, ListValueNode):
        return [Sym("l")] + [enc_const(v) for v in node.values]
    if isinstance(node, ObjectValueNode):
        return [Sym("o")] + [[f.name.value, enc_const(f.value)] for f in node.fields]
    raise TypeError(type(node))


def enc_pyvalue(v):
    if v is None:
        return Sym("n")
    if isinstance(v, bool):
        return [Sym("b"), v]
    if isinstance(v, int):
        return [Sym("i"), v]
    if isinstance(v, float):
        return [Sym("f"), repr(v)]
    if isinstance(v, str):
        return [Sym("s"), v]
    if isinstance(v, (list, tuple)):
        return [Sym("l")] + [enc_pyvalue(x) for x in v]
    if isinstance(v, dict):
        return [Sym("o")] + [[k, enc_pyvalue(x)] for k, x in v.items()]
    return [Sym("s"), repr(v)]


def is_deprecated_node(n):
    return any(d.name.value == "deprecated" for d in (getattr(n, "directives", None) or ()))


def enc_input_value_node(f):
    """InputValueDefinitionNode -> ifield sexp (value default unknown at AST level: mirrors ast default)."""
    ad = opt(enc_const(f.default_value)) if f.default_value is not None else None
    return [f.name.value, enc_type_node(f.type), ad, ad, True, is_deprecated_node(f)]


def enc_defn(d):
    """graphql-core definition node -> (ext name kind header members) and the printed member texts."""
    from graphql import print_ast

    kind = type(d).__name__
    ext = "Extension" in kind
    k = kind.replace("TypeDefinitionNode", "").replace("TypeExtensionNode", "").replace("DefinitionNode", "") \
        .replace("ExtensionNode", "").lower()
    nm = getattr(d, "name", None)
    name = nm.value if nm is not None else ""
    if k == "schema":
        name = "schema"
    if k == "directive":
        name = "@" + name
    header = " ".join(print_ast(i) for i in (getattr(d, "interfaces", None) or ())) + "|" + \
             " ".join(print_ast(i) for i in (getattr(d, "directives", None) or ()))
    members = []
    if k == "inputobject":
        members = [[Sym("in"), enc_input_value_node(f)] for f in (d.fields or ())]
    elif k in ("object", "interface"):
        members = [[Sym("op"), print_ast(f)] for f in (d.fields or ())]
    elif k == "enum":
        members = [[Sym("op"), print_ast(v)] for v in (d.values or ())]
    elif k == "union":
        members = [[Sym("op"), print_ast(t)] for t in (d.types or ())]
    return [ext, name, k, header, members]


def enc_entry(comps, isdir, text):
    from graphql import GraphQLSyntaxError, parse

    defs = None
    if not isdir:
        try:
            doc = parse(text)
            defs = [Sym("some"), [enc_defn(d) for d in doc.definitions]]
        except GraphQLSyntaxError:
            defs = None
    return [list(comps), bool(isdir), text if not isdir else "", defs]


def real_type_map(schema):
    """GraphQLSchema -> {name: (kind, [member texts / input field names])} for SDL-defined types."""
    from graphql import (GraphQLEnumType, GraphQLInputObjectType, GraphQLInterfaceType, GraphQLObjectType,
                         GraphQLScalarType, GraphQLUnionType, print_ast)

    out = {}
    for name, t in schema.type_map.items():
        if name.startswith("__") or t.ast_node is None:
            continue
        if isinstance(t, GraphQLInputObjectType):
            out[name] = ("inputobject", [("in", n, print_ast(f.ast_node)) for n, f in t.fields.items()])
        elif isinstance(t, (GraphQLObjectType, GraphQLInterfaceType)):
            k = "object" if isinstance(t, GraphQLObjectType) else "interface"
            out[name] = (k, [("op", print_ast(f.ast_node)) for f in t.fields.values()])
        elif isinstance(t, GraphQLEnumType):
            out[name] = ("enum", [("op", print_ast(v.ast_node)) for v in t.values.values()])
        elif isinstance(t, GraphQLUnionType):
            out[name] = ("union", [("op", m.name) for m in t.types])
        elif isinstance(t, GraphQLScalarType):
            out[name] = ("scalar", [])
    return out


def model_type_map(res):
    out = {}
    for name, kind, _header, members in res:
        if kind in ("schema", "directive"):
            continue
        ms = []
        for m in members:
            if m[0] == "in":
                ms.append(("in", m[1][0]))
            else:
                ms.append(("op", m[1]))
        out[name] = (kind, ms)
    return out


# =============================================================== 0. model data vs /repo's source text
MESSAGE_PREFIXES = {
    "Invalid remote schema url": "invalid-url", "Failure of remote schema introspection": "status",
    "Introspection result is not a valid json": "not-json", "Invalid introspection result format": "format",
    "Introspection errors": "errors", "Invalid data key": "data-key", "Invalid or incomplete introspection result": "build",
}


def k_source_constants(ctx):
    """Constants the model carries as data are re-derived from the source text of /repo on every run (fail closed when
    the shape of the code no longer allows the derivation)."""
    import ast as pyast

    run = ctx.run
    repo = os.environ.get("VERIF_REPO", "/repo")
    derived = {}

    def func(tree, name):
        for n in pyast.walk(tree):
            if isinstance(n, pyast.FunctionDef) and n.name == name:
                return n
        raise LookupError(f"function {name} not found")

    try:
        schema_src = pyast.parse(open(os.path.join(repo, "ariadne_codegen", "schema.py")).read())
        settings_src = pyast.parse(open(os.path.join(repo, "ariadne_codegen", "settings.py")).read())
        # walk_graphql_files: extensions = (...); `.suffix in extensions`
        w = func(schema_src, "walk_graphql_files")
        exts = [n for n in pyast.walk(w) if isinstance(n, pyast.Assign) and isinstance(n.targets[0], pyast.Name)
                and n.targets[0].id == "extensions"]
        derived["extensions"] = list(pyast.literal_eval(exts[0].value))
        tests = [pyast.unparse(n) for n in pyast.walk(w) if isinstance(n, pyast.Compare)]
        if not any(".suffix in extensions" in t for t in tests):
            raise LookupError(f"walk_graphql_files no longer tests `.suffix in extensions`: {tests}")
        # load_graphql_files_from_path: "<sep>".join(...), sorted(walk_graphql_files(path))
        ld = func(schema_src, "load_graphql_files_from_path")
        joins = [n for n in pyast.walk(ld) if isinstance(n, pyast.Call) and isinstance(n.func, pyast.Attribute)
                 and n.func.attr == "join" and isinstance(n.func.value, pyast.Constant)]
        derived["join_sep"] = joins[0].func.value.value
        if "sorted(walk_graphql_files(path))" not in pyast.unparse(ld):
            raise LookupError("load_graphql_files_from_path no longer iterates sorted(walk_graphql_files(path))")
        # introspect_remote_schema: options of get_introspection_query, messages of the raises
        it = func(schema_src, "introspect_remote_schema")
        q = [n for n in pyast.walk(it) if isinstance(n, pyast.Call) and getattr(n.func, "id", "") == "get_introspection_query"][0]
        derived["query_options"] = {k.arg: pyast.literal_eval(k.value) for k in q.keywords}
        msgs = []
        for fn in (it, func(schema_src, "get_graphql_schema_from_url")):
            for n in pyast.walk(fn):
                if isinstance(n, pyast.Raise) and isinstance(n.exc, pyast.Call) and getattr(n.exc.func, "id", "") == "IntrospectionError":
                    a = n.exc.args[0]
                    if isinstance(a, pyast.JoinedStr):
                        a = a.values[0]
                    elif isinstance(a, pyast.BinOp):
                        a = a.left
                    msgs.append(a.value if isinstance(a, pyast.Constant) else pyast.unparse(a))
        derived["messages"] = msgs
        handlers = [pyast.unparse(h.type) for n in pyast.walk(func(schema_src, "get_graphql_schema_from_url"))
                    if isinstance(n, pyast.Try) for h in n.handlers]
        derived["translated_exceptions"] = handlers
        # get_header_value: env_var_prefix
        hv = func(settings_src, "get_header_value")
        pref = [n for n in pyast.walk(hv) if isinstance(n, pyast.Assign) and getattr(n.targets[0], "id", "") == "env_var_prefix"]
        derived["env_var_prefix"] = pyast.literal_eval(pref[0].value)
        body = pyast.unparse(hv)
        for needle in ("value.startswith(env_var_prefix)", "value.lstrip(env_var_prefix)", "if not var_value"):
            if needle not in body:
                raise LookupError(f"get_header_value no longer contains `{needle}`")
    except Exception as e:  # noqa
        run.broken("source-derived constants", f"cannot derive the model's data from the source any more: {type(e).__name__}: {e}")
        return
    m_exts, m_sep = model.call(ENG, L(Sym("constants")))
    m_prefix, m_flags = model.call(ENG, I(Sym("constants")))
    names = ["descriptions", "specified_by_url", "directive_is_repeatable", "schema_description", "input_value_deprecation"]
    m_opts = {n: v == "t" for n, v in zip(names, m_flags)}
    run.count(5)
    if derived["extensions"] != m_exts:
        run.violation(f"source: extensions {derived['extensions']} vs model {m_exts}", {"derived": derived}, found_input=False)
    if derived["join_sep"] != m_sep:
        run.violation(f"source: join separator {derived['join_sep']!r} vs model {m_sep!r}", {"derived": derived}, found_input=False)
    from graphql import get_introspection_query
    import inspect

    defaults = {k: p.default for k, p in inspect.signature(get_introspection_query).parameters.items()}
    if {**defaults, **derived["query_options"]} != {**defaults, **m_opts}:
        run.violation(f"source: introspection query options {derived['query_options']} vs model {m_opts}", {"derived": derived},
                      found_input=False)
    if derived["env_var_prefix"] != m_prefix:
        run.violation(f"source: env_var_prefix {derived['env_var_prefix']!r} vs model {m_prefix!r}", {"derived": derived}, found_input=False)
    unknown = [m for m in derived["messages"] if not any(m.startswith(p) for p in MESSAGE_PREFIXES)]
    unused = [p for p in MESSAGE_PREFIXES if not any(m.startswith(p) for m in derived["messages"])]
    if unknown or unused or len(derived["messages"]) != len(MESSAGE_PREFIXES):
        run.broken("source-derived constants", f"IntrospectionError messages in the source {derived['messages']} no longer match the "
                                               f"outcome table of the tie (unknown {unknown}, unused {unused})")
    # library side: the keywords that begin a type-system definition (Model/TopLevel.v def_keywords)
    try:
        from graphql.language.parser import Parser

        lib = set(Parser._parse_type_system_definition_method_names) | {"extend"}
        if set(model.call(ENG, T(Sym("keywords")))) != lib:
            run.broken("K2 definition keywords", f"graphql-core {sorted(lib)} vs model")
        derived["definition_keywords"] = sorted(lib)
    except AttributeError:
        derived["definition_keywords"] = "graphql-core internals not available (checked by the token K2 only)"
    run.extra["derived_from_source"] = derived


# =============================================================== 1. suffix, path order
def k_suffix_and_order(ctx):
    run = ctx.run
    names = []
    alpha = "a.gq"
    maxlen = 8 if ctx.thorough else 7
    for n in range(1, maxlen + 1):
        names.extend("".join(t) for t in itertools.product(alpha, repeat=n))
    names = [n for n in names if n not in (".", "..")]
    names += ["schema.graphql", "a.graphqls", "x.gql", ".graphql", "a.graphql.bak", "a..gql", ".a.gql", "a.", "gql",
              "a.GQL", "é.gql", "a b.graphql", "...", "..gql", "a.gql.", "graphql", ".gql.gql"]
    res = model.batch(ENG, [L(Sym("suffix"), n) for n in names])
    bad = 0
    for n, r in zip(names, res):
        run.count()
        want = PurePosixPath(n).suffix
        if r != want:
            bad += 1
            if bad <= 5:
                taken_real = want in EXTS
                taken_model = r in EXTS
                run.violation(f"K1 Path.suffix({n!r}) = {want!r}, model {r!r}", {"name": n, "impl": want, "model": r},
                              found_input=taken_real != taken_model)
    run.extra["suffix_names_exhaustive"] = len(names)
    # ordering of paths: PurePath comparison vs the model's component-wise order
    rng = ctx.rng
    comps = ["a", "b", "a.b", "a-b", "a b", "A", "Z", "a0", ".h", "é", "ab", "a.graphql", "b.gql", "", "~", "0"]
    pairs = []
    for _ in range(3000 if ctx.thorough else 800):
        p = [rng.choice(comps[:-3] + comps[-2:]) for _ in range(rng.randint(1, 4))]
        q = [rng.choice(comps[:-3] + comps[-2:]) for _ in range(rng.randint(1, 4))]
        if rng.random() < 0.3:
            q = p[: rng.randint(1, len(p))] + ([rng.choice(comps[:5])] if rng.random() < 0.5 else [])
        pairs.append((p, q))
    res = model.batch(ENG, [L(Sym("path-leb"), p, q) for p, q in pairs])
    for (p, q), r in zip(pairs, res):
        run.count()
        want = PurePosixPath("/root", *p) <= PurePosixPath("/root", *q)
        if (r == "t") != want:
            run.violation(f"K1 path order {p} <= {q}: pathlib {want}, model {r}", {"p": p, "q": q}, found_input=False)
            break
    run.dist("k1", "path_pairs", len(pairs))


# =============================================================== 2. loader on real trees
DIRNAMES = ["a", "b", "a.b", "a-b", "a b", "A", "Z", "a0", ".h", "é", "sub", "types"]
SUFFIXED_DIRS = ["v1.graphql", "x.gql", "old.graphqls"]
STEMS = ["schema", "a", "b", "zz", "A", "0", "types.v2", "x-1", "_", "é", ".a", "a."]
FILE_EXTS = [".graphql", ".graphqls", ".gql", ".graphql", ".gql", ".GQL", ".graphql.bak", ".txt", "", ".gq",
             ".graphqlx", "."]
SPECIAL = [".graphql", ".gql", "a..gql", "gql", "graphql", "README.md"]


def gen_tree(rng, with_suffixed_dir, with_bad, many=False):
    dirs = {()}
    for _ in range(rng.randint(0, 6)):
        base = rng.choice(sorted(dirs))
        pool = DIRNAMES + (SUFFIXED_DIRS if with_suffixed_dir else [])
        dirs.add(base + (rng.choice(pool),))
    if with_suffixed_dir and not any(d and d[-1] in SUFFIXED_DIRS for d in dirs):
        dirs.add((rng.choice(SUFFIXED_DIRS),))
    files = {}
    n = 0
    for k in range(rng.randint(20, 90) if many else rng.randint(1, 9)):
        d = rng.choice(sorted(dirs))
        name = rng.choice(SPECIAL) if rng.random() < 0.12 else rng.choice(STEMS) + rng.choice(FILE_EXTS)
        if many:   # a schema split into MANY files (more than any plausible batching threshold)
            name = rng.choice(STEMS) + str(k) + rng.choice(EXTS)
        if name in (".", "..", ""):
            continue
        p = d + (name,)
        if p in dirs or p in files:
            continue
        n += 1
        r = rng.random()
        if with_bad and r < 0.25:
            text = rng.choice(["type {", "", "# only a comment\n", "type T { a: }", "\"unterminated"])
        elif r < 0.35:
            text = f"# c\nextend type T{n} {{ x{n}: Int }}"
        elif r < 0.45:
            text = f"type T{n} {{ a: Int }}\nenum E{n} {{ A B }}\n"
        elif r < 0.5:
            text = f"query Q{n} {{ a }}"
        else:
            text = f"type T{n} {{ a: Int }}" + rng.choice(["", "\n", "\n\n", " # trailing comment"])
        files[p] = text
    return sorted(d for d in dirs if d), files


def materialise(root, dirs, files):
    for d in dirs:
        os.makedirs(os.path.join(root, *d), exist_ok=True)
    for p, text in files.items():
        with open(os.path.join(root, *p), "w", encoding="utf-8") as fh:
            fh.write(text)


def real_load(root):
    from ariadne_codegen.exceptions import InvalidGraphqlSyntax
    from ariadne_codegen.schema import load_graphql_files_from_path

    try:
        return ["ok", load_graphql_files_from_path(Path(root))]
    except InvalidGraphqlSyntax as e:
        msg = str(e)
        p = msg.split(" in file ", 1)[1] if " in file " in msg else msg
        try:
            return ["err", "syntax", list(Path(p).relative_to(root).parts)]
        except ValueError:
            return ["err", "syntax", [p]]
    except IsADirectoryError as e:
        return ["err", "isdir", list(Path(e.filename).relative_to(root).parts)]
    except Exception as e:  # noqa
        return ["err", "other:" + type(e).__name__, []]


def k_loader(ctx, tmp):
    from ariadne_codegen.schema import walk_graphql_files
    from graphql import parse

    run, rng = ctx.run, ctx.rng
    ntrees = 2500 if ctx.thorough else 220
    cases = []
    for i in range(ntrees):
        with_sd = i % 6 == 0
        with_bad = i % 3 == 1
        dirs, files = gen_tree(rng, with_sd, with_bad and i % 8 != 5, many=i % 8 == 5)
        root = os.path.join(tmp, f"t{i}")
        os.makedirs(root)
        materialise(root, dirs, files)
        entries = [enc_entry(d, True, "") for d in dirs] + [enc_entry(p, False, t) for p, t in files.items()]
        rng.shuffle(entries)  # glob order is unspecified: the model must not depend on it
        cases.append((root, dirs, files, entries))
    cmds = []
    for root, dirs, files, entries in cases:
        cmds.append(L(Sym("walk"), entries))
        cmds.append(L(Sym("load-dir"), entries))
    res = model.batch(ENG, cmds)
    nfind = 0
    for ci, (root, dirs, files, entries) in enumerate(cases):
        run.count()
        mw, (ml, mdefs) = res[2 * ci], res[2 * ci + 1]
        r_walk = [list(p.relative_to(root).parts) for p in sorted(walk_graphql_files(Path(root)))]
        r_load = real_load(root)
        replay = {"tree": {"dirs": ["/".join(d) for d in dirs], "files": {"/".join(p): t for p, t in files.items()}},
                  "impl": {"walk": r_walk, "load": r_load}}

        nsel = len(r_walk)
        run.dist("loader_selected_files", str(nsel) if nsel <= 6 else "7-16" if nsel <= 16 else "17-32" if nsel <= 32 else "33+")
        run.dist("loader_outcome", r_load[0] if r_load[0] == "ok" else r_load[1])
        has_sd = any(d and d[-1].endswith(EXTS) for d in dirs)
        if has_sd:
            nfind += 1
            run.dist("regression_inputs", "dir-with-extension (former F19-dir-suffix)")
        if mw != r_walk or ml != r_load:
            # search: does the property fail here?  (a crash, a missing file, another order of whole files)
            fail = (r_load[0] == "err" and r_load[1] != "syntax") or (
                r_load[0] == "ok" and ml[0] == "ok" and sorted(r_load[1].split("\n")) != sorted(ml[1].split("\n")))
            run.violation(f"K1 loader disagrees: impl walk {r_walk} load {str(r_load)[:200]} / model walk {mw} load {str(ml)[:200]}",
                          {**replay, "model": {"walk": mw, "load": ml}}, found_input=fail)
        if r_load[0] == "ok" and nsel == 0:
            run.dist("loader_outcome", "no-file-selected(empty text)")
        if r_load[0] == "ok" and nsel > 0:
            # K2: parse(joined text) is the concatenation of the per-file definition lists
            names_model = [(d[0] == "t", d[1]) for d in mdefs]
            try:
                doc = parse(r_load[1])
                names_real = [("Extension" in type(d).__name__, enc_defn(d)[1]) for d in doc.definitions]
            except Exception as e:  # noqa
                names_real = f"{type(e).__name__}"
            if names_real != names_model:
                run.broken("K2 parse(join) != concat of per-file definitions", json.dumps({**replay, "model": names_model, "real": names_real})[:1500])
            if nsel >= 2:
                run.nontrivial_case(("tree", ci))
            k2_tokens(run, [files[tuple(p)] for p in r_walk], "loader tree")
        shutil.rmtree(root, ignore_errors=True)
    # single file: no extension filter
    single = [("schema.txt", "type Q { a: Int }"), ("noext", "type Q { a: Int }"), ("bad.graphql", "type {"), ("e.gql", "")]
    for name, text in single:
        root = os.path.join(tmp, "single")
        os.makedirs(root, exist_ok=True)
        with open(os.path.join(root, name), "w") as fh:
            fh.write(text)
        from ariadne_codegen.exceptions import InvalidGraphqlSyntax
        from ariadne_codegen.schema import load_graphql_files_from_path

        try:
            r = ["ok", load_graphql_files_from_path(Path(root, name))]
        except InvalidGraphqlSyntax:
            r = ["err", "syntax", [name]]
        mres = model.call(ENG, L(Sym("load-file"), enc_entry([name], False, text)))
        run.count()
        if mres != r:
            run.violation(f"K1 load of a single file {name!r}: impl {r} model {mres}", {"name": name, "text": text}, found_input=False)
    run.extra["loader_trees"] = ntrees
    run.extra["loader_dir_with_extension_cases"] = nfind


# =============================================================== 3. headers
def k_headers(ctx):
    from ariadne_codegen.exceptions import InvalidConfiguration
    from ariadne_codegen.settings import resolve_headers

    run, rng = ctx.run, ctx.rng
    env = {"C19_VAR": "value", "C19_EMPTY": "", "C19_VAR2": "$C19_VAR", "C19_SP": " spaced ", "C19_UNI": "é"}
    values = ["plain", "$C19_VAR", "$$C19_VAR", "$", "$C19_MISSING", "$C19_EMPTY", "Bearer $C19_VAR", "", " $C19_VAR",
              "$C19_VAR2", "$C19_SP", "C19_VAR", "$C19_VAR ", "$c19_var", "$C19_UNI", "a$C19_VAR"]
    keys = ["Authorization", "X-Api-Key", "x-a", "Cookie", "X-B"]
    cases = [[(k, v)] for k in keys[:1] for v in values]
    for _ in range(1500 if ctx.thorough else 300):
        ks = rng.sample(keys, rng.randint(0, 4))
        cases.append([(k, rng.choice(values[:3] + values if rng.random() < 0.5 else values[:3] + values[6:7])) for k in ks])
    envl = [[k, v] for k, v in env.items()]
    res = model.batch(ENG, [I(Sym("headers"), envl, [[k, v] for k, v in c]) for c in cases])
    old = dict(os.environ)
    os.environ.update(env)
    os.environ.pop("C19_MISSING", None)
    try:
        for c, r in zip(cases, res):
            run.count()
            try:
                real = ["ok", [[k, v] for k, v in resolve_headers(dict(c)).items()]]
            except InvalidConfiguration as e:
                msg = str(e)
                real = ["err", msg[len("Environment variable "):-len(" not found.")] if msg.startswith("Environment variable ") else msg]
            run.dist("headers_outcome", real[0])
            if any(v.startswith("$") for _, v in c):
                run.nontrivial_case(("hdr", tuple(c)))
            if real != r:
                # property oracle: configured headers with $ENV substitution are what is sent
                run.violation(f"K1 resolve_headers({dict(c)}) = {real}, model {r}", {"headers": c, "env": env, "impl": real, "model": r},
                              found_input=real[0] == "ok")
    finally:
        os.environ.clear()
        os.environ.update(old)
    # replay of the witness of C19_resolve_not_idempotent on the real function
    os.environ.update({"C19_A": "$C19_B", "C19_B": "b"})
    try:
        once = resolve_headers({"H": "$C19_A"})
        twice = resolve_headers(once)
        run.count()
        if once != {"H": "$C19_B"} or twice != {"H": "b"}:
            run.violation(f"witness of C19_resolve_not_idempotent: resolve once {once}, twice {twice}", {"once": once, "twice": twice},
                          found_input=False)
    finally:
        os.environ.pop("C19_A", None)
        os.environ.pop("C19_B", None)
    run.extra["header_cases"] = len(cases)


# =============================================================== 3b. histories over one configuration object
H_VALUES = ["plain", "$C19_H1", "$C19_H2", "$$C19_H1", "Bearer $C19_H1", "$C19_CHAIN"]
H_ENVVALS = ["tok-1", "tok-2", "tok-3", "", None, "$C19_H1", "$literal"]


def gen_history(rng):
    keys = rng.sample(["Authorization", "X-Api-Key", "x-a", "Cookie"], rng.randint(1, 3))
    headers = {k: rng.choice(H_VALUES) for k in keys}
    envs = []
    for _ in range(rng.randint(2, 5)):
        env = {}
        for name in ("C19_H1", "C19_H2", "C19_CHAIN"):
            v = rng.choice(H_ENVVALS[:3] + H_ENVVALS)
            if v is not None:
                env[name] = v
        envs.append(env)
    return headers, envs


def k_histories(ctx, tmp):
    """Several settings constructions in one process over the SAME config dict object while the environment rotates:
    each must resolve against the configuration as written (Model: run_history), and leave it untouched."""
    import copy

    from ariadne_codegen.config import get_client_settings, get_graphql_schema_settings
    from ariadne_codegen.exceptions import InvalidConfiguration

    run, rng = ctx.run, ctx.rng
    n = 1200 if ctx.thorough else 250
    cases = [gen_history(rng) for _ in range(n)]
    res = model.batch(ENG, [I(Sym("history"), "http://127.0.0.1:1/graphql", [[k, v] for k, v in h.items()], True,
                              [[[k, v] for k, v in e.items()] for e in envs]) for h, envs in cases])
    old = dict(os.environ)
    try:
        for ci, ((headers, envs), (m_steps, m_cfg)) in enumerate(zip(cases, res)):
            inner = dict(headers)
            cfg = {"tool": {"ariadne-codegen": {"remote_schema_url": "http://127.0.0.1:1/graphql", "remote_schema_headers": inner,
                                                 "queries_path": tmp, "remote_schema_verify_ssl": True}}}
            orig = copy.deepcopy(cfg)
            real = []
            for si, env in enumerate(envs):
                for k in [k for k in os.environ if k.startswith("C19_")]:
                    del os.environ[k]
                os.environ.update(env)
                fn = get_client_settings if (ci + si) % 2 == 0 else get_graphql_schema_settings
                try:
                    st = fn(cfg)
                    real.append(["ok", [[k, v] for k, v in st.remote_schema_headers.items()]])
                except InvalidConfiguration as e:
                    msg = str(e)
                    real.append(["err", msg[len("Environment variable "):-len(" not found.")]])
            run.count()
            run.dist("history_length", str(len(envs)))
            if any(v.startswith("$") for v in headers.values()):
                run.nontrivial_case(("history", ci))
            unchanged = cfg == orig and cfg["tool"]["ariadne-codegen"]["remote_schema_headers"] is inner
            replay = {"headers": headers, "envs": envs, "impl": real, "model": m_steps, "config_after": cfg}
            if not unchanged or [[k, v] for k, v in inner.items()] != m_cfg:
                run.violation(f"history: the configuration object was modified by a run: {inner} (written: {headers})", replay)
            if real != m_steps:
                # the property's oracle: what step i resolves must be what a fresh process would resolve for env i
                first = next(i for i, (a, b) in enumerate(zip(real, m_steps)) if a != b)
                run.violation(f"history: step {first} resolved {real[first]} but the configuration {headers} under "
                              f"{envs[first]} resolves to {m_steps[first]} (earlier steps: {envs[:first]})", replay)
    finally:
        os.environ.clear()
        os.environ.update(old)
    run.extra["history_cases"] = n


# =============================================================== 4. decision chain over loopback HTTP
def valid_introspection():
    from graphql import build_schema, introspection_from_schema

    s = build_schema("type Query { a(i: In = {x: 1}): Int }\ninput In { x: Int! = 3, y: [String] }\nenum E { A B }")
    return json.loads(json.dumps(introspection_from_schema(s)))


def outcome_cases(ctx):
    good = valid_introspection()
    datas = [
        ("absent", None), ("null", {"data": None}), ("list", {"data": []}), ("str", {"data": "x"}), ("int", {"data": 0}),
        ("true", {"data": True}), ("empty-obj", {"data": {}}), ("no-schema", {"data": {"foo": 1}}),
        ("schema-null", {"data": {"__schema": None}}), ("schema-list", {"data": {"__schema": []}}),
        ("schema-empty", {"data": {"__schema": {}}}), ("types-null", {"data": {"__schema": {"types": None}}}),
        ("types-empty", {"data": {"__schema": {"types": []}}}), ("types-ints", {"data": {"__schema": {"types": [1]}}}),
        ("types-noname", {"data": {"__schema": {"types": [{"kind": "OBJECT"}]}}}),
        ("types-badkind", {"data": {"__schema": {"types": [{"kind": "WHAT", "name": "X"}]}}}),
        ("unknown-ref", {"data": {"__schema": {"queryType": {"name": "Nope"}, "types": []}}}),
        ("good", {"data": good}),
    ]
    errors = [("absent", "ABSENT"), ("null", None), ("empty-list", []), ("list", [{"message": "boom"}]), ("str", "x"),
              ("empty-str", ""), ("empty-obj", {}), ("obj", {"m": 1}), ("zero", 0), ("one", 1), ("false", False), ("true", True)]
    raws = [("empty", b""), ("text", b"<html>oops</html>"), ("json-null", b"null"), ("json-int", b"12"), ("json-str", b'"data"'),
            ("json-list", b'[{"data": {}}]'), ("json-true", b"true"), ("not-utf8", b"\xff\xfe\x00"), ("truncated", b'{"data": {'),
            ("empty-object", b"{}"), ("errors-only", b'{"errors": [{"message": "x"}]}'), ("nan", b'{"data": NaN}')]
    statuses = [200, 201, 204, 299, 300, 302, 400, 401, 404, 418, 500, 503]
    cases = []
    for st in statuses:
        for rn, raw in raws:
            cases.append({"status": st, "raw": raw, "label": f"{st}/{rn}"})
        for dn, d in datas:
            if d is None:
                continue
            cases.append({"status": st, "raw": json.dumps(d).encode(), "label": f"{st}/data:{dn}"})
    for st in (200, 201):
        for dn, d in datas:
            for en, e in errors:
                body = dict(d or {})
                if e != "ABSENT":
                    body["errors"] = e
                cases.append({"status": st, "raw": json.dumps(body).encode(), "label": f"{st}/data:{dn}/errors:{en}"})
    for c in cases:
        if c["status"] in (204,):
            c["raw"] = b""  # a 204 carries no body
    return cases


def classify_real(fn):
    """Run fn, map what happens to the outcome vocabulary of the model."""
    from ariadne_codegen.exceptions import IntrospectionError

    try:
        fn()
        return ["schema"], None
    except IntrospectionError as e:
        m = str(e)
        cls = next((c for p, c in MESSAGE_PREFIXES.items() if m.startswith(p)), "unknown")
        sub = ["status", m.rsplit(" ", 1)[-1]] if cls == "status" else [cls]
        return ["introspection-error", sub], m
    except Exception as e:  # noqa
        return ["crash", type(e).__name__], f"{type(e).__module__}.{type(e).__name__}: {e}"


def py_failure_class(url_class, status, body):
    """Independent statement of the property's failure classes (not derived from the model)."""
    if url_class != "ok":
        return "bad-url"
    if not 200 <= status <= 299:
        return "non-2xx"
    try:
        j = json.loads(body)
    except ValueError:
        return "non-json"
    if not isinstance(j, dict) or "data" not in j:
        return "bad-format"
    if j.get("errors"):
        return "errors"
    if not isinstance(j["data"], dict):
        return "data-not-object"
    from graphql import build_client_schema

    try:
        build_client_schema(j["data"], assume_valid=True)
    except Exception:  # noqa
        return "malformed-data"
    return None


def k_outcomes(ctx):
    from ariadne_codegen.schema import get_graphql_schema_from_url
    from graphql import build_client_schema

    run = ctx.run
    cases = outcome_cases(ctx)

    class H(BaseHTTPRequestHandler):
        protocol_version = "HTTP/1.1"

        def do_POST(self):
            n = int(self.headers.get("content-length") or 0)
            self.rfile.read(n)
            c = cases[int(self.path.rsplit("/", 1)[-1])]
            self.send_response(c["status"])
            if c["status"] in (300, 302):
                self.send_header("Location", "/elsewhere")
            if c["status"] != 204:
                self.send_header("Content-Type", "application/json")
                self.send_header("Content-Length", str(len(c["raw"])))
            self.end_headers()
            if c["status"] != 204:
                self.wfile.write(c["raw"])

        def log_message(self, *a):
            pass

    srv = ThreadingHTTPServer(("127.0.0.1", 0), H)
    srv.daemon_threads = True
    threading.Thread(target=srv.serve_forever, daemon=True).start()
    base = f"http://127.0.0.1:{srv.server_port}/c/"

    def one(i):
        return classify_real(lambda: get_graphql_schema_from_url(base + str(i)))

    try:
        with ThreadPoolExecutor(max_workers=8) as ex:
            reals = list(ex.map(one, range(len(cases))))
    finally:
        srv.shutdown()
        srv.server_close()
    # URL classes (nothing is ever sent for these)
    url_cases = [("invalid", u) for u in ("http://[::1", "http://127.0.0.1:abc/", "http://\x00/", "http://a\nb/", "https://" + "a" * 70000 + ".com")]
    url_cases += [("noscheme", u) for u in ("not-a-url", "", "ftp://127.0.0.1/x", "//127.0.0.1/x", "localhost/graphql")]
    cmds, meta = [], []
    for c, (real, msg) in zip(cases, reals):
        try:
            body = json.loads(c["raw"])
            bsx = [Sym("some"), json_sx(body)]
        except ValueError:
            body, bsx = None, None
        deep = None
        if isinstance(body, dict) and isinstance(body.get("data"), dict) and isinstance(body["data"].get("__schema"), dict) \
                and "types" in body["data"]["__schema"]:
            try:
                build_client_schema(body["data"], assume_valid=True)
            except Exception as e:  # noqa
                deep = type(e).__name__
        cmds.append(I(Sym("outcome"), Sym("ok"), c["status"], bsx, opt(deep)))
        meta.append(("ok", c, real, msg))
    for cls, u in url_cases:
        real, msg = classify_real(lambda: get_graphql_schema_from_url(u))
        cmds.append(I(Sym("outcome"), Sym(cls), 200, None, None))
        meta.append((cls, {"status": 200, "raw": b"", "label": f"url:{cls}:{u[:40]!r}", "url": u[:200]}, real, msg))
    res = model.batch(ENG, cmds)
    unknown_sub = 0
    for i, (cls, c, real, msg) in enumerate(meta):
        run.count()
        mo = res[i]
        want_fail = py_failure_class(cls, c["status"], c["raw"])
        run.dist("introspection_response_class", want_fail or "well-formed")
        if cls == "noscheme" or want_fail == "malformed-data":
            run.dist("regression_inputs", "former F19-bad-url-scheme" if cls == "noscheme" else "former F19-malformed-data")
        run.nontrivial_case(("resp", c["label"].split("/", 1)[-1] if cls == "ok" else c["label"]))
        replay = {"case": c["label"], "status": c["status"], "body": c["raw"].decode("latin1")[:400], "url_class": cls,
                  "url": c.get("url"), "impl": real, "impl_message": (msg or "")[:300], "model": mo}
        o = mo[0]
        same = o[0] == real[0]
        if same and o[0] == "introspection-error":
            same = o[1][0] == real[1][0] and (o[1][0] != "status" or o[1][1] == real[1][1])
        # K1 on the classification predicates themselves
        if (mo[1] == "t") != (want_fail is not None):
            run.broken("K1 failure-class predicate (any_failure) disagrees with the harness statement", json.dumps(replay)[:1500])
        # the property's own oracle: a failure class surfaces as IntrospectionError, anything else builds a schema
        prop_fails = (want_fail is not None and real[0] != "introspection-error") or (want_fail is None and real[0] != "schema")
        if prop_fails:
            run.violation(f"introspection response class {want_fail or 'well-formed'} on {c['label']}: {real}"
                          + ("" if same else f" (model: {o})"), replay)
        elif not same:
            run.violation(f"K1 outcome: impl {real} vs model {o} on {c['label']}", replay, found_input=False)
    run.extra["outcome_cases"] = len(meta)


# =============================================================== 5. generated packages from every source
def module_equal_modulo_order(a, b):
    """'' if equal, 'order' if equal after sorting class members, else a description."""
    if a is None or b is None:
        return "missing module"
    if a["classes"] == b["classes"] and a["imports"] == b["imports"] and a["other"] == b["other"]:
        return ""

    def srt(m):
        out = {}
        for n, c in m["classes"].items():
            c2 = dict(c)
            c2["fields"] = sorted(c["fields"], key=lambda f: f["wire"])
            c2["rest"] = sorted(c["rest"])
            out[n] = c2
        return out

    if srt(a) == srt(b) and a["imports"] == b["imports"] and a["other"] == b["other"]:
        return "order"
    names = sorted(set(a["classes"]) ^ set(b["classes"]))
    if names:
        return f"classes only on one side: {names[:5]}"
    for n in a["classes"]:
        if a["classes"][n] != b["classes"][n]:
            return f"class {n}: {json.dumps(a['classes'][n])[:300]} vs {json.dumps(b['classes'][n])[:300]}"
    if a["imports"] != b["imports"]:
        return f"imports: {sorted(set(a['imports']) ^ set(b['imports']))[:6]}"
    return f"other statements: {a['other'][:3]} vs {b['other'][:3]}"


def sdl_inputs(sdl):
    """Input object types of the SDL as the model's `inputs` (from graphql-core's own schema object)."""
    from graphql import GraphQLInputObjectType, Undefined, build_schema

    schema = build_schema(sdl)
    out, info = [], {}
    for name, t in schema.type_map.items():
        if isinstance(t, GraphQLInputObjectType):
            fs = []
            for fname, f in t.fields.items():
                ad = opt(enc_const(f.ast_node.default_value)) if f.ast_node.default_value is not None else None
                vd = opt(enc_pyvalue(f.default_value)) if f.default_value is not Undefined else None
                fs.append([fname, enc_type(f.type), ad, vd, True, f.deprecation_reason is not None])
                info[(name, fname)] = {"has_default": f.ast_node.default_value is not None,
                                       "deprecated": f.deprecation_reason is not None,
                                       "nonnull": str(f.type).endswith("!")}
            out.append([name, fs])
    return schema, out, info


_MODEL_QUERY = []


def model_query():
    """The introspection query text for the option set the model's request_of carries (K1 on the wire)."""
    from graphql import get_introspection_query

    if not _MODEL_QUERY:
        r = model.call(ENG, I(Sym("request"), [], "http://x/", [], True))
        names = ["descriptions", "specified_by_url", "directive_is_repeatable", "schema_description", "input_value_deprecation"]
        flags = {n: v == "t" for n, v in zip(names, r[4])}
        _MODEL_QUERY.append((get_introspection_query(**flags), flags))
    return _MODEL_QUERY[0][0]


def k2_via_introspection(run, schema, minputs, model_via):
    """build_client_schema(introspection(S)) vs Model via_introspection: names kept, nodes gone, values kept."""
    from graphql import GraphQLInputObjectType, Undefined, build_client_schema, get_introspection_query, graphql_sync

    # exactly the query the model says the code sends (since b147fbc: every option on)
    data = graphql_sync(schema, model_query()).data
    cs = build_client_schema(data, assume_valid=True)
    for (tname, fields) in model_via:
        t = cs.type_map.get(tname)
        if not isinstance(t, GraphQLInputObjectType):
            run.broken("K2 via_introspection", f"type {tname} missing after introspection")
            return
        if [f[0] for f in fields] != list(t.fields):
            run.broken("K2 via_introspection", f"{tname}: model keeps {[f[0] for f in fields]}, graphql-core {list(t.fields)}")
            return
        src = schema.type_map[tname]
        for fname, f in t.fields.items():
            if f.ast_node is not None:
                run.broken("K2 via_introspection", f"{tname}.{fname} has an ast_node after introspection")
            a, b = src.fields[fname].default_value, f.default_value
            if (a is Undefined) != (b is Undefined) or (a is not Undefined and a != b):
                run.broken("K2 via_introspection", f"{tname}.{fname}: default value {a!r} became {b!r}")


def loosely_equal_default(a, b):
    """Default expressions of the SDL route (a) and of the patched introspection route (b)."""
    import ast as pyast

    if a == b:
        return True

    def ev(src):
        s = src[len("factory:"):] if src.startswith("factory:") else src
        node = pyast.parse(s, mode="eval").body

        def go(n):
            if isinstance(n, pyast.Constant):
                return n.value
            if isinstance(n, pyast.List):
                return [go(x) for x in n.elts]
            if isinstance(n, pyast.Dict):
                return {go(k): go(v) for k, v in zip(n.keys, n.values)}
            if isinstance(n, pyast.Attribute):
                return ("enum", n.attr)
            if isinstance(n, pyast.UnaryOp) and isinstance(n.op, pyast.USub):
                return -go(n.operand)
            if isinstance(n, pyast.Call) and isinstance(n.func, pyast.Attribute) and n.func.attr == "model_validate":
                return go(n.args[0])
            if isinstance(n, pyast.Call) and isinstance(n.func, pyast.Name) and n.func.id == "Field":
                # C06/F9 rendering of an object inside a list: Field(default_factory=lambda: X) -> X
                kw = {k.arg: k.value for k in n.keywords}
                if set(kw) == {"default_factory"} and isinstance(kw["default_factory"], pyast.Lambda):
                    return go(kw["default_factory"].body)
            raise ValueError(pyast.dump(n))
        return go(node)

    def eq(x, y):
        if isinstance(x, dict) and isinstance(y, dict):
            return all(k in y and eq(v, y[k]) for k, v in x.items())   # y may add nested defaults
        if isinstance(x, list) and isinstance(y, list):
            return len(x) == len(y) and all(eq(p, q) for p, q in zip(x, y))
        if isinstance(x, tuple) and isinstance(y, str):
            return x[1] == y
        if isinstance(x, bool) or isinstance(y, bool):
            return x is y
        if isinstance(x, (int, float)) and isinstance(y, (int, float)):
            return x == y
        return x == y
    try:
        va, vb = ev(a), ev(b)
    except Exception:  # noqa
        return False
    if isinstance(vb, list) and not isinstance(va, list):
        return eq([va], vb)  # single value coerced to a list
    return eq(va, vb)


def scenario_input(ctx, seed, i, tls):
    rng = ctx.rng.__class__(seed * 7919 + 13)
    sc = c19_gen.gen(seed, big=ctx.thorough and i % 4 == 0)
    nl = 3 if not ctx.thorough else 4
    sc["layouts"] = c19_gen.layouts(rng, len(sc["defs"]), nl)
    sc["noise"] = ["README.md", "notes.txt", "a/schema.graphql.bak", "x.GQL", ".graphql", "sub/.gql", "types/gql"]
    hv = rng.choice(["$C19_TOKEN", "$$C19_TOKEN", "Bearer literal"])
    sc["introspection"] = [
        {"headers": {"Authorization": hv, "X-Plain": "v$x"}, "env": {"C19_TOKEN": f"tok-{seed}"}},
        {"omit_descriptions": True},
    ]
    if tls and i % 8 == 0:
        sc["introspection"] += [{"tls": tls, "verify": False}, {"tls": tls, "verify": True}, {"tls": tls}]
    return sc


def corpus_scenarios():
    """Former witnesses of the fixed finding classes (and of the open one), run first through the same oracle."""
    def feat(**kw):
        base = {"descriptions": False, "extensions": False, "custom_roots": False, "mutation": False, "definitions": 2,
                "inputs": 1, "input_defaults": 0, "input_deprecated": 0, "nonnull_defaults": 0, "operations": 1,
                "default_kinds": []}
        base.update(kw)
        return base
    ops = "query Q($i: In) { f(i: $i) }"
    out = [
        {"seed": "corpus-defaults", "customs": [], "ops": ops,
         "defs": ["input In {\n  nn: Int! = 7\n  d: Int = 5\n  s: String! = \"x\"\n  l: [Int!] = [1, 2]\n}", "type Query {\n  f(i: In): Int\n}"],
         "features": feat(input_defaults=4, nonnull_defaults=2, default_kinds=["int", "list", "string"])},
        {"seed": "corpus-deprecated", "customs": [], "ops": ops,
         "defs": ["input In {\n  a: Int\n  old: Int @deprecated\n  o: All = {x: 1}\n}", "type Query {\n  f(i: In): Int\n}",
                  "input All {\n  x: Int @deprecated\n}"],
         "features": feat(input_deprecated=2, inputs=2, definitions=3, input_defaults=1, default_kinds=["object"])},
    ]
    many = ([f"enum Em{i} {{\n  A{i}\n  B{i}\n}}" for i in range(8)] +
            [f"input Im{i} {{\n  a: Int = {i}\n  e: Em{i % 8} = A{i % 8}\n}}" for i in range(10)] +
            [f"type Tm{i} {{\n  id: ID!\n  e: Em{i % 8}\n}}" for i in range(10)] +
            ["type Query {\n" + "\n".join(f"  t{i}(i: Im{i}): Tm{i}" for i in range(10)) + "\n}"])
    out.append({"seed": "corpus-many-files", "customs": [], "defs": many,
                "ops": "\n".join(f"query Q{i}($i: Im{i}) {{ t{i}(i: $i) {{ id e }} }}" for i in range(0, 10, 3)),
                "features": feat(definitions=len(many), inputs=10, input_defaults=20, operations=4, default_kinds=["enum", "int"])})
    for sc in out:
        # former F19-dir-suffix: directories named like schema files, at two levels
        rest = list(range(2, len(sc["defs"])))
        sc["layouts"] = [[("v1.graphql/schema.graphql", [0] + rest), ("v1.graphql/x.gql/q.graphqls", [1])],
                         [("a.gql", [1]), ("old.graphqls/b.graphql", rest + [0])]]
        if len(sc["defs"]) > 16:   # one definition per file, > 16 files, three directory levels, reverse name order
            n = len(sc["defs"])
            sc["layouts"] = [[(f"{'abc'[i % 3]}/{'xy'[i % 2]}/f{n - i:02d}{EXTS[i % 3]}", [i]) for i in range(n)],
                             [(f"f{(i * 7) % n:02d}{EXTS[i % 3]}", [i]) for i in range(n)]]
        sc["noise"] = ["README.md"]
        sc["introspection"] = [{"headers": {"Authorization": "$C19_TOKEN"}, "env": {"C19_TOKEN": "tok"}}]
        sc["history"] = {"headers": {"Authorization": "$C19_TOKEN", "X-Chain": "$C19_CHAIN", "X-Plain": "p"},
                         "envs": [{"C19_TOKEN": "tok-1", "C19_CHAIN": "$C19_TOKEN"}, {"C19_TOKEN": "tok-2", "C19_CHAIN": "c2"},
                                  {"C19_CHAIN": "c3"}, {"C19_TOKEN": "tok-4", "C19_CHAIN": "c4"}]}
    return out


def run_worker(sc, tmp):
    sc = dict(sc, tmp=tmp)
    env = dict(os.environ)
    p = subprocess.run(["/venv/bin/python", "-m", "vh.props.c19_worker"], input=json.dumps(sc).encode(),
                       stdout=subprocess.PIPE, stderr=subprocess.PIPE, env=env, timeout=900)
    if p.returncode != 0:
        return {"worker_error": p.stderr.decode(errors="replace")[-2000:]}
    try:
        return json.loads(p.stdout)
    except ValueError:
        return {"worker_error": "unparsable worker output: " + p.stdout.decode(errors="replace")[-500:]}


def minimise_split(sc, tmp, feat):
    """Search (only after a split disagreement): the same definitions in two files, one definition set apart;
    returns the first two-file layout on which the split package still differs from the single-file one."""
    n = len(sc["defs"])
    cands = [[("a.gql", [i]), ("sub/b.graphqls", [j for j in range(n) if j != i])] for i in range(n)][:16]
    res = run_worker({**sc, "layouts": cands, "introspection": [], "noise": []}, tmp)
    if "worker_error" in res or res["sources"]["single"]["error"]:
        return None
    sp = res["sources"]["single"]["package"]
    for i, lay in enumerate(cands):
        src = res["sources"][f"split{i}"]
        if src["error"] or sorted(src["package"]) != sorted(sp):
            return {"layout": lay, "why": src["error"] or "different files"}
        for f in sp:
            d = module_equal_modulo_order(sp[f], src["package"][f])
            if d and not (d == "order" and feat["extensions"]):
                return {"layout": lay, "why": f"{f}: {d}"}
    return None


def make_tls(tmp):
    crt, key = os.path.join(tmp, "c19.crt"), os.path.join(tmp, "c19.key")
    try:
        p = subprocess.run(["openssl", "req", "-x509", "-newkey", "rsa:2048", "-nodes", "-keyout", key, "-out", crt, "-days", "2",
                            "-subj", "/CN=127.0.0.1", "-addext", "subjectAltName=IP:127.0.0.1"],
                           stdout=subprocess.PIPE, stderr=subprocess.PIPE, timeout=60)
        if p.returncode == 0:
            return [crt, key]
    except Exception:  # noqa
        pass
    return None


def k_scenarios(ctx, tmp):
    from ariadne_codegen.schema import get_graphql_schema_from_path
    from graphql import get_introspection_query

    run = ctx.run
    n = 320 if ctx.thorough else 32
    tls = make_tls(tmp)
    run.extra["tls_loopback"] = bool(tls)
    seeds = [ctx.seed * 100000 + 1000 + i for i in range(n)]
    scs = corpus_scenarios() + [scenario_input(ctx, s, i, tls) for i, s in enumerate(seeds)]
    run.extra["corpus_scenarios"] = [sc["seed"] for sc in scs if str(sc["seed"]).startswith("corpus")]
    with ThreadPoolExecutor(max_workers=int(os.environ.get("VERIF_JOBS", "16"))) as ex:
        futs = [ex.submit(run_worker, sc, tmp) for sc in scs]
        # meanwhile, in this process: type map of every layout (model vs build_ast_schema), field decisions
        inproc = [inprocess_scenario(ctx, sc, tmp, si) for si, sc in enumerate(scs)]
        results = [f.result() for f in futs]
    want_query = model_query()
    run.extra["introspection_query_options"] = _MODEL_QUERY[0][1]
    for sc, res, (minfo, dec) in zip(scs, results, inproc):
        feat = sc["features"]
        for k in ("descriptions", "extensions", "custom_roots", "mutation"):
            run.dist("scenario_" + k, str(feat[k]))
        for k in ("definitions", "inputs", "input_defaults", "input_deprecated", "nonnull_defaults", "operations"):
            run.dist("scenario_" + k, str(min(feat[k], 12)))
        for k in feat["default_kinds"]:
            run.dist("scenario_default_kinds", k)
        base_replay = {"seed": sc["seed"], "sdl": "\n\n".join(sc["defs"]), "operations": sc["ops"], "features": feat}
        if "worker_error" in res:
            run.broken("scenario worker", res["worker_error"])
            continue
        single = res["sources"]["single"]
        if single["error"]:
            run.violation(f"generation from a single SDL file failed: {single['error']['type']}: {single['error']['msg']}",
                          {**base_replay, "error": single["error"]}, found_input=False)
            continue
        sp = single["package"]
        run.nontrivial_case(("scenario", sc["seed"]))
        # ---------------- splits
        nviol = len(run.violations)
        for li, layout in enumerate(sc["layouts"]):
            key = f"split{li}"
            run.count()
            run.dist("split_files", str(len(layout)) if len(layout) < 8 else "8-16" if len(layout) <= 16 else "17+")
            run.dist("split_depth", str(max(p.count("/") for p, _ in layout)))
            for p, _ in layout:
                run.dist("split_ext", p.rsplit(".", 1)[-1])
            src = res["sources"][key]
            replay = {**base_replay, "layout": layout, "noise": sc["noise"]}
            if src["error"]:
                run.violation(f"{key}: generation from the directory tree failed while the single file works: "
                              f"{src['error']['type']}: {src['error']['msg']}", {**replay, "error": src["error"]})
                continue
            if sorted(src["package"]) != sorted(sp):
                run.violation(f"{key}: different set of generated files", {**replay, "files": [sorted(sp), sorted(src['package'])]})
                continue
            for f in sp:
                d = module_equal_modulo_order(sp[f], src["package"][f])
                if d == "order" and feat["extensions"]:
                    run.dist("split_member_order_differs", "with-extensions")
                elif d:
                    run.violation(f"{key}: {f} differs between single-file and split schema: {d}", {**replay, "file": f, "diff": d})
            # K2 again on real generator inputs: the loaded document holds exactly the definitions, permuted
            ld = res["loaded"].get(key)
            if isinstance(ld, list) and len(ld) != len(sc["defs"]):
                run.broken("K2 parse(join) definitions", f"{len(ld)} definitions loaded, {len(sc['defs'])} written ({sc['seed']})")
        if len(run.violations) > nviol and run.extra.get("minimised", 0) < 3:
            run.extra["minimised"] = run.extra.get("minimised", 0) + 1
            m = minimise_split(sc, tmp, feat)
            for v in run.violations[nviol:]:
                v["replay"]["minimised_two_file_layout"] = m
        # ---------------- introspection
        intro_ok = None
        for req in res["requests"]:
            key = req["key"]
            ji = int(key[5:])
            intro = sc["introspection"][ji]
            src = res["sources"][key]
            run.count()
            replay = {**base_replay, "introspection": {k: v for k, v in intro.items() if k != "tls"}, "tls": bool(intro.get("tls"))}
            kind = ("tls-verify-" + str(intro.get("verify", "default"))) if intro.get("tls") else \
                   ("server-omits-descriptions" if intro.get("omit_descriptions") else "plain+headers")
            run.dist("introspection_kind", kind)
            expect_tls_fail = bool(intro.get("tls")) and intro.get("verify", True)
            if expect_tls_fail:
                # the flag is honoured on the wire: a self-signed certificate must be refused
                if not src["error"] or "CERTIFICATE_VERIFY_FAILED" not in (src["error"]["msg"] + src["error"]["tb"]):
                    run.violation(f"remote_schema_verify_ssl={intro.get('verify', 'default(true)')}: self-signed server was not refused "
                                  f"({src['error'] and src['error']['type']})", replay)
                continue
            if src["error"]:
                run.violation(f"{key}: generation through introspection failed: {src['error']['type']}: {src['error']['msg']}",
                              {**replay, "error": src["error"]})
                continue
            if minfo.get("__empty_class_via__"):
                run.violation(f"K1 {key}: model predicts an empty input class (generation failure) but generation succeeded",
                              replay, found_input=False)
            # what was sent
            log = req["log"]
            if len(log) != 1 or log[0].get("json_keys") != ["query"] or log[0].get("query") != want_query:
                run.violation(f"{key}: unexpected introspection request(s): {[(l.get('json_keys'), (l.get('query') or '')[:40]) for l in log]}",
                              {**replay, "log": log})
            elif "headers" in intro:
                envl = [[k, v] for k, v in intro["env"].items()]
                mreq = model.call(ENG, I(Sym("request"), envl, req["url"], [[k, v] for k, v in intro["headers"].items()], True))
                got = {k.lower(): v for k, v in log[0]["headers"]}
                if mreq[0] != "ok":
                    run.broken("K1 request", f"model refuses headers {intro['headers']}")
                else:
                    for k, v in mreq[2]:
                        if got.get(k.lower()) != v:
                            run.violation(f"{key}: header {k} sent as {got.get(k.lower())!r}, configured {intro['headers'][k]!r} "
                                          f"(resolved {v!r})", {**replay, "sent": log[0]["headers"]})
                    if "includeDeprecated: true" not in log[0]["query"].split("inputFields", 1)[-1][:40]:
                        run.violation(f"{key}: deprecated input fields are not requested", {**replay, "query": log[0]["query"][:600]})
                if got.get("content-type") != "application/json":
                    run.violation(f"{key}: content-type {got.get('content-type')!r}", {**replay, "sent": log[0]["headers"]})
            ip = src["package"]
            if sorted(ip) != sorted(sp):
                run.violation(f"{key}: different set of generated files", {**replay, "files": [sorted(sp), sorted(ip)]})
                continue
            for f in sp:
                if f == "input_types.py":
                    continue
                d = module_equal_modulo_order(sp[f], ip[f])
                if d:
                    run.violation(f"{key}: {f} differs between SDL and introspection: {d}", {**replay, "file": f, "diff": d})
            compare_inputs(run, sp["input_types.py"], ip["input_types.py"], minfo, dec, replay, key)
        # ---------------- history in one process over one configuration dict
        if sc.get("history") and "history" in res:
            h = sc["history"]
            m_steps, _m_cfg = model.call(ENG, I(Sym("history"), res["history"]["url"], [[k, v] for k, v in h["headers"].items()], True,
                                                 [[[k, v] for k, v in e.items()] for e in h["envs"]]))
            for i, (stp, ms, env) in enumerate(zip(res["history"]["steps"], m_steps, h["envs"])):
                run.count()
                run.dist("introspection_kind", "history step (same config object)")
                replay = {**base_replay, "history": h, "step": i, "impl": {k: v for k, v in stp.items() if k != "package"}, "model": ms}
                if not stp["config_unchanged"]:
                    run.violation(f"history step {i}: main.client modified the configuration dict it was given", replay)
                if ms[0] == "err":
                    if not stp["error"] or "InvalidConfiguration" not in stp["error"]["type"] or stp["requests"]:
                        run.violation(f"history step {i}: ${ms[1]} is unset, expected InvalidConfiguration and no request; got "
                                      f"{stp['error']} / {len(stp['requests'])} request(s)", replay)
                    continue
                if stp["error"] or len(stp["requests"]) != 1:
                    run.violation(f"history step {i}: generation failed or wrong number of requests: {stp['error']}", replay)
                    continue
                got = {k.lower(): v for k, v in stp["requests"][0]["headers"]}
                for k, v in ms[1]:
                    if got.get(k.lower()) != v:
                        run.violation(f"history step {i}: header {k} sent as {got.get(k.lower())!r}; the configuration "
                                      f"{h['headers'][k]!r} under {env} resolves to {v!r}", replay)
                for f in sp:
                    if f != "input_types.py" and module_equal_modulo_order(sp[f], stp["package"].get(f)):
                        run.violation(f"history step {i}: {f} differs from the single-file package", {**replay, "file": f})
    run.extra["scenarios"] = n


def inprocess_scenario(ctx, sc, tmp, si):
    """In the harness process: K1 type map for every layout (real files, real build_ast_schema) and the model's
    field decisions for this schema."""
    from ariadne_codegen.schema import get_graphql_schema_from_path

    run = ctx.run
    sdl = "\n\n".join(sc["defs"])
    schema, minputs, info = sdl_inputs(sdl)
    dec_sdl, dec_via, wf, *_ = model.call(ENG, I(Sym("inputs"), minputs))
    info["__empty_class_via__"] = any(len(fs) == 0 for _t, fs in dec_via)
    if wf != "t":
        run.broken("K1 wf_sdl", f"schema built from SDL is not wf_sdl for the model (seed {sc['seed']})")
    k2_via_introspection(run, schema, minputs, dec_via)
    # type map of every layout vs the model's
    base = real_type_map(schema)
    for li, layout in enumerate(sc["layouts"][:2]):
        root = os.path.join(tmp, f"s{si}-{li}")
        entries = []
        dirs = set()
        for rel, idxs in layout:
            p = os.path.join(root, rel)
            os.makedirs(os.path.dirname(p), exist_ok=True)
            text = "\n".join(sc["defs"][j] for j in idxs)
            with open(p, "w", encoding="utf-8") as fh:
                fh.write(text)
            comps = rel.split("/")
            for k in range(1, len(comps)):
                dirs.add(tuple(comps[:k]))
            entries.append(enc_entry(comps, False, text))
        entries += [enc_entry(d, True, "") for d in sorted(dirs)]
        run.count()
        order = sorted(layout, key=lambda pl: pl[0].split("/"))
        k2_tokens(run, ["\n".join(sc["defs"][j] for j in idxs) for _rel, idxs in order], "scenario layout")
        try:
            real = real_type_map(get_graphql_schema_from_path(root))
        except Exception as e:  # noqa
            run.violation(f"split schema does not load: {type(e).__name__}: {e}", {"seed": sc["seed"], "layout": layout})
            shutil.rmtree(root, ignore_errors=True)
            continue
        mm = model_type_map(model.call(ENG, L(Sym("tree-type-map"), entries)))
        real_cmp = {n: (k, [(m[0], m[1]) for m in ms]) for n, (k, ms) in real.items()}
        if mm != real_cmp:
            bad = [n for n in set(mm) | set(real_cmp) if mm.get(n) != real_cmp.get(n)]
            # property oracle: is the split schema a different schema (as a map) than the single-file one?
            base_cmp = {n: (k, sorted((m[0], m[1]) for m in ms)) for n, (k, ms) in base.items()}
            real_sorted = {n: (k, sorted(ms)) for n, (k, ms) in real_cmp.items()}
            run.violation(f"K1 type map of split schema: model and build_ast_schema differ on {bad[:4]}",
                          {"seed": sc["seed"], "layout": layout, "model": {n: mm.get(n) for n in bad[:4]},
                           "impl": {n: real_cmp.get(n) for n in bad[:4]}}, found_input=base_cmp != real_sorted)
        shutil.rmtree(root, ignore_errors=True)
    return info, (dec_sdl, dec_via)


def compare_inputs(run, sdl_mod, intro_mod, info, dec, replay, key):
    """Input models of the SDL route vs the introspection route: K1 against the model's decisions and the property's
    own oracle (same fields, same required set, same defaults)."""
    sc_ = sdl_mod["classes"]
    ic_ = intro_mod["classes"]
    if set(sc_) != set(ic_):
        run.violation(f"{key}: input classes differ: {sorted(set(sc_) ^ set(ic_))}", replay)
        return

    def decisions(d):
        return {t: {f: x for f, x in fs} for t, fs in d}

    d_sdl, d_via = decisions(dec[0]), decisions(dec[1])

    def agrees(field, d):
        if d[0] == "required":
            return field["required"]
        if d[0] == "none":
            return not field["required"] and field["default"] == "None"
        lit_null = d[1] == "n"     # literal / value
        return not field["required"] and field["default"] is not None and (field["default"] != "None" or lit_null)

    # the property's oracle on the two packages
    problems = {"defaults": [], "deprecated": [], "other": []}
    for t, cls in sc_.items():
        ifields = {f["wire"]: f for f in ic_[t]["fields"]}
        for f in cls["fields"]:
            meta = info.get((t, f["wire"]), {})
            g = ifields.get(f["wire"])
            if g is None:
                (problems["deprecated"] if meta.get("deprecated") else problems["other"]).append(
                    f"{t}.{f['wire']} missing via introspection")
                continue
            if g["ann"] != f["ann"] or g["py"] != f["py"]:
                problems["other"].append(f"{t}.{f['wire']}: annotation {f['ann']} vs {g['ann']}")
            same_default = f["default"] == g["default"] or (
                f["default"] is not None and g["default"] is not None and loosely_equal_default(f["default"], g["default"]))
            if g["required"] != f["required"] or not same_default:
                what = (f"{t}.{f['wire']}: SDL {'required' if f['required'] else '= ' + str(f['default'])} / "
                        f"introspection {'required' if g['required'] else '= ' + str(g['default'])}")
                (problems["defaults"] if meta.get("has_default") else problems["other"]).append(what)
        extra = set(ifields) - {f["wire"] for f in cls["fields"]}
        if extra:
            problems["other"].append(f"{t}: fields only via introspection {sorted(extra)}")
    failing = problems["defaults"] + problems["deprecated"] + problems["other"]
    # K1: generated fields vs the model's decisions, both routes
    for route, classes, dd in (("SDL", sc_, d_sdl), ("introspection", ic_, d_via)):
        for t, cls in classes.items():
            have = {f["wire"]: f for f in cls["fields"]}
            if set(have) != set(dd.get(t, {})):
                run.violation(f"K1 {key} {route} route {t}: generated fields {sorted(have)} vs model {sorted(dd.get(t, {}))}"
                              + ("; property fails: " + "; ".join(failing[:4]) if failing else ""), replay, found_input=bool(failing))
                continue
            for fn, f in have.items():
                if not agrees(f, dd[t][fn]):
                    run.violation(f"K1 {key} {route} route {t}.{fn}: generated {f} vs model decision {dd[t][fn]}"
                                  + ("; property fails: " + "; ".join(failing[:4]) if failing else ""),
                                  replay, found_input=bool(failing))
    if problems["deprecated"]:
        # former class F19-deprecated-input-fields (fixed by b147fbc): a regression is a violation
        run.violation(f"{key}: deprecated input fields are lost through introspection: " + "; ".join(problems["deprecated"][:6]),
                      {**replay, "problems": problems["deprecated"]})
    if problems["defaults"]:
        # former class F19-input-defaults (fixed by 4077122): a regression is a violation
        run.violation(f"{key}: input defaults differ between SDL and introspection: " + "; ".join(problems["defaults"][:6]),
                      {**replay, "problems": problems["defaults"]})
    if problems["other"]:
        run.violation(f"{key}: input models differ outside the known classes: " + "; ".join(problems["other"][:6]),
                      {**replay, "problems": problems["other"]})


# =============================================================== entry
def run(ctx):
    run = ctx.run
    run.rule = ("non-trivial = distinct (a) directory trees with >=2 selected files, (b) header sets containing a $-value, "
                "(c) introspection response classes (status class x body/data/errors shape, URL class), (d) generated "
                "schemas (each generated from 1 file, k splits and 2-5 introspection variants)")
    run.assumptions += [
        "graphql-core 3.2.12: parse, build_ast_schema, build_client_schema, introspection (K2-checked: parse(join) = "
        "concatenation for files that each hold type-system definitions; introspection keeps default values, loses AST "
        "nodes and deprecated input fields)",
        "httpx 0.28 (URL classes InvalidURL / UnsupportedProtocol, is_success, json()), CPython pathlib ordering and suffix",
        "file names are compared as UTF-8 byte strings (= code point order); trees without symlinks",
    ]
    tmp = tempfile.mkdtemp(prefix="c19-", dir="/var/tmp")
    try:
        k_source_constants(ctx)
        k_suffix_and_order(ctx)
        k2_tricky_docs(ctx)
        k_loader(ctx, tmp)
        k_headers(ctx)
        k_histories(ctx, tmp)
        k_outcomes(ctx)
        k_scenarios(ctx, tmp)
    finally:
        shutil.rmtree(tmp, ignore_errors=True)
    # concrete failing inputs first (the report prints a bounded number of VIOLATION lines)
    seen_kind: dict = {}
    for v in run.violations:
        k = (v["found_input"], v["what"][:22])
        v["_rank"] = seen_kind[k] = seen_kind.get(k, -1) + 1
    run.violations.sort(key=lambda v: (not v["found_input"], v.pop("_rank")))   # one of each kind first
