"""C11 — Requests are well-formed, uploads follow the multipart spec, clients agree.

K1: Model/Client.v (extracted) vs the request each of the six client variants (sync/async x plain /
    OpenTelemetry without and with a tracer) actually hands to httpx, captured by httpx.MockTransport:
    method, URL, caller headers and Content-Type as they are on the wire, timeout, decoded JSON body
    (key order kept) or multipart parsed with requests_toolbelt (operations, map, file parts).
K3: the property text evaluated directly on the captured request (independent of the model): body keys,
    caller headers win, file positions null, map = exactly the upload paths of the input tree, each
    distinct Upload once, all variants identical, concurrent calls == solo calls, client attributes
    unchanged.  K3 is the failing-input search: the smallest failing tree is the replay.
Streams: main (inside the theorem guards), finding classes (F20 header case, model under a plain dict),
    malformed (UNSET below the top level: nothing may be sent).
"""
from __future__ import annotations

import asyncio
import datetime
import enum
import io
import json
import os
import shutil
import tempfile
import random
import re
from concurrent.futures import ProcessPoolExecutor, ThreadPoolExecutor

from .. import model
from ..sexp import Sym, json_sx, sx_json
from . import _clients
from ._clients import canon

# ------------------------------------------------------------------ trees
# node := ("leaf", kind, json) | ("up", id) | ("unset",) | ("list", [node]) | ("dict", [(k, node)])
#       | ("model", cls_index, [(pyname, alias, is_set, node)])


class Color(str, enum.Enum):
    RED = "RED"
    GREEN = "GREEN"


class Level(enum.Enum):
    LOW = 1
    HIGH = 2


LEAVES = [
    ("none", None), ("true", True), ("false", False), ("int", 7), ("zero", 0), ("neg", -12), ("str", "text"),
    ("empty-str", ""), ("unicode", "zażółć \"q\" \\ \n"), ("float", 1.5),
    ("enum-str", "RED"), ("enum-int", 2), ("datetime", "2020-01-02T03:04:05"), ("date", "2021-12-31"),
]
PY_LEAF = {
    "enum-str": lambda: Color.RED, "enum-int": lambda: Level.HIGH,
    "datetime": lambda: datetime.datetime(2020, 1, 2, 3, 4, 5), "date": lambda: datetime.date(2021, 12, 31),
}
KEYS = ["a", "b", "c", "file", "files", "input", "x_y", "A1", "0", "1", "id", "variables"]
# (python name, alias) pools of the model classes (definition order matters: dump order)
MODEL_FIELDS = [
    [("id_", "id"), ("name", None), ("sub", None)],
    [("file", None), ("files", None), ("type_", "type"), ("sub_items", "subItems")],
    [("value", None)],
    [("a", None), ("b", "B"), ("c", None), ("d", "dd"), ("e", None)],
    [("opt", None), ("y", "Y")],          # "opt" defaults to UNSET (an UNSET that is never met when the field is unset)
    # class 5: fields ANNOTATED with the real Upload class, as generated for
    #   input DocumentInput { file: Upload!  files: [Upload!]  backupFile: Upload  title: String
    #                         parent: DocumentInput  children: [DocumentInput!] }
    [("file", None), ("files", None), ("backup", "backupFile"), ("title", None), ("parent", None), ("children", None)],
]
UNSET_DEFAULT = {(4, "opt")}
N_GENERIC = 5
TYPED = 5
N_UPLOADS = 4


def TDOC(file, files=None, backup=None, parent=None, children=None):
    none = ("leaf", "none", None)
    return ("model", 5, [
        ("file", None, True, ("up", file)),
        ("files", None, True, ("list", [("up", i) for i in files])) if files is not None else ("files", None, False, none),
        ("backup", "backupFile", True, ("up", backup)) if backup is not None else ("backup", "backupFile", False, none),
        ("title", None, True, ("leaf", "str", "text")),
        ("parent", None, True, parent) if parent is not None else ("parent", None, False, none),
        ("children", None, True, ("list", children)) if children is not None else ("children", None, False, none)])


class Gen:
    def __init__(self, rng: random.Random):
        self.rng = rng

    def leaf(self):
        k, j = self.rng.choice(LEAVES)
        return ("leaf", k, j)

    def upload(self):
        return ("up", self.rng.randrange(N_UPLOADS))

    def node(self, depth, ctx, p_up):
        """ctx: 'value' (top-level value or list element of one), 'plain' (below a plain dict),
        'dumped' (below a model)."""
        r = self.rng.random()
        if r < p_up:
            return self.upload()
        if depth <= 0 or r < p_up + 0.3:
            return self.leaf()
        r = self.rng.random()
        if r < 0.35:
            return ("list", [self.node(depth - 1, ctx, p_up) for _ in range(self.rng.randint(0, 3))])
        if r < 0.65 or ctx == "plain":
            sub = "plain" if ctx != "dumped" else "dumped"
            ks = self.rng.sample(KEYS, self.rng.randint(0, 3))
            return ("dict", [(k, self.node(depth - 1, sub, p_up)) for k in ks])
        if p_up > 0 and self.rng.random() < 0.4:
            return self.typed_model(min(depth, 2))
        return self.model(depth, p_up)

    def typed_model(self, depth):
        """a generated-style input object whose Upload fields are annotated Upload / Optional[Upload] / List[Upload]"""
        rng = self.rng
        none = ("leaf", "none", None)
        fs = [("file", None, True, self.upload())]
        if rng.random() < 0.6:
            fs.append(("files", None, True, ("list", [self.upload() for _ in range(rng.randint(0, 3))])))
        else:
            fs.append(("files", None, False, none))
        r = rng.random()
        fs.append(("backup", "backupFile", True, self.upload()) if r < 0.4 else
                  ("backup", "backupFile", True, none) if r < 0.55 else ("backup", "backupFile", False, none))
        fs.append(("title", None, True, ("leaf", "str", "text")) if rng.random() < 0.5 else ("title", None, False, none))
        if depth > 0 and rng.random() < 0.4:
            fs.append(("parent", None, True, self.typed_model(depth - 1)))
        else:
            fs.append(("parent", None, False, none))
        if depth > 0 and rng.random() < 0.3:
            fs.append(("children", None, True, ("list", [self.typed_model(depth - 1) for _ in range(rng.randint(1, 2))])))
        else:
            fs.append(("children", None, False, none))
        return ("model", TYPED, fs)

    def model(self, depth, p_up):
        ci = self.rng.randrange(N_GENERIC)
        fs = []
        for py, al in MODEL_FIELDS[ci]:
            if self.rng.random() < 0.6:
                fs.append((py, al, True, self.node(depth - 1, "dumped", p_up)))
            else:
                fs.append((py, al, False, ("unset",) if (ci, py) in UNSET_DEFAULT else ("leaf", "none", None)))
        return ("model", ci, fs)

    def variables(self, stream):
        rng = self.rng
        p_up = rng.choice([0.0, 0.0, 0.15, 0.3])
        n = rng.randint(0, 4)
        ks = rng.sample(KEYS, n)
        out = []
        for k in ks:
            if rng.random() < 0.12:
                out.append((k, ("unset",)))
            else:
                out.append((k, self.node(rng.randint(0, 3), "value", p_up)))
        if stream == "model-under-dict":
            inner = self.typed_model(1) if rng.random() < 0.4 else self.model(2, rng.choice([0.0, 0.4]))
            wrap = ("dict", [("m", inner)]) if rng.random() < 0.6 else ("list", [("dict", [("k", ("list", [inner]))])])
            out.append(("wrapped", wrap))
        if stream == "nested-unset":
            w = rng.choice(["list", "dict", "model", "deep"])
            if w == "list":
                bad = ("list", [self.leaf(), ("unset",)])
            elif w == "dict":
                bad = ("dict", [("k", ("unset",))])
            elif w == "model":
                bad = ("model", 0, [("id_", "id", True, ("unset",)), ("name", None, False, ("leaf", "none", None)),
                                    ("sub", None, False, ("leaf", "none", None))])
            else:
                bad = ("list", [("dict", [("k", ("list", [("unset",)]))])])
            out.append(("bad", bad))
        return out


def tree_sx(n):
    t = n[0]
    if t == "leaf":
        return [Sym("leaf"), json_sx(n[2])]
    if t == "up":
        return [Sym("up"), n[1]]
    if t == "unset":
        return Sym("unset")
    if t == "list":
        return [Sym("list")] + [tree_sx(x) for x in n[1]]
    if t == "dict":
        return [Sym("dict")] + [[k, tree_sx(x)] for k, x in n[1]]
    if t == "model":
        return [Sym("model")] + [[[py, (Sym("none") if al is None else [Sym("some"), al]), st], tree_sx(x)]
                                 for py, al, st, x in n[2]]
    raise ValueError(n)


def vars_sx(vs):
    if vs is None:
        return Sym("none")
    return [Sym("some"), [Sym("dict")] + [[k, tree_sx(x)] for k, x in vs]]


# ---- the real Python value of a tree (fresh Upload objects per build) ----
_MODEL_CLASSES = None


def model_classes():
    global _MODEL_CLASSES
    if _MODEL_CLASSES is None:
        from typing import Any

        from pydantic import Field, create_model

        bm = _clients.dep_module("base_model")
        cls = []
        for i, fs in enumerate(MODEL_FIELDS):
            spec = {}
            for py, al in fs:
                dflt = bm.UNSET if (i, py) in UNSET_DEFAULT else None
                spec[py] = (Any, Field(alias=al, default=dflt) if al else Field(default=dflt))
            if i == TYPED:
                from typing import List, Optional

                ns = {"Optional": Optional, "List": List, "Upload": bm.Upload, "Field": Field, "BaseModel": bm.BaseModel}
                exec("class DocumentInput(BaseModel):\n"
                     "    file: Upload\n"
                     "    files: Optional[List[Upload]] = None\n"
                     "    backup: Optional[Upload] = Field(alias='backupFile', default=None)\n"
                     "    title: Optional[str] = None\n"
                     "    parent: Optional['DocumentInput'] = None\n"
                     "    children: Optional[List['DocumentInput']] = None\n"
                     "DocumentInput.model_rebuild(_types_namespace=dict(globals()))\n", ns)
                cls.append(ns["DocumentInput"])
                continue
            cls.append(create_model(f"VInput{i}", __base__=bm.BaseModel, **spec))
        _MODEL_CLASSES = cls
    return _MODEL_CLASSES


def upload_attrs(i):
    # uploads 0 and 1 have identical attributes: only identity tells them apart
    j = 0 if i == 1 else i
    return (f"f{j}.txt", f"content-{j}-\r\n--x".encode(), "text/plain" if j % 2 == 0 else "application/octet-stream")


STREAM_KINDS = ["bytesio", "file", "nonseek"]
POSITIONS = ["start", "mid", "end"]


def pos_of(name, n):
    return {"start": 0, "mid": n // 2, "end": n}[name]


class NonSeekable(io.RawIOBase):
    """A readable stream without random access (a socket / pipe like source)."""

    def __init__(self, data, pos):
        super().__init__()
        self._data, self.pos = data, pos

    def readable(self):
        return True

    def seekable(self):
        return False

    def readinto(self, b):
        chunk = self._data[self.pos:self.pos + len(b)]
        b[:len(chunk)] = chunk
        self.pos += len(chunk)
        return len(chunk)


class UploadStore:
    """The Upload objects of one call (main phase) or of one whole history (re-sent objects)."""

    def __init__(self, tmpdir):
        self.tmpdir, self.ups, self.kind, self.streams = tmpdir, {}, {}, {}

    def get(self, i, cfg):
        if i not in self.ups:
            bm = _clients.dep_module("base_model")
            fn, content, ct = upload_attrs(i)
            kind, posname = cfg[i] if cfg else ("bytesio", "start")
            pos = pos_of(posname, len(content))
            if kind == "bytesio":
                st = io.BytesIO(content)
                st.seek(pos)
            elif kind == "file":
                path = os.path.join(self.tmpdir, f"u{id(self)}_{i}.bin")
                with open(path, "wb") as fh:
                    fh.write(content)
                st = open(path, "rb")
                st.seek(pos)
            else:
                st = NonSeekable(content, pos)
            self.ups[i], self.kind[i], self.streams[i] = bm.Upload(filename=fn, content=st, content_type=ct), kind, st
        return self.ups[i]

    def state(self):
        return {i: (self.kind[i], st.pos if self.kind[i] == "nonseek" else st.tell()) for i, st in self.streams.items()}

    def close(self):
        for st in self.streams.values():
            try:
                st.close()
            except Exception:  # noqa: BLE001
                pass


def oracle_bytes(i, state):
    """Which bytes are "the file": the whole content of a seekable stream (wherever it stands when execute is
    called); a stream without random access can only give what is left from its position."""
    content = upload_attrs(i)[1]
    kind, pos = state[i]
    return content if kind != "nonseek" else content[pos:]


def build_py(vs, store=None, upcfg=None):
    bm = _clients.dep_module("base_model")
    if store is None:
        store = UploadStore(tempfile.gettempdir())

    def up(i):
        return store.get(i, upcfg)

    def go(n):
        t = n[0]
        if t == "leaf":
            f = PY_LEAF.get(n[1])
            return f() if f else n[2]
        if t == "up":
            return up(n[1])
        if t == "unset":
            return bm.UNSET
        if t == "list":
            return [go(x) for x in n[1]]
        if t == "dict":
            return {k: go(x) for k, x in n[1]}
        if t == "model":
            kw = {}
            for py, al, st, x in n[2]:
                if st:
                    kw[al if (al and (hash((py, len(kw))) & 1)) else py] = go(x)
            return model_classes()[n[1]](**kw)
        raise ValueError(n)

    if vs is None:
        return None
    if isinstance(vs, tuple):      # a single node
        return go(vs)
    return {k: go(x) for k, x in vs}


# ---- K2: type-directed dumping (Model dumpt) vs pydantic's model_dump of the Upload-annotated class ----
def doc_ann_sx(depth):
    inner = Sym("any") if depth <= 0 else doc_ann_sx(depth - 1)
    return [Sym("model"), ["file", Sym("upload")], ["files", [Sym("opt"), [Sym("list"), Sym("upload")]]],
            ["backup", [Sym("opt"), Sym("upload")]], ["title", [Sym("opt"), Sym("leaf")]],
            ["parent", [Sym("opt"), inner]], ["children", [Sym("opt"), [Sym("list"), inner]]]]


def typed_nodes(vs):
    out = []

    def go(n):
        if n[0] == "model" and n[1] == TYPED:
            out.append(n)
            return
        for x in (n[1] if n[0] == "list" else [x for _, x in n[1]] if n[0] == "dict" else [x for *_, x in n[2]] if n[0] == "model" else []):
            go(x)
    for _, x in vs or []:
        go(x)
    return out


def vt_sx_canon(e):
    if e == "unset":
        return ("unset",)
    t = e[0]
    if t == "leaf":
        return ("leaf", canon(sx_json(e[1])))
    if t == "up":
        return ("up", int(e[1]))
    if t == "list":
        return ("list", [vt_sx_canon(x) for x in e[1:]])
    if t == "dict":
        return ("dict", [(k, vt_sx_canon(x)) for k, x in e[1:]])
    return ("model", [(k, vt_sx_canon(x)) for k, x in e[1:]])


def real_dump_canon(v, ids):
    bm = _clients.dep_module("base_model")
    if isinstance(v, bm.Upload):
        return ("up", ids[id(v)])
    if isinstance(v, dict):
        return ("dict", [(k, real_dump_canon(x, ids)) for k, x in v.items()])
    if isinstance(v, list):
        return ("list", [real_dump_canon(x, ids) for x in v])
    return ("leaf", canon(v))


def k2_typed_dump(run, calls):
    nodes, seen = [], set()
    for c in calls:
        for n in typed_nodes(c.vs):
            key = json.dumps(n, default=str)
            if key not in seen:
                seen.add(key)
                nodes.append(n)
    if not nodes:
        run.broken("K2 typed dump", "no Upload-annotated model was generated")
        return
    res = model.batch("C11", [[Sym("dumpt"), doc_ann_sx(5), tree_sx(n)] for n in nodes])
    bad = 0
    for n, r in zip(nodes, res):
        run.count()
        if model.is_error(r):
            run.broken("model dumpt", repr(r))
            return
        store = UploadStore(tempfile.gettempdir())
        obj = build_py(n, store, None)
        ids = {id(u): i for i, u in store.ups.items()}
        real = real_dump_canon(obj.model_dump(by_alias=True, exclude_unset=True), ids)
        store.close()
        mt, mv = vt_sx_canon(r[0]), vt_sx_canon(r[1])
        if mt != mv:
            run.broken("model: dumpt and dumpv disagree (theorem C11_typed_dump_agrees contradicted)", json.dumps(n, default=str)[:800])
        if real != mt:
            bad += 1
            if bad <= 2:
                run.violation(f"K2: pydantic model_dump of the Upload-annotated input {json.dumps(n, default=str)[:300]} gives {real}, "
                              f"model dumpt gives {mt}: an Upload below an annotated field is not dumped as itself",
                              {"typed_model_tree": n, "real_dump": real, "model_dump": mt})
    run.extra["k2_typed_dumps"] = len(nodes)
    run.extra["k2_typed_dump_disagreements"] = bad


# ---- independent walk of the INPUT tree: where are the uploads (by wire path)? ----
def input_upload_paths(vs):
    out = []

    def go(path, n):
        t = n[0]
        if t == "up":
            out.append((path, n[1]))
        elif t == "list":
            for i, x in enumerate(n[1]):
                go(f"{path}.{i}", x)
        elif t == "dict":
            for k, x in n[1]:
                go(f"{path}.{k}", x)
        elif t == "model":
            for py, al, st, x in n[2]:
                if st:
                    go(f"{path}.{al or py}", x)

    for k, x in vs or []:
        go(f"variables.{k}", x)
    return out


def tree_size(vs):
    def go(n):
        if n[0] == "list":
            return 1 + sum(go(x) for x in n[1])
        if n[0] == "dict":
            return 1 + sum(go(x) for _, x in n[1])
        if n[0] == "model":
            return 1 + sum(go(x) for *_, x in n[2])
        return 1
    return sum(go(x) for _, x in vs or [])


def features(vs):
    f = set()

    def go(n, d, under):
        f.add(n[0] if n[0] != "leaf" else f"leaf:{n[1]}")
        if n[0] == "model" and n[1] == TYPED:
            f.add(f"Upload-annotated-field@depth{min(d, 4)}-under-{under}")
        if n[0] == "up":
            f.add(f"upload@depth{min(d, 4)}")
            f.add(f"upload-under-{under}")
        for x in (n[1] if n[0] == "list" else [x for _, x in n[1]] if n[0] == "dict" else [x for *_, x in n[2]] if n[0] == "model" else []):
            go(x, d + 1, n[0])

    for _, x in vs or []:
        go(x, 1, "top")
    ups = [i for _, i in input_upload_paths(vs)]
    if len(ups) != len(set(ups)):
        f.add("upload-referenced-twice")
    if {0, 1} <= set(ups):
        f.add("two-uploads-equal-attributes")
    return f


# ------------------------------------------------------------------ calls
HEADERS = [
    ("absent", None), ("empty", {}), ("custom", {"X-A": "1"}), ("two", {"Authorization": "Bearer b", "x-trace": "t"}),
    ("ct-exact", {"Content-Type": "application/graphql+json"}),
    ("ct-lower", {"content-type": "text/plain"}), ("ct-upper", {"CONTENT-TYPE": "text/plain", "X-A": "2"}),
    ("auth-lower", {"authorization": "call-token", "X-Call": "k"}),
]
# headers configured on the client object itself (its httpx client): must survive unless THIS call overrides them
CLIENT_HEADERS = {"Authorization": "client-token", "X-Client": "c1"}
# endpoint URLs of the client objects of the history pool (slot % len): path, trailing slash, query string, port
URLS = [_clients.URL, "http://verif.test/graphql/", "https://api.verif.test:8443/v1/graphql?tenant=a%20b&x=1"]
HTTPX_OWN = {"host", "accept", "accept-encoding", "connection", "user-agent", "content-length", "transfer-encoding"}
QUERIES = ["query Q { x }", "mutation M($f: Upload!) { up(f: $f) }", "query U { s(a: \"zażółć\") }", ""]


class Call:
    def __init__(self, idx, stream, vs, hname, headers, timeout, query, opname, upcfg=None):
        self.idx, self.stream, self.vs, self.hname, self.headers = idx, stream, vs, hname, headers
        self.timeout, self.query, self.opname = timeout, query, opname
        self.upcfg = upcfg or {i: ("bytesio", "start") for i in range(N_UPLOADS)}
        self.resp_i = 0          # index into RESPONSES: what the server answers to this call

    @property
    def resp(self):
        return RESPONSES[self.resp_i]

    def cmd(self):
        h = Sym("none") if self.headers is None else [Sym("some"), [[k, v] for k, v in self.headers.items()]]
        t = Sym("none") if self.timeout is None else [Sym("some"), self.timeout]
        o = Sym("none") if self.opname is None else [Sym("some"), self.opname]
        return [Sym("execute"), getattr(self, "url", _clients.URL), self.query, o, vars_sx(self.vs), h, t]

    def kwargs(self):
        kw = {}
        if self.headers is not None:
            kw["headers"] = dict(self.headers)
        if self.timeout is not None:
            kw["timeout"] = self.timeout
        return kw

    def replay(self):
        return {"stream": self.stream, "variables_tree": self.vs, "headers": self.headers, "timeout": self.timeout,
                "query": self.query, "operation_name": self.opname,
                "upload_streams": {str(i): list(v) for i, v in self.upcfg.items()},
                "server_response": {"status": self.resp[0], "json_body": self.resp[1]}}


def gen_calls(ctx):
    rng = ctx.rng
    g = Gen(rng)
    calls = []
    n_main = 4000 if ctx.thorough else 700
    plan = [("main", n_main), ("model-under-dict", n_main // 10), ("nested-unset", n_main // 14)]
    # systematic small cases first
    fixed = [
        None, [], [("a", ("unset",))], [("a", ("leaf", "none", None))], [("f", ("up", 0))],
        [("f", ("up", 0)), ("g", ("up", 0))], [("f", ("up", 0)), ("g", ("up", 1))],
        [("fs", ("list", [("up", 2), ("leaf", "none", None), ("up", 2)]))],
        [("i", ("model", 1, [("file", None, True, ("up", 3)), ("files", None, True, ("list", [("up", 3), ("up", 0)])),
                             ("type_", "type", False, ("leaf", "none", None)), ("sub_items", "subItems", True, ("dict", [("k", ("up", 0))]))]))],
        [("a", ("unset",)), ("b", ("unset",))],
        [("d", ("dict", [("0", ("up", 1)), ("1", ("list", [("up", 1)]))]))],
        # fields annotated with the real Upload class (generated input objects), at several depths
        [("doc", TDOC(0, [1, 0], 2))],
        [("docs", ("list", [TDOC(3), TDOC(3, [3])]))],
        [("payload", ("dict", [("doc", TDOC(2, None, None, TDOC(1, [0]))), ("n", ("leaf", "int", 7))]))],
        [("doc", TDOC(0, [], None, TDOC(1, None, 1, TDOC(2)), [TDOC(3), TDOC(0, [2, 2])]))],
        # Example C11_unset_in_unset_field_is_sent
        [("a", ("model", 4, [("opt", None, False, ("unset",)), ("y", "Y", True, ("leaf", "int", 1))]))],
        # Example C11_example_multipart (ex_vars)
        [("a", ("up", 3)), ("skip", ("unset",)), ("b", ("list", [("up", 3), ("dict", [("c", ("up", 2))])])),
         ("d", ("model", 0, [("id_", "id", True, ("leaf", "int", 1)), ("name", None, True, ("up", 3)),
                             ("sub", None, False, ("leaf", "none", None))]))],
        # Example C11_example_json
        [("x", ("unset",)), ("y", ("leaf", "none", None))],
        # regression witness of the fixed finding C11-model-under-dict (/repo dd85cf5)
        [("w", ("dict", [("m", ("model", 1, [("file", None, True, ("up", 0)), ("files", None, False, ("leaf", "none", None)),
                                             ("type_", "type", False, ("leaf", "none", None)),
                                             ("sub_items", "subItems", False, ("leaf", "none", None))]))]))],
    ]
    def rnd_cfg():
        return {i: (rng.choice(STREAM_KINDS), rng.choice(POSITIONS)) for i in range(N_UPLOADS)}

    for vs in fixed:
        for hname, h in HEADERS:
            calls.append(Call(len(calls), "main", vs, hname, h, None, QUERIES[0], "Q"))
    # Example C11_example_json, third conjunct: an UNSET met below the top level, nothing is sent
    calls.append(Call(len(calls), "nested-unset", [("l", ("list", [("unset",)]))], "absent", None, None, QUERIES[0], None))
    # every scripted answer on both request paths (JSON / multipart)
    for ri in range(len(RESPONSES)):
        for vs in ([("a", ("leaf", "int", 1))], [("f", ("up", 0))]):
            calls.append(Call(len(calls), "main", vs, "absent", None, None, QUERIES[1], "M"))
            calls[-1].resp_i = ri
    # every stream kind x position, one and two uploads
    for kind in STREAM_KINDS:
        for posname in POSITIONS:
            cfg = {i: (kind, posname) for i in range(N_UPLOADS)}
            calls.append(Call(len(calls), "main", [("f", ("up", 2))], "absent", None, None, QUERIES[1], "M", cfg))
            calls.append(Call(len(calls), "main", [("f", ("up", 2)), ("g", ("list", [("up", 3), ("up", 2)]))], "custom",
                              {"X-A": "1"}, None, QUERIES[1], "M", cfg))
    for stream, n in plan:
        for _ in range(n):
            vs = g.variables(stream)
            if rng.random() < 0.03:
                vs = None
            hname, h = rng.choice(HEADERS)
            calls.append(Call(len(calls), stream, vs, hname, h, rng.choice([None, None, 3, 7]),
                              rng.choice(QUERIES), rng.choice(["Q", "Op", None, "zażółć"]), rnd_cfg()))
            if rng.random() < 0.5:
                calls[-1].resp_i = rng.randrange(len(RESPONSES))
    return calls


# ------------------------------------------------------------------ captured request -> canonical
def parse_multipart(content: bytes, header_ct: str):
    from requests_toolbelt.multipart.decoder import MultipartDecoder

    first = content.split(b"\r\n", 1)[0]
    if not first.startswith(b"--"):
        raise ValueError("body is not multipart")
    boundary = first[2:].decode()
    dec = MultipartDecoder(content, f"multipart/form-data; boundary={boundary}")
    parts = []
    for p in dec.parts:
        cd = p.headers[b"Content-Disposition"].decode()
        name = re.search(r'name="([^"]*)"', cd).group(1)
        fn = re.search(r'filename="([^"]*)"', cd)
        parts.append((name, fn.group(1) if fn else None, p.headers.get(b"Content-Type", b"").decode() or None, p.content))
    return boundary, parts


def pairs_canon(text):
    """JSON text -> canon with key order and duplicates kept."""
    def hook(pairs):
        return _Obj(pairs)
    return _canon_obj(json.loads(text, object_pairs_hook=hook))


class _Obj:
    def __init__(self, pairs):
        self.pairs = pairs


def _canon_obj(v):
    if isinstance(v, _Obj):
        return ("obj", [(k, _canon_obj(x)) for k, x in v.pairs])
    if isinstance(v, list):
        return [_canon_obj(x) for x in v]
    return canon(v)


def capture(request):
    """What the property observes of an httpx.Request."""
    content = request.read()
    ct = request.headers.get_list("content-type")
    obs = {"method": request.method, "url": str(request.url), "headers": list(request.headers.multi_items()),
           "timeout": request.extensions.get("timeout"), "content_type": ct}
    if content.startswith(b"--"):
        boundary, parts = parse_multipart(content, ",".join(ct))
        obs["kind"] = "multipart"
        obs["boundary_in_header"] = any(boundary in c for c in ct)
        obs["parts"] = [(n, fn, pct, (pairs_canon(body.decode()) if fn is None else body)) for n, fn, pct, body in parts]
    else:
        obs["kind"] = "json"
        obs["body"] = pairs_canon(content.decode())
    return obs


def strip_volatile(obs):
    """for cross-variant / concurrent-vs-solo equality: drop nothing but the multipart boundary"""
    o = dict(obs)
    o["content_type"] = [re.sub(r"boundary=[0-9a-f]+", "boundary=*", c) for c in o.get("content_type", [])]
    o["headers"] = [(k, re.sub(r"boundary=[0-9a-f]+", "boundary=*", v)) for k, v in o.get("headers", [])]
    return o


# ------------------------------------------------------------------ running the implementation
def _opname_of(request):
    content = request.read()
    if content.startswith(b"--"):
        _, parts = parse_multipart(content, "")
        ops = [b for n, fn, _, b in parts if n == "operations"][0]
        return json.loads(ops)["operationName"]
    return json.loads(content)["operationName"]


def client_attrs(client):
    return {k: id(v) for k, v in vars(client).items()}


# scripted answers: the four clients must also agree on the OUTCOME (C12's classification) of whatever comes back
RESPONSES = [
    (200, {"data": {"echo": True}}),
    (201, {"data": None}),
    (200, {"data": {"a": None}, "errors": [{"message": "boom", "path": ["a"]}]}),
    (200, {"errors": [{"message": "first"}, {"message": "second", "extensions": {"code": "X"}}]}),
    (404, {"errors": [{"message": "nope"}]}),
    (400, {"data": None, "errors": [{"message": "bad variables"}]}),
    (500, None),                      # not JSON
    (200, None),
    (503, {"data": {"x": 1}}),
    (200, {"extensions": {}}),
]


def _respond(request, resp=None):
    import httpx

    st, body = resp if resp is not None else RESPONSES[0]
    if body is None:
        return httpx.Response(st, content=b"<html>gateway</html>", headers={"content-type": "text/html"})
    return httpx.Response(st, json=body)


def outcome_of(client, resp):
    """what the caller gets back for the response: data, or the exception as a caller sees it"""
    ex = _clients.dep_module("exceptions")
    try:
        return ("data", canon(client.get_data(resp)))
    except Exception as e:  # noqa: BLE001
        docs = (ex.GraphQLClientHttpError, ex.GraphQLClientInvalidResponseError, ex.GraphQLClientGraphQLMultiError)
        msgs = [canon(getattr(g, "message", None)) for g in getattr(e, "errors", [])] if hasattr(e, "errors") else None
        return ("raised", type(e).__name__, tuple(isinstance(e, c) for c in docs), getattr(e, "status_code", None), msgs,
                canon(getattr(e, "data", None)))


def expected_outcome(mo):
    """the C12 model's outcome (Model/GetData.v) in the form of outcome_of"""
    kind = mo[0]
    if kind == "data":
        return ("data", canon(sx_json(mo[1])))
    if kind == "http":
        return ("raised", "GraphQLClientHttpError", (True, False, False), int(mo[1]), None, None)
    if kind == "invalid":
        return ("raised", "GraphQLClientInvalidResponseError", (False, True, False), None, None, None)
    if kind == "multi":
        return ("raised", "GraphQLClientGraphQLMultiError", (False, False, True), None,
                [canon(sx_json(g[0])) for g in mo[1]], canon(sx_json(mo[2])))
    return ("raised", mo[1], (False, False, False), None, None, None)


def snap(v):
    """identity + contents of everything reachable from a caller-owned argument"""
    import pydantic

    bm = _clients.dep_module("base_model")
    if isinstance(v, dict):
        return ("dict", id(v), tuple((repr(k), snap(x)) for k, x in v.items()))
    if isinstance(v, list):
        return ("list", id(v), tuple(snap(x) for x in v))
    if isinstance(v, pydantic.BaseModel):
        return ("model", id(v), type(v).__name__, tuple(sorted(v.model_fields_set)),
                tuple((k, snap(x)) for k, x in v.__dict__.items()))
    if isinstance(v, bm.Upload):
        return ("upload", id(v), v.filename, v.content_type, id(v.content))
    return ("leaf", type(v).__name__, repr(v))


def snap_diff(a, b, path="variables"):
    if a == b:
        return None
    if a[0] != b[0] or a[0] in ("leaf", "upload"):
        return f"{path}: {a[0]} {a[2:] if a[0] != 'leaf' else a[2]} became {b[0]} {b[2:] if b[0] != 'leaf' else b[2]}"
    if a[1] != b[1]:
        return f"{path}: object replaced"
    if a[0] == "model":
        if a[3] != b[3]:
            return f"{path}: fields_set {a[3]} became {b[3]}"
        ka, kb = a[4], b[4]
    else:
        ka, kb = a[2], b[2]
    if len(ka) != len(kb):
        return f"{path}: {len(ka)} entries became {len(kb)}"
    for n, (x, y) in enumerate(zip(ka, kb)):
        if a[0] == "list":
            d = snap_diff(x, y, f"{path}[{n}]")
        else:
            if x[0] != y[0]:
                return f"{path}: key {x[0]} became {y[0]}"
            d = snap_diff(x[1], y[1], f"{path}[{x[0]}]")
        if d:
            return d
    return f"{path}: changed"


def _span_count(client):
    tr = getattr(client, "tracer", None)
    return len(tr.spans) if hasattr(tr, "spans") else None


def _spans_since(client, n0):
    """spans a recording tracer collected during this call: (name, [(attribute, value)...]) in the order set"""
    if n0 is None:
        return None
    return [(sp.name, list(sp.attrs.items()), sp.ended) for sp in client.tracer.spans[n0:]]


def check_spans(m, obs):
    """K1 for the telemetry path: Model execute_with_telemetry vs what the recording tracer saw."""
    if len(obs) < 7 or obs[6] is None:
        return []
    treq, mspans = m[6]
    diffs = []
    if treq != m[0]:
        diffs.append("model: telemetry path and plain path build different requests")
    got = obs[6]
    if [g[0] for g in got] != [sp[0] for sp in mspans]:
        return diffs + [f"span names {[g[0] for g in got]} != model {[sp[0] for sp in mspans]}"]
    for (name, attrs, ended), (_, mattrs) in zip(got, mspans):
        if not ended:
            diffs.append(f"span {name} not ended")
        if [k for k, _ in attrs] != [k for k, _ in mattrs]:
            diffs.append(f"span {name}: attributes {[k for k, _ in attrs]} != model {[k for k, _ in mattrs]}")
            continue
        for (k, v), (_, mv) in zip(attrs, mattrs):
            want = sx_json(mv)
            if k in ("variables", "map"):
                try:
                    if pairs_canon(v) != canon(want):
                        diffs.append(f"span {name}: {k} = {v!r}, model {want!r}")
                except (TypeError, ValueError):
                    diffs.append(f"span {name}: {k} is not JSON text: {v!r}")
            elif v != want:
                diffs.append(f"span {name}: {k} = {v!r}, model {want!r}")
    return diffs


def _prepare(c, store, cache):
    """the caller's objects for this call; with a cache (histories) the very same variables dict / headers dict
    objects are handed to execute again when the same tree / headers recur"""
    if cache is not None and getattr(c, "reuse", False):
        key = ("v", json.dumps(c.vs, default=str))
        if key not in cache:
            cache[key] = build_py(c.vs, store, c.upcfg)
        variables = cache[key]
        kw = c.kwargs()
        if "headers" in kw:
            kw["headers"] = cache.setdefault(("h", c.hname), kw["headers"])
    else:
        variables = build_py(c.vs, store, c.upcfg)
        kw = c.kwargs()
    return variables, kw


def _one_sync(client, c, captured, store, cache=None):
    captured.clear()
    variables, kw = _prepare(c, store, cache)
    st = store.state()
    before = (snap(variables), snap(kw))
    n0 = _span_count(client)
    captured["resp"] = getattr(c, "resp", None)
    try:
        resp = client.execute(c.query, operation_name=c.opname, variables=variables, **kw)
        r = ("sent", captured.get("req"), outcome_of(client, resp), st)
    except Exception as e:  # noqa: BLE001
        r = ("raised", type(e).__name__, captured.get("req"), st)
    after = (snap(variables), snap(kw))
    return r + (snap_diff(before[0], after[0]) or snap_diff(before[1], after[1], "kwargs"), store.state(),
                _spans_since(client, n0))


async def _one_async(client, c, captured, store, cache=None):
    captured.clear()
    variables, kw = _prepare(c, store, cache)
    st = store.state()
    before = (snap(variables), snap(kw))
    n0 = _span_count(client)
    captured["resp"] = getattr(c, "resp", None)
    try:
        resp = await client.execute(c.query, operation_name=c.opname, variables=variables, **kw)
        r = ("sent", captured.get("req"), outcome_of(client, resp), st)
    except Exception as e:  # noqa: BLE001
        r = ("raised", type(e).__name__, captured.get("req"), st)
    after = (snap(variables), snap(kw))
    return r + (snap_diff(before[0], after[0]) or snap_diff(before[1], after[1], "kwargs"), store.state(),
                _spans_since(client, n0))


def _run_variant(args):
    """All calls, one after the other, on ONE client object of the variant (one long history), then concurrent
    batches on another client; module-level state and client attributes snapshotted before/after."""
    vi, calls, conc_batches, seed = args
    import httpx

    v = _clients.variants()[vi]
    captured = {}
    tmp = tempfile.mkdtemp(prefix="c11u_")
    mod_before = _clients.module_state()
    results = []
    try:
        if v.is_async:
            async def go():
                async def handler(request):
                    captured["req"] = capture(request)
                    return _respond(request, captured.get("resp"))
                client = v.make(httpx.MockTransport(handler), client_headers=CLIENT_HEADERS)
                before = client_attrs(client)
                for c in calls:
                    store = UploadStore(tmp)
                    results.append(await _one_async(client, c, captured, store))
                    store.close()
                same = client_attrs(client) == before
                conc = []
                rng = random.Random(seed)
                for batch in conc_batches:
                    got = {}

                    async def chandler(request):
                        await asyncio.sleep(rng.random() * 0.002)
                        got[_opname_of(request)] = capture(request)
                        await asyncio.sleep(rng.random() * 0.002)
                        return _respond(request)
                    cclient = v.make(httpx.MockTransport(chandler), client_headers=CLIENT_HEADERS)
                    cb = client_attrs(cclient)

                    async def one(k, c):
                        await asyncio.sleep(rng.random() * 0.001)
                        resp = await cclient.execute(c.query, operation_name=c.opname,
                                                     variables=build_py(c.vs, UploadStore(tmp), c.upcfg), **c.kwargs())
                        return outcome_of(cclient, resp)
                    outs = await asyncio.gather(*[one(k, c) for k, c in enumerate(batch)], return_exceptions=True)
                    conc.append((got, [o if not isinstance(o, Exception) else ("raised", type(o).__name__) for o in outs],
                                 client_attrs(cclient) == cb))
                    await cclient.http_client.aclose()
                await client.http_client.aclose()
                return same, conc
            same, conc = _clients.run_coro(go())
        else:
            def handler(request):
                captured["req"] = capture(request)
                return _respond(request, captured.get("resp"))
            client = v.make(httpx.MockTransport(handler), client_headers=CLIENT_HEADERS)
            before = client_attrs(client)
            for c in calls:
                store = UploadStore(tmp)
                results.append(_one_sync(client, c, captured, store))
                store.close()
            same = client_attrs(client) == before
            conc = []
            import threading
            import time
            rng = random.Random(seed)
            for batch in conc_batches:
                got = {}
                lock = threading.Lock()

                def chandler(request):
                    time.sleep(rng.random() * 0.002)
                    o = capture(request)
                    with lock:
                        got[_opname_of(request)] = o
                    return _respond(request)
                cclient = v.make(httpx.MockTransport(chandler), client_headers=CLIENT_HEADERS)
                cb = client_attrs(cclient)

                def one(kc):
                    k, c = kc
                    try:
                        resp = cclient.execute(c.query, operation_name=c.opname,
                                               variables=build_py(c.vs, UploadStore(tmp), c.upcfg), **c.kwargs())
                        return outcome_of(cclient, resp)
                    except Exception as e:  # noqa: BLE001
                        return ("raised", type(e).__name__)
                with ThreadPoolExecutor(max_workers=8) as ex:
                    outs = list(ex.map(one, list(enumerate(batch))))
                conc.append((got, outs, client_attrs(cclient) == cb))
                cclient.http_client.close()
            client.http_client.close()
    finally:
        shutil.rmtree(tmp, ignore_errors=True)
    return v.name, results, same, conc, _clients.state_diff(mod_before, _clients.module_state())


def _run_histories(args):
    """Histories of 2-5 calls in ONE interpreter over a pool of client objects: two objects of each of the six
    variants (slot 2k: httpx client with its own headers, slot 2k+1: without).  The Upload objects live for the
    whole history (the same Upload is re-sent, possibly through another client object)."""
    histories, seed = args
    import httpx

    variants = _clients.variants()
    tmp = tempfile.mkdtemp(prefix="c11h_")
    mod_before = _clients.module_state()
    out = []

    async def go():
        pool = []
        for v in variants:
            for ch in (CLIENT_HEADERS, None):
                cap = {}
                if v.is_async:
                    async def handler(request, cap=cap):
                        cap["req"] = capture(request)
                        return _respond(request, cap.get("resp"))
                else:
                    def handler(request, cap=cap):
                        cap["req"] = capture(request)
                        return _respond(request, cap.get("resp"))
                client = v.make(httpx.MockTransport(handler), client_headers=ch, url=URLS[len(pool) % len(URLS)])
                pool.append((v, client, cap, client_attrs(client)))
        for h in histories:
            store = UploadStore(tmp)
            steps = []
            cache = {}
            for slot, c in h:
                v, client, cap, _ = pool[slot]
                if v.is_async:
                    steps.append(await _one_async(client, c, cap, store, cache))
                else:
                    steps.append(_one_sync(client, c, cap, store, cache))
            store.close()
            out.append(steps)
        same = [client_attrs(client) == before for _, client, _, before in pool]
        for v, client, _, _ in pool:
            if v.is_async:
                await client.http_client.aclose()
            else:
                client.http_client.close()
        return same

    try:
        same = _clients.run_coro(go())
    finally:
        shutil.rmtree(tmp, ignore_errors=True)
    return out, same, _clients.state_diff(mod_before, _clients.module_state())


def expected_wire_headers(merged, client_headers):
    """non-httpx headers that must be on the wire: this call's merged headers plus the client object's own
    headers it does not override (names case-insensitive)."""
    names = {k.lower() for k, _ in merged}
    return sorted([(k.lower(), v) for k, v in merged] +
                  [(k.lower(), v) for k, v in (client_headers or {}).items() if k.lower() not in names])


def wire_nonown(o, drop_multipart_ct):
    w = [(k, v) for k, v in o["headers"] if k not in HTTPX_OWN]
    if drop_multipart_ct:
        w = [(k, v) for k, v in w if not (k == "content-type" and v.startswith("multipart/form-data; boundary="))]
    return sorted(w)


# ------------------------------------------------------------------ model request -> expectations
MODEL_BYTES = {}
MODEL_POS = {}


def check_against_model(c: Call, m, obs, client_headers=None, url=None):
    """K1: list of differences between the model's request and the observation (empty = agree)."""
    req = m[0]
    kind = req[0]
    diffs = []
    if kind == "error":
        if obs[0] != "raised" or obs[2] is not None:
            diffs.append(f"model: serialisation error, nothing sent; impl: {obs[0]} {obs[1] if obs[0] == 'raised' else ''}")
        return diffs
    if obs[0] != "sent" or obs[1] is None:
        return [f"model sends a {kind} request; impl raised {obs[1]}"]
    o = obs[1]
    # the model's request URL is the client object's url, unchanged (s_url): for pool objects with another endpoint
    # the expectation is that endpoint
    if o["method"] != "POST" or o["url"] != (url or req[1]):
        diffs.append(f"method/url {o['method']} {o['url']} != POST {url or req[1]}")
    want_t = None if req[3] == "none" else int(req[3][1])
    if want_t is not None:
        if o["timeout"] != {"connect": want_t, "read": want_t, "write": want_t, "pool": want_t}:
            diffs.append(f"timeout {o['timeout']} != {want_t}")
    wire = [(k, v) for k, v in o["headers"]]
    if kind == "json":
        mh = [(k.lower(), v) for k, v in req[2]]
        names = {k for k, _ in mh}
        got = [(k, v) for k, v in wire if k in names]
        if got != mh:
            diffs.append(f"headers on the wire {got} != model {mh}")
        if wire_nonown(o, False) != expected_wire_headers(req[2], client_headers):
            diffs.append(f"all non-httpx headers on the wire {wire_nonown(o, False)} != model (this call alone) "
                         f"{expected_wire_headers(req[2], client_headers)}")
        if o["kind"] != "json":
            diffs.append("impl sent multipart, model JSON")
        elif o["body"] != canon(sx_json(req[4])):
            diffs.append(f"body {o['body']} != model {canon(sx_json(req[4]))}")
    else:
        mh = [] if req[2] == "none" else [(k.lower(), v) for k, v in req[2][1]]
        names = {k for k, _ in mh}
        got = [(k, v) for k, v in wire if k in names]
        if got != mh:
            diffs.append(f"caller headers on the wire {got} != model {mh}")
        mh_pairs = [] if req[2] == "none" else req[2][1]
        if wire_nonown(o, "content-type" not in names) != expected_wire_headers(mh_pairs, client_headers):
            diffs.append(f"all non-httpx headers on the wire {wire_nonown(o, 'content-type' not in names)} != model "
                         f"(this call alone) {expected_wire_headers(mh_pairs, client_headers)}")
        if "content-type" not in names:
            if len(o["content_type"]) != 1 or not o["content_type"][0].startswith("multipart/form-data; boundary=") \
                    or not o["boundary_in_header"]:
                diffs.append(f"content-type {o['content_type']}")
        if o["kind"] != "multipart":
            diffs.append("impl sent JSON, model multipart")
        else:
            parts = o["parts"]
            files = req[6]
            want = [("operations", None, None, canon(sx_json(req[4]))), ("map", None, None, canon(sx_json(req[5])))]
            state = obs[3]
            for name, uid in files:
                fn, content, ct = upload_attrs(int(uid))
                kind, pos = state.get(int(uid), ("bytesio", 0))
                want.append((name, fn, ct, MODEL_BYTES[(content, pos, kind != "nonseek")]))
            if parts != want:
                diffs.append(f"parts {parts} != model {want}")
            for name, uid in files:
                kind, pos = state.get(int(uid), ("bytesio", 0))
                exp_pos = MODEL_POS[(upload_attrs(int(uid))[1], pos, kind != "nonseek")]
                if len(obs) > 5 and obs[5].get(int(uid), (kind, exp_pos))[1] != exp_pos:
                    diffs.append(f"stream of upload {uid} left at {obs[5][int(uid)][1]}, model after_send {exp_pos}")
    return diffs


def k3_property(c: Call, obs, client_headers=None):
    """The property text on the captured request.  Returns (problems, finding_class or None)."""
    problems, cls = [], None
    if obs[0] != "sent" or obs[1] is None:
        if obs[0] == "raised" and obs[2] is not None:
            return [f"execute raised {obs[1]} after sending the request (answer {c.resp[0]}): the response never reaches get_data"], None
        return [f"no request sent: {obs[1]}"], None
    o = obs[1]
    ups = input_upload_paths(c.vs)
    if o["method"] != "POST":
        problems.append("method is not POST")
    if o["kind"] == "json":
        body = o["body"]
    else:
        ops = [p for p in o["parts"] if p[0] == "operations"]
        body = ops[0][3] if len(ops) == 1 else None
    if not (isinstance(body, tuple) and body[0] == "obj" and [k for k, _ in body[1]] == ["query", "operationName", "variables"]):
        problems.append(f"body keys are not exactly query, operationName, variables: {body}")
        return problems, cls
    bd = dict(body[1])
    if bd["query"] != c.query or bd["operationName"] != c.opname:
        problems.append("query/operationName altered")
    variables = bd["variables"]
    top_expected = [k for k, x in (c.vs or []) if x[0] != "unset"]
    if not (isinstance(variables, tuple) and variables[0] == "obj" and [k for k, _ in variables[1]] == top_expected):
        problems.append(f"variables keys {variables} != {top_expected} (UNSET must be omitted, everything else sent)")
    hdr = c.headers or {}
    if not ups:
        if o["kind"] != "json":
            problems.append("multipart without uploads")
        caller_ct = [v for k, v in hdr.items() if k.lower() == "content-type"]
        want_ct = caller_ct if caller_ct else ["application/json"]
        if o["content_type"] != want_ct:
            problems.append(f"Content-Type on the wire {o['content_type']}, expected {want_ct}")
            if caller_ct and "Content-Type" not in hdr:
                cls = "F20-content-type-case"
        for k, v in hdr.items():
            if k.lower() != "content-type" and dict_get_all(o["headers"], k.lower()) != [v]:
                problems.append(f"caller header {k} does not win: {dict_get_all(o['headers'], k.lower())}")
        merged = ([] if caller_ct else [("content-type", "application/json")]) + list(hdr.items())
        if not problems and wire_nonown(o, False) != expected_wire_headers(merged, client_headers):
            problems.append(f"headers on the wire {wire_nonown(o, False)} are not this call's headers + the client's own "
                            f"{expected_wire_headers(merged, client_headers)} (something from elsewhere was sent, or lost)")
    else:
        if o["kind"] != "multipart":
            problems.append("uploads present but the request is not multipart")
            return problems, cls
        parts = o["parts"]
        names = [p[0] for p in parts]
        if names[:2] != ["operations", "map"]:
            problems.append(f"parts order {names}")
        maps = [p for p in parts if p[0] == "map"]
        fmap = maps[0][3] if len(maps) == 1 else None
        if not (isinstance(fmap, tuple) and fmap[0] == "obj"):
            return problems + ["no map part"], cls
        listed = [(p, k) for k, ps in fmap[1] for p in ps]
        # every file position is null in operations
        for p, _k in listed:
            val = get_by_path(("obj", [("variables", variables)]), p)
            if val != ("found", None):
                problems.append(f"map path {p} is not null in operations: {val}")
        # map lists exactly the upload paths of the input
        if sorted(p for p, _ in listed) != sorted(p for p, _ in ups):
            problems.append(f"map paths {sorted(p for p, _ in listed)} != upload paths {sorted(p for p, _ in ups)}")
        # each distinct Upload once, all its paths under one key
        by_key = {}
        for p, k in listed:
            by_key.setdefault(k, set()).add(p)
        by_id = {}
        for p, i in ups:
            by_id.setdefault(i, set()).add(p)
        if sorted(map(sorted, by_key.values())) != sorted(map(sorted, by_id.values())):
            problems.append(f"grouping of paths by file {by_key} != by Upload object {by_id}")
        file_parts = [p for p in parts if p[1] is not None]
        if sorted(p[0] for p in file_parts) != sorted(by_key):
            problems.append(f"file parts {[p[0] for p in file_parts]} != map keys {sorted(by_key)}")
        if len(file_parts) != len(by_id):
            problems.append(f"{len(file_parts)} file parts for {len(by_id)} distinct uploads")
        for name, fn, pct, content in file_parts:
            ids = {i for p, i in ups if p in by_key.get(name, ())}
            if len(ids) != 1 or (fn, pct) != (upload_attrs(next(iter(ids)))[0], upload_attrs(next(iter(ids)))[2]):
                problems.append(f"file part {name} does not carry its upload: {fn} {pct}")
            elif content != oracle_bytes(next(iter(ids)), obs[3]):
                i0 = next(iter(ids))
                problems.append(f"file part {name} carries {content!r}, the file is {oracle_bytes(i0, obs[3])!r} "
                                f"(stream {obs[3][i0][0]} at offset {obs[3][i0][1]} when execute was called)")
        for k, v in hdr.items():
            if k.lower() != "content-type" and dict_get_all(o["headers"], k.lower()) != [v]:
                problems.append(f"caller header {k} does not win")
        has_ct = any(k.lower() == "content-type" for k in hdr)
        if not problems and wire_nonown(o, not has_ct) != expected_wire_headers(list(hdr.items()), client_headers):
            problems.append(f"headers on the wire {wire_nonown(o, not has_ct)} are not this call's headers + the client's own "
                            f"{expected_wire_headers(list(hdr.items()), client_headers)}")
    return problems, cls


def dict_get_all(items, name):
    return [v for k, v in items if k == name]


def get_by_path(root, p):
    cur = root
    for s in p.split("."):
        if isinstance(cur, tuple) and cur[0] == "obj":
            d = dict(cur[1])
            if s not in d:
                return ("missing", s)
            cur = d[s]
        elif isinstance(cur, list):
            if not s.isdigit() or int(s) >= len(cur):
                return ("missing", s)
            cur = cur[int(s)]
        else:
            return ("missing", s)
    return ("found", cur)


# ------------------------------------------------------------------ main
def run(ctx):
    run = ctx.run
    run.rule = ("seeded variables trees (dicts, lists, pydantic models on the bundled BaseModel with aliases and unset "
                "fields, UNSET, None, Upload at any depth, Uploads referenced twice, two Uploads with equal attributes, "
                "enum/date/datetime leaves) x upload streams (BytesIO / real file / non-seekable, positioned at start / "
                "middle / end before the call) x per-call headers (absent/empty/custom/Content-Type in 3 cases/"
                "authorization overriding the client object's own) x timeout x query/operationName, through execute of 6 "
                "client variants captured at httpx.MockTransport, each call answered by one of 10 scripted responses "
                "(2xx/4xx/5xx x data / errors / both / non-JSON) whose outcome must agree across variants and with the C12 model: (1) every call on one long-lived client object per "
                "variant (one long history), (2) histories of 2-5 calls over a pool of 12 client objects in one "
                "interpreter with Upload objects living for the whole history (re-sent, through other client objects "
                "too; the very same variables dict / nested list / headers dict OBJECTS handed to execute again), (3) "
                "concurrent batches; the caller's variables and kwargs deep-snapshotted (identity + contents, models, "
                "Uploads, stream positions) before/after every call; every captured request is compared with the stateless model's prediction "
                "for that call alone (all non-httpx wire headers, body, parts byte for byte); module-level state "
                "(globals, class attributes, function defaults of the six dependency modules) and vars(client) "
                "snapshotted before/after; non-trivial = tree with a container or an upload; distinct by (tree, headers)")
    run.assumptions += [
        "httpx 0.28 request construction, header merging/lower-casing and multipart encoding; requests_toolbelt decoder",
        "pydantic model_dump(by_alias, exclude_unset) / to_jsonable_python as modelled by dumpv/to_json (re-measured by K1 on every model case)",
        "interleavings inside httpx / the event loop are not modelled: concurrent runs are compared with solo runs",
        "httpx multipart FileField rewinds seekable streams (modelled as sent_bytes; re-measured on every upload part)",
    ]
    variants = _clients.variants()
    run.extra["clients"] = [v.name for v in variants]
    from . import src_consts
    src_consts.check_c11(run, model.call("C11", [Sym("constants")]))
    calls = gen_calls(ctx)
    # concurrent batches: copies of main-stream calls with unique operation names; each copy is also run solo
    rng = ctx.rng
    nb = 40 if ctx.thorough else 8
    mains = [c for c in calls if c.stream == "main"]
    batches = []
    for _ in range(nb):
        batch = []
        for _ in range(rng.randint(4, 12)):
            src = rng.choice(mains)
            cc = Call(len(calls), "conc", src.vs, src.hname, src.headers, src.timeout, src.query, f"C{len(calls)}")
            calls.append(cc)
            batch.append(cc)
        batches.append(batch)
    # histories: 2-5 calls over a pool of 12 client objects (2 per variant) in one interpreter; the Upload objects
    # live for the whole history.  Every step is also a call of its own (run solo in the main phase, model-predicted).
    nh = 400 if ctx.thorough else 70
    n_slots = 2 * len(variants)
    histories = []
    with_containers = [c for c in mains if features(c.vs) & {"list", "dict", "model"} and "up" in features(c.vs)] or mains
    for hi in range(nh):
        steps = []
        n = rng.randint(2, 5)
        shape = rng.choice(["mixed", "mixed", "same-client", "resend"])
        slot0 = rng.randrange(n_slots)
        base = rng.choice(with_containers if shape == "resend" and rng.random() < 0.8 else mains)
        cfg = {i: (rng.choice(STREAM_KINDS), rng.choice(POSITIONS)) for i in range(N_UPLOADS)}
        for k in range(n):
            src = base if (shape == "resend" and rng.random() < 0.7) else rng.choice(mains)
            hname, h = rng.choice(HEADERS)
            cc = Call(len(calls), "hist", src.vs, hname, h, rng.choice([None, 3, 7]), src.query, src.opname, cfg)
            cc.reuse = shape == "resend" or rng.random() < 0.5   # same variables/headers OBJECTS as earlier steps
            cc.resp_i = rng.randrange(len(RESPONSES))
            calls.append(cc)
            slot = slot0 if shape == "same-client" else rng.randrange(n_slots)
            cc.hist_url = URLS[slot % len(URLS)]
            steps.append((slot, cc))
        histories.append(steps)
    mres = model.batch("C11", [c.cmd() for c in calls])
    for c, m in zip(calls, mres):
        if model.is_error(m):
            run.broken("model", f"{m!r} on {c.replay()}")
            return
    k2_typed_dump(run, calls)
    exp_out = []
    for (st, body), r in zip(RESPONSES, model.batch("C12", [[Sym("get_data"), st, (Sym("none") if body is None else [Sym("some"), json_sx(body)])]
                                                            for st, body in RESPONSES])):
        if model.is_error(r):
            run.broken("model C12 get_data", repr(r))
            return
        exp_out.append(expected_outcome(r[0]))
    # the model's answer to "which bytes are sent" for every (content, position, seekable) that can occur
    combos = []
    for i in range(N_UPLOADS):
        content = upload_attrs(i)[1]
        for pos in sorted({0, len(content) // 2, len(content)}):
            for seekable in (True, False):
                combos.append((content, pos, seekable))
    combos = sorted(set(combos))
    for (content, pos, seekable), r in zip(combos, model.batch("C11", [[Sym("sent_bytes"), content.decode(), pos, seekable]
                                                                      for content, pos, seekable in combos])):
        if model.is_error(r):
            run.broken("model sent_bytes", repr(r))
            return
        MODEL_BYTES[(content, pos, seekable)] = r[0].encode()
        MODEL_POS[(content, pos, seekable)] = int(r[1])
    with ProcessPoolExecutor(max_workers=len(variants) + 1) as ex:
        hfut = ex.submit(_run_histories, (histories, ctx.seed))
        res = list(ex.map(_run_variant, [(i, calls, batches, ctx.seed + i) for i in range(len(variants))]))
        hres, hsame, hmod = hfut.result()
    k1, k3 = [], []
    ref_name, ref_results = res[0][0], res[0][1]
    # ---- histories: every step against the stateless model's prediction for that call alone + the property
    if hmod:
        k3.append((0, "histories", calls[0], [f"module-level state changed by calls: {hmod[:6]}"], None))
    for slot, ok in enumerate(hsame):
        if not ok:
            k3.append((0, variants[slot // 2].name, calls[0], ["client attributes changed by execute (history phase)"], None))
    for hi, (h, steps) in enumerate(zip(histories, hres)):
        for k, ((slot, c), obs) in enumerate(zip(h, steps)):
            run.count()
            vname = f"{variants[slot // 2].name}#{slot % 2}"
            ch = CLIENT_HEADERS if slot % 2 == 0 else None
            m = mres[c.idx]
            where = f"history {hi} step {k + 1}/{len(h)} on client object {vname}"
            hist_rep = [{"client_object": f"{variants[s0 // 2].name}#{s0 % 2}", "call": c0.replay()} for s0, c0 in h[:k + 1]]
            d = check_against_model(c, m, obs, ch, c.hist_url) + check_spans(m, obs)
            if obs[0] == "sent" and obs[2] != exp_out[c.resp_i]:
                d.append(f"outcome for the answer {c.resp}: {obs[2]}, C12 model {exp_out[c.resp_i]}")
            run.dist("history_client_url", c.hist_url)
            if d:
                k1.append((tree_size(c.vs) + 100 * k, vname, c, [f"{where}: " + d[0]] + d[1:], hist_rep))
            probs, cls = k3_property(c, obs, ch)
            if len(obs) > 4 and obs[4]:
                probs = [f"execute mutated its caller's arguments: {obs[4]}"] + probs
            if probs:
                k3.append((tree_size(c.vs) + 100 * k, vname, c, [f"{where}: " + probs[0]] + probs[1:], cls, hist_rep))
            run.dist("history_step", str(k + 1))
    run.extra["histories"] = len(histories)
    prev_calls = {}
    # the clients agree: for every call the requests/outcomes of all variants are grouped; more than one group fails
    full = [r for r in res if len(r[1]) == len(calls)]
    for c in calls:
        groups = {}
        for vname, results, *_ in full:
            obs = results[c.idx]
            key = repr((obs[0], strip_volatile(obs[1]) if obs[0] == "sent" and obs[1] else obs[1],
                        obs[2] if obs[0] == "sent" else None))
            groups.setdefault(key, []).append(vname)
        if len(groups) > 1:
            gs = sorted(groups.values(), key=len)
            k3.append((tree_size(c.vs), gs[0][0], c,
                       [f"the clients do not emit identical requests/outcomes for this call: {' vs '.join('+'.join(g) for g in gs)}"], None))
    for vname, results, same, conc, moddiff in res:
        if len(results) != len(calls):
            run.broken("impl run", f"{vname}: {len(results)} of {len(calls)}")
            continue
        if not same:
            k3.append((0, vname, calls[0], ["client attributes changed by execute"], None))
        if moddiff:
            k3.append((0, vname, calls[0], [f"module-level state changed by calls: {moddiff[:6]}"], None))
        for c, m, obs in zip(calls, mres, results):
            run.count()
            guard_ok, f_dict, f_ct, rt = m[1] == "t", m[2] == "t", m[3] == "t", m[4] == "t"
            d = check_against_model(c, m, obs, CLIENT_HEADERS) + check_spans(m, obs)
            if obs[0] == "sent" and obs[2] != exp_out[c.resp_i]:
                d.append(f"outcome for the answer {c.resp}: {obs[2]}, C12 model {exp_out[c.resp_i]}")
            if (m[7] == "t") != (m[0][0] == "error"):
                run.broken("model: error <-> UNSET met", json.dumps(c.replay(), default=str))
            if d:
                k1.append((tree_size(c.vs), vname, c, d))
            if not rt and guard_ok:
                run.broken("model round trip false inside the guard", json.dumps(c.replay(), default=str))
            if c.stream == "nested-unset":
                # nothing may be sent: the property's "UNSET never sent"
                if obs[0] == "sent" and obs[1] is not None and "unset" in json.dumps(obs[1], default=str).lower():
                    k3.append((tree_size(c.vs), vname, c, ["UNSET reached the wire"], None))
                if len(obs) > 4 and obs[4]:
                    k3.append((tree_size(c.vs), vname, c, [f"execute mutated its caller's arguments: {obs[4]}"], None))
                continue
            probs, cls = k3_property(c, obs, CLIENT_HEADERS)
            if len(obs) > 4 and obs[4]:
                probs = [f"execute mutated its caller's arguments: {obs[4]}"] + probs
            if f_dict and probs and cls is None and probs[0].startswith("no request sent"):
                cls = "C11-model-under-dict"
            if probs:
                k3.append((tree_size(c.vs), vname, c, probs, cls))
            if probs or d:
                prev_calls[(vname, c.idx)] = [x.replay() for x in calls[max(0, c.idx - 4):c.idx]]
        # concurrent vs solo
        for batch, (got, outs, csame) in zip(batches, conc):
            run.count(len(batch))
            if not csame:
                k3.append((0, vname, batch[0], ["client attributes changed by concurrent execute"], None))
            for k, c in enumerate(batch):
                solo = results[c.idx]
                g = got.get(c.opname)
                if g is None or solo[0] != "sent" or solo[1] is None:
                    k3.append((tree_size(c.vs), vname, c, [f"concurrent call {c.opname} sent nothing / solo {solo[0]}"], None))
                    continue
                if strip_volatile(g) != strip_volatile(solo[1]):
                    k3.append((tree_size(c.vs), vname, c, ["concurrent request differs from the solo request of the same call"], None))
                if outs[k] != solo[2]:
                    k3.append((tree_size(c.vs), vname, c, [f"concurrent outcome {outs[k]} differs from solo {solo[2]}"], None))
    # distributions
    for c, m in zip(calls, mres):
        run.dist("stream", c.stream)
        run.dist("headers", c.hname)
        run.dist("request_kind_model", m[0][0])
        run.dist("tree_size", "0" if tree_size(c.vs) == 0 else "1-3" if tree_size(c.vs) <= 3 else "4-10" if tree_size(c.vs) <= 10 else ">10")
        fs = features(c.vs)
        for f in fs:
            run.dist("features", f)
        for i in {i for _, i in input_upload_paths(c.vs)}:
            run.dist("upload_stream", f"{c.upcfg[i][0]}@{c.upcfg[i][1]}")
        if fs & {"list", "dict", "model", "up"}:
            run.nontrivial_case((json.dumps(c.vs, default=str), c.hname))
    run.extra["calls"] = len(calls)
    run.extra["concurrent_batches"] = len(batches)
    run.extra["k1_disagreements"] = len(k1)
    run.extra["k3_failures"] = len(k3)
    for c in calls[7 * 8:7 * 8 + 1] + [c for c in calls if c.stream == "main" and "upload-referenced-twice" in features(c.vs)][:2]:
        run.sample({"call": c.replay(), "model": repr(mres[c.idx][0])[:600]})
    # ---- decide ----
    k3.sort(key=lambda t: (t[0], t[1]))
    reported = set()
    for item in k3:
        size, vname, c, probs, cls = item[:5]
        rep = dict(c.replay(), client=vname, problems=probs)
        if len(item) > 5:
            rep["history"] = item[5]
        elif (vname, c.idx) in prev_calls:
            rep["note"] = ("main phase: all calls run one after the other on ONE client object per variant; the calls that "
                           "immediately preceded this one on that object are listed (a failure may depend on them)")
            rep["preceding_calls_on_the_same_client_object"] = prev_calls[(vname, c.idx)]
        if cls and cls in run.open_classes:
            run.finding(cls, f"{vname}: {probs[0]}", rep)
            continue
        key = (cls or "") + probs[0][:60]
        if key in reported or len(reported) >= 6:
            continue
        reported.add(key)
        run.violation((f"[{cls}; listed as fixed, it is back] " if cls else "") + f"{vname}: {probs[0]} (tree size {size})", rep)
    if k1 and not reported:
        k1.sort(key=lambda t: (t[0], t[1]))
        size, vname, c, d = k1[0][:4]
        run.violation(f"K1: model and {vname} disagree ({len(k1)} cases); smallest: {d[0][:300]}; the property's own oracle "
                      f"passes on every generated input", dict(c.replay(), client=vname, differences=d), found_input=False)
