"""C10 worker (fresh interpreter, PYTHONHASHSEED fixed by the parent): generation requests as gen_worker,
plus `probe`: the same generation with recording wrappers around the set-consuming functions of the
fragments module and of the operation modules — the ACTUAL iteration orders of the sets in this process
(= the oracle of Model/Nondet.v) and what the real functions returned.

No hook in the repository: the wrappers are installed from here, call the original, and only read.
request: {"cmd": "gen"|"probe", "listing_order": null|"reverse"|"shuffle:<n>", ...gen_worker request...}
"""
import json
import os
import sys
import traceback

HERE = os.path.dirname(os.path.abspath(__file__))
sys.path.insert(0, os.path.join(os.path.dirname(HERE), "impl"))
import gen_worker  # noqa: E402


def install_probes(rec):
    missing = []
    try:
        from ariadne_codegen.client_generators import fragments as fr
    except Exception as exc:  # noqa
        return [f"fragments module: {exc}"]
    FG = getattr(fr, "FragmentsGenerator", None)
    if FG is None or not hasattr(FG, "_get_sorted_fragments_names") or not hasattr(FG, "generate"):
        missing.append("FragmentsGenerator._get_sorted_fragments_names/generate")
    else:
        orig_sorted = FG._get_sorted_fragments_names
        orig_generate = FG.generate

        def _get_sorted_fragments_names(self, fragments_names, dependencies_dict):
            entry = {
                "names": sorted(fragments_names),
                "processed": list(dependencies_dict.keys()),
                "deps_iter": {k: list(v) for k, v in dependencies_dict.items()},
            }
            out = orig_sorted(self, fragments_names=fragments_names, dependencies_dict=dependencies_dict)
            entry["result"] = list(out)
            rec.setdefault("dfs", []).append(entry)
            return out

        def generate(self, exclude_names=None):
            rec.setdefault("fragments_generate", []).append({
                "defs": list(self.fragments_definitions.keys()),
                "exclude": sorted(exclude_names or []),
            })
            return orig_generate(self, exclude_names=exclude_names)

        FG._get_sorted_fragments_names = _get_sorted_fragments_names
        FG.generate = generate
    try:
        from ariadne_codegen.client_generators import result_types as rt
        RTG = rt.ResultTypesGenerator
        orig_imports = RTG._add_enums_scalars_fragments_imports
        orig_tv = RTG._get_typename_values
    except Exception as exc:  # noqa
        missing.append(f"ResultTypesGenerator probes: {exc}")
    else:
        def _add_enums_scalars_fragments_imports(self):
            from graphql import OperationDefinitionNode

            if isinstance(self.operation_definition, OperationDefinitionNode) and self.fragments_module_name:
                rec.setdefault("op_mixins", []).append({
                    "operation": self.operation_definition.name.value if self.operation_definition.name else None,
                    "module": self.fragments_module_name,
                    "iter": list(self._fragments_used_as_mixins),
                })
            return orig_imports(self)

        def _get_typename_values(self, field_context):
            out = orig_tv(self, field_context)
            for k, v in out.items():
                if len(v) > 1:
                    rec.setdefault("typename_raw", []).append({"type": k, "values": list(v)})
            return out

        RTG._add_enums_scalars_fragments_imports = _add_enums_scalars_fragments_imports
        RTG._get_typename_values = _get_typename_values
    return missing


PROBES = {"installed": False, "missing": [], "rec": {}}


def with_listing_order(order, fn):
    """Run fn() while pathlib's glob hands out its results in another order (reverse / seeded shuffle):
    the operating system may list a directory in any order; this is the oracle of Model/Nondet.v load_dir,
    injected at the pathlib boundary (the generator's code is untouched)."""
    import pathlib
    import random

    orig = pathlib.Path.glob

    def glob(self, pattern, **kw):
        items = list(orig(self, pattern, **kw))
        if order == "reverse":
            items.reverse()
        elif order.startswith("shuffle:"):
            random.Random(int(order.split(":")[1])).shuffle(items)
        return iter(items)

    pathlib.Path.glob = glob
    try:
        return fn()
    finally:
        pathlib.Path.glob = orig


def module_state():
    """Fingerprint of the interpreter-global state of ariadne_codegen: module globals, class attributes and
    function defaults that are mutable containers or AST nodes, and the size of every functools cache.
    {site: fingerprint}; compared before/after a generation — a generator that keeps nothing between
    generations leaves it unchanged."""
    import ast as _ast
    import importlib
    import pkgutil
    import types

    import ariadne_codegen

    for m in pkgutil.walk_packages(ariadne_codegen.__path__, "ariadne_codegen."):
        if ".dependencies" in m.name or m.name.endswith("__main__"):
            continue
        try:
            importlib.import_module(m.name)
        except Exception:  # noqa
            pass

    def fp(v, depth=0):
        if isinstance(v, _ast.AST):
            return "ast:" + _ast.dump(v)[:4000]
        if isinstance(v, (dict, list, set, frozenset, tuple)) and depth < 2:
            if isinstance(v, dict):
                items = [f"{k!r}:{fp(x, depth + 1)}" for k, x in v.items()]
            elif isinstance(v, (set, frozenset)):
                items = sorted(fp(x, depth + 1) for x in v)
            else:
                items = [fp(x, depth + 1) for x in v]
            return f"{type(v).__name__}[{len(v)}]" + "|".join(items)[:4000]
        r = repr(v)
        return r[:300]

    out = {}

    def visit_ns(prefix, ns, owner_module):
        for k, v in list(ns.items()):
            if k.startswith("__") and k.endswith("__"):
                continue
            site = f"{prefix}.{k}"
            if hasattr(v, "cache_info") and callable(getattr(v, "cache_info", None)):
                try:
                    out[site + " [cache]"] = f"currsize={v.cache_info().currsize}"
                except Exception:  # noqa
                    pass
            f = getattr(v, "__func__", v)
            if isinstance(f, types.FunctionType) and getattr(f, "__module__", None) == owner_module:
                for i, d in enumerate((f.__defaults__ or ()) + tuple((f.__kwdefaults__ or {}).values())):
                    if isinstance(d, (dict, list, set, _ast.AST)):
                        out[f"{site} [default {i}]"] = fp(d)
            elif isinstance(v, (dict, list, set, _ast.AST)):
                out[site] = fp(v)
            elif isinstance(v, type) and getattr(v, "__module__", None) == owner_module and not prefix.count("::"):
                visit_ns(f"{prefix}::{k}", vars(v), owner_module)

    for name, mod in sorted(sys.modules.items()):
        if name == "ariadne_codegen" or name.startswith("ariadne_codegen."):
            if ".dependencies" in name or mod is None:
                continue
            visit_ns(name, vars(mod), name)
    return out


def handle(req):
    if req.get("cmd") == "state":
        return {"ok": True, "state": module_state()}
    if req.get("listing_order"):
        order = req.pop("listing_order")
        return with_listing_order(order, lambda: handle(req))
    cmd = req.get("cmd", "gen")
    if cmd == "probe":
        if not PROBES["installed"]:
            PROBES["missing"] = install_probes(PROBES["rec"])
            PROBES["installed"] = True
        PROBES["rec"].clear()
        res = gen_worker.handle(req)
        res["probe"] = json.loads(json.dumps(PROBES["rec"]))
        res["probe_missing"] = PROBES["missing"]
        return res
    if PROBES["installed"]:
        return {"ok": False, "exc": ["worker.mixed", "plain generation requested in a probing worker"]}
    return gen_worker.handle(req)


def main():
    import warnings

    warnings.simplefilter("ignore")
    for line in sys.stdin:
        line = line.strip()
        if not line:
            continue
        req = json.loads(line)
        try:
            res = handle(req)
        except BaseException as exc:  # noqa
            if isinstance(exc, (KeyboardInterrupt, SystemExit)):
                raise
            res = {"ok": False, "exc": ["worker." + type(exc).__name__, str(exc)], "tb": traceback.format_exc()}
        sys.stdout.write(json.dumps(res) + "\n")
        sys.stdout.flush()


if __name__ == "__main__":
    main()
