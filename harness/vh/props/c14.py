"""C14 — the custom operation builder emits valid, faithful, history-free documents.

K1 (model <-> generator): Model/Builder.v `gen_classes` applied to the encoded schema/config vs the
    class table parsed (python `ast`) from the generated custom_fields.py / custom_queries.py /
    custom_mutations.py / custom_typing_fields.py: member order, attribute vs classmethod, constructor
    class, emitted name string, `arguments` dict (keys, "type" strings, serialize wrapping), method
    bodies of fields/alias/on, collector's class set; base_operation.py copied verbatim.
K3 (model <-> runtime, and the property oracle on the real code): a real client is generated with
    enable_custom_operations for seeded schemas, imported in a fresh interpreter, random builder
    expression trees are built after histories of earlier operations (fresh import state per
    history), sync and async, and the request captured at httpx.MockTransport is compared with the
    request predicted by the extracted model (graphql-core AST equality + variables JSON).
    Oracle on the captured request: graphql-core `validate` against the schema, execution with
    recording resolvers compared with the execution of the ideal request (every resolver sees the
    caller's values), and equality with the request the same expression yields in a fresh process
    (history freedom).
"""
from __future__ import annotations

import ast
import json
import os
import shutil
import subprocess
import sys
import tempfile
from concurrent.futures import ThreadPoolExecutor

from .. import model
from ..sexp import Sym, sx_json
from . import c14_gen as G

PY = "/venv/bin/python"
REPO = os.environ.get("VERIF_REPO", "/repo")
HERE = os.path.dirname(os.path.abspath(__file__))

GEN_SCRIPT = r"""
import json, sys
from ariadne_codegen.main import client
client(json.load(open("config.json")))
"""

C14SER = "def ser(x):\n    return {'ser': x}\n"


# ------------------------------------------------------------------------------------------------
# generation
# ------------------------------------------------------------------------------------------------
def generate(sc, root, idx):
    d = os.path.join(root, f"s{idx}")
    os.makedirs(d)
    pkg = f"c14pkg{idx}"
    open(os.path.join(d, "schema.graphql"), "w").write(G.sdl(sc))
    json.dump(G.config(sc, pkg), open(os.path.join(d, "config.json"), "w"))
    open(os.path.join(d, "c14ser.py"), "w").write(C14SER)
    env = dict(os.environ, PYTHONPATH=REPO, PYTHONDONTWRITEBYTECODE="1")
    p = subprocess.run([PY, "-c", GEN_SCRIPT], cwd=d, env=env, stdout=subprocess.PIPE,
                       stderr=subprocess.STDOUT, timeout=600)
    return {"dir": d, "pkg": pkg, "rc": p.returncode, "log": p.stdout.decode(errors="replace")[-3000:]}


# ------------------------------------------------------------------------------------------------
# K1: parse the generated modules into the class table
# ------------------------------------------------------------------------------------------------
BODY_FIELDS = "self._subfields.extend(subfields)\nreturn self"
BODY_ALIAS = "self._alias = alias\nreturn self"
BODY_ON = "self._inline_fragments[type_name] = subfields\nreturn self"
CLEARED = "cleared_arguments = {key: value for key, value in arguments.items() if value['value'] is not None}"


class K1Error(Exception):
    pass


def ser_root(val):
    """the parameter a serialize expression is about"""
    if isinstance(val, ast.IfExp) and isinstance(val.test, ast.Compare) and isinstance(val.test.left, ast.Name):
        return val.test.left.id
    if isinstance(val, ast.Call) and len(val.args) == 1 and isinstance(val.args[0], ast.Name):
        return val.args[0].id
    return None


def ser_shape(path, fname, e, var):
    """_generate_serialize_expr output -> G(...) None guard | L(...) list comprehension | S serialize call"""
    if isinstance(e, ast.IfExp):
        if ast.unparse(e.test) != f"{var} is not None" or ast.unparse(e.orelse) != "None":
            raise K1Error(f"{path}: {fname} serialize guard {ast.unparse(e)}")
        return "G(" + ser_shape(path, fname, e.body, var) + ")"
    if isinstance(e, ast.ListComp):
        g = e.generators
        if len(g) != 1 or g[0].ifs or g[0].is_async or not isinstance(g[0].target, ast.Name) \
                or ast.unparse(g[0].iter) != var:
            raise K1Error(f"{path}: {fname} serialize comprehension {ast.unparse(e)}")
        return "L(" + ser_shape(path, fname, e.elt, g[0].target.id) + ")"
    if isinstance(e, ast.Call) and isinstance(e.func, ast.Name) and e.func.id == "ser" and not e.keywords \
            and len(e.args) == 1 and ast.unparse(e.args[0]) == var:
        return "S"
    raise K1Error(f"{path}: {fname} serialize expression {ast.unparse(e)}")


def parse_classes(path, root_style):
    """-> {class: {"members": [...], "fields": bool, "on": bool, "alias": bool}}"""
    tree = ast.parse(open(path).read())
    out = {}
    for node in tree.body:
        if not isinstance(node, ast.ClassDef):
            continue
        info = {"members": [], "fields": False, "on": False, "alias": False,
                "bases": [ast.unparse(b) for b in node.bases]}
        for it in node.body:
            if isinstance(it, ast.Pass):
                continue
            if isinstance(it, ast.AnnAssign):
                v = it.value
                if not (isinstance(v, ast.Call) and isinstance(v.func, ast.Name) and len(v.args) == 1
                        and isinstance(v.args[0], ast.Constant) and not v.keywords):
                    raise K1Error(f"{path}: unexpected attribute value {ast.unparse(it)}")
                info["members"].append({"py": it.target.id, "method": False, "cls": v.func.id,
                                        "emit": v.args[0].value, "args": []})
                continue
            if not isinstance(it, ast.FunctionDef):
                raise K1Error(f"{path}: unexpected class member {ast.unparse(it)[:80]}")
            decos = [ast.unparse(x) for x in it.decorator_list]
            if decos == ["classmethod"]:
                info["members"].append(parse_method(path, it, root_style))
                continue
            body = [b for b in it.body if not (isinstance(b, ast.Expr) and isinstance(b.value, ast.Constant))]
            text = "\n".join(ast.unparse(b) for b in body)
            want = {"fields": BODY_FIELDS, "alias": BODY_ALIAS, "on": BODY_ON}.get(it.name)
            sig = ast.unparse(it.args)
            wsig = {"fields": None, "alias": "self, alias: str", "on": "self, type_name: str, *subfields: GraphQLField"}.get(it.name)
            if want is None or text != want or (wsig is not None and sig != wsig) or decos:
                raise K1Error(f"{path}: {node.name}.{it.name} has an unexpected shape: {sig} / {text!r}")
            if it.name == "fields" and not sig.startswith("self, *subfields"):
                raise K1Error(f"{path}: {node.name}.fields signature {sig}")
            info[it.name] = True
        out[node.name] = info
    return out


def parse_method(path, fn, root_style):
    a = fn.args
    params = [(x.arg, True) for x in a.args[1:]] + [(x.arg, False) for x in a.kwonlyargs]
    if a.args[0].arg != "cls" or a.vararg or a.kwarg or a.posonlyargs or a.defaults:
        raise K1Error(f"{path}: {fn.name} signature {ast.unparse(a)}")
    for dflt in a.kw_defaults:
        if not (isinstance(dflt, ast.Constant) and dflt.value is None):
            raise K1Error(f"{path}: {fn.name} keyword default {ast.unparse(dflt)}")
    body = list(fn.body)
    args = []
    if len(body) == 3:
        d = body[0]
        if not (isinstance(d, ast.AnnAssign) and d.target.id == "arguments" and isinstance(d.value, ast.Dict)):
            raise K1Error(f"{path}: {fn.name} arguments dict {ast.unparse(d)[:100]}")
        if ast.unparse(body[1]) != CLEARED:
            raise K1Error(f"{path}: {fn.name} cleared_arguments: {ast.unparse(body[1])}")
        pmap = dict(params)
        for k, v in zip(d.value.keys, d.value.values):
            if not (isinstance(v, ast.Dict) and [x.value for x in v.keys] == ["type", "value"]):
                raise K1Error(f"{path}: {fn.name} argument entry {ast.unparse(v)}")
            ty, val = v.values
            ser = False
            if isinstance(val, (ast.IfExp, ast.ListComp, ast.Call)):
                pn = ser_root(val)
                ser = ser_shape(path, fn.name, val, pn)
            elif isinstance(val, ast.Name):
                pn = val.id
            else:
                raise K1Error(f"{path}: {fn.name} argument value {ast.unparse(val)}")
            if pn not in pmap:
                raise K1Error(f"{path}: {fn.name} value name {pn} is not a parameter")
            args.append({"gql": k.value, "py": pn, "type": ty.value, "required": pmap[pn], "ser": ser})
        if sorted(p for p, _ in params) != sorted(x["py"] for x in args):
            raise K1Error(f"{path}: {fn.name} parameters {params} vs arguments {args}")
        body = body[2:]
    elif len(body) != 1 or params:
        raise K1Error(f"{path}: {fn.name} body has {len(body)} statements, params {params}")
    ret = body[0]
    if not (isinstance(ret, ast.Return) and isinstance(ret.value, ast.Call) and isinstance(ret.value.func, ast.Name)):
        raise K1Error(f"{path}: {fn.name} return {ast.unparse(ret)}")
    call = ret.value
    kws = {k.arg: k.value for k in call.keywords}
    if root_style:
        ok = not call.args and isinstance(kws.get("field_name"), ast.Constant)
        emit = kws["field_name"].value if ok else None
        rest = set(kws) - {"field_name"}
    else:
        ok = len(call.args) == 1 and isinstance(call.args[0], ast.Constant)
        emit = call.args[0].value if ok else None
        rest = set(kws)
    want_rest = {"arguments"} if args else set()
    if not ok or rest != want_rest or (args and ast.unparse(kws["arguments"]) != "cleared_arguments"):
        raise K1Error(f"{path}: {fn.name} constructor call {ast.unparse(call)}")
    return {"py": fn.name, "method": True, "cls": call.func.id, "emit": emit, "args": args}


# ------------------------------------------------------------------------------------------------
# K1: model DATA derived from /repo's source, and the runtime name loop, on every run
# ------------------------------------------------------------------------------------------------
def k1_source_tables(ctx, run):
    import importlib.util
    import itertools

    from ariadne_codegen.client_generators import constants as K

    got = model.call("C14", [Sym("suffixes")])
    want = [K.GRAPHQL_OBJECT_SUFFIX, K.GRAPHQL_INTERFACE_SUFFIX, K.GRAPHQL_UNION_SUFFIX, K.GRAPHQL_BASE_FIELD_CLASS]
    if got != want:
        run.broken("K1 class-name suffix table", f"model {got} vs constants.py {want}")
    stems = [K.CUSTOM_FIELDS_FILE_PATH.stem, K.CUSTOM_FIELDS_TYPING_FILE_PATH.stem, K.BASE_OPERATION_FILE_PATH.stem]
    if stems != ["custom_fields", "custom_typing_fields", "base_operation"]:
        run.broken("K1 builder module names", f"constants.py {stems}: the harness imports these modules by name")
    # _format_variable_name of the real runtime file vs Model.format_variable_name, adversarial used sets
    spec = importlib.util.spec_from_file_location(
        "c14_base_operation", os.path.join(REPO, "ariadne_codegen/client_generators/dependencies/base_operation.py"))
    mod = importlib.util.module_from_spec(spec)
    spec.loader.exec_module(mod)
    fld = mod.GraphQLField("f")
    cases = []
    names = ["a", "a_0", "a_0_1", "b"]
    for name in names:
        for idx in (0, 1, 10):
            base = f"{name}_{idx}"
            pool = [base] + [f"{base}_{c}" for c in range(1, 5)] + [f"a_{idx}", "a_0_1", "zz"]
            for k in range(0, 5):
                for comb in itertools.islice(itertools.combinations(pool, k), 40):
                    cases.append((idx, name, list(comb)))
    for _ in range(300):
        idx = ctx.rng.randint(0, 12)
        name = ctx.rng.choice(names)
        base = f"{name}_{idx}"
        used = [base] + [f"{base}_{c}" for c in range(1, ctx.rng.randint(1, 30))]
        ctx.rng.shuffle(used)
        cases.append((idx, name, used))
    res = model.batch("C14", [[Sym("fmtname"), i, n, u] for i, n, u in cases])
    bad = 0
    for (i, n, u), r in zip(cases, res):
        s = set(u)
        impl = fld._format_variable_name(i, n, s)
        mres = r[1] if isinstance(r, list) and r and r[0] == "some" else None
        run.count()
        if impl != mres or impl in u or s != set(u) | {impl}:
            bad += 1
            if bad <= 3:
                run.violation(f"K1 _format_variable_name({i}, {n!r}, {sorted(u)}) = {impl!r}, model {mres!r}",
                              {"idx": i, "name": n, "used": u, "impl": impl, "model": mres},
                              found_input=(impl in u))
    run.extra["k1_name_loop_cases"] = len(cases)
    run.dist("k1", "name_loop", len(cases))


def check_imports(sc, d):
    """every `from .X import Y` of a builder module resolves inside the package, enums/inputs come from
    the configured modules, and every name the module uses is bound"""
    import builtins

    problems = []
    enums_mod = sc["conf"].get("enums_module", "enums")
    inputs_mod = sc["conf"].get("inputs_module", "input_types")

    def top_names(path):
        t = ast.parse(open(path).read())
        out = set()
        for n in t.body:
            if isinstance(n, (ast.ClassDef, ast.FunctionDef, ast.AsyncFunctionDef)):
                out.add(n.name)
            elif isinstance(n, (ast.Import, ast.ImportFrom)):
                out |= {(a.asname or a.name).split(".")[0] for a in n.names}
            elif isinstance(n, (ast.Assign, ast.AnnAssign)):
                for tg in (n.targets if isinstance(n, ast.Assign) else [n.target]):
                    if isinstance(tg, ast.Name):
                        out.add(tg.id)
        return out

    for fname in ("custom_fields.py", "custom_queries.py", "custom_mutations.py", "custom_typing_fields.py"):
        path = os.path.join(d, fname)
        if not os.path.exists(path):
            continue
        tree = ast.parse(open(path).read())
        bound = set(dir(builtins))
        for n in ast.walk(tree):
            if isinstance(n, ast.ImportFrom):
                for a in n.names:
                    bound.add(a.asname or a.name)
                if n.level == 1:
                    target = os.path.join(d, (n.module or "__init__") + ".py")
                    if not os.path.exists(target):
                        problems.append(f"{fname}: from .{n.module} import …: no such module in the package")
                        continue
                    have = top_names(target)
                    for a in n.names:
                        if a.name not in have:
                            problems.append(f"{fname}: from .{n.module} import {a.name}: not defined there")
                        if a.name in sc["enums"] and n.module != enums_mod:
                            problems.append(f"{fname}: enum {a.name} imported from .{n.module}, configured module is {enums_mod}")
                        if a.name in sc["inputs"] and n.module != inputs_mod:
                            problems.append(f"{fname}: input {a.name} imported from .{n.module}, configured module is {inputs_mod}")
            elif isinstance(n, ast.Import):
                bound |= {(a.asname or a.name).split(".")[0] for a in n.names}
            elif isinstance(n, (ast.ClassDef, ast.FunctionDef)):
                bound.add(n.name)
            elif isinstance(n, ast.arg):
                bound.add(n.arg)
            elif isinstance(n, ast.Name) and isinstance(n.ctx, ast.Store):
                bound.add(n.id)
        used = {n.id for n in ast.walk(tree) if isinstance(n, ast.Name) and isinstance(n.ctx, ast.Load)}
        # quoted annotations and return types
        for n in ast.walk(tree):
            anns = []
            if isinstance(n, ast.FunctionDef):
                anns = [n.returns] + [a.annotation for a in n.args.args + n.args.kwonlyargs] \
                    + ([n.args.vararg.annotation] if n.args.vararg else [])
            elif isinstance(n, ast.AnnAssign):
                anns = [n.annotation]
            for an in anns:
                for c in (ast.walk(an) if an is not None else []):
                    if isinstance(c, ast.Constant) and isinstance(c.value, str) and c.value.isidentifier():
                        used.add(c.value)
        for name in sorted(used - bound):
            problems.append(f"{fname}: name {name} is used but neither imported nor defined")
    return problems


def k1_compare(run, sc, gen, mclasses, label):
    """returns (present class names, class capability table) or None when broken"""
    d = os.path.join(gen["dir"], gen["pkg"])
    problems = []
    try:
        cf = parse_classes(os.path.join(d, "custom_fields.py"), False)
        ctf = parse_classes(os.path.join(d, "custom_typing_fields.py"), False)
        cq = parse_classes(os.path.join(d, "custom_queries.py"), True)
        cm = parse_classes(os.path.join(d, "custom_mutations.py"), True) if sc["mutation"] else {}
    except (K1Error, OSError, SyntaxError) as e:
        if _budget(run, "k1"):
            run.broken("K1 parse of generated builder modules", f"{label}: {e}")
        return None
    base_src = open(os.path.join(REPO, "ariadne_codegen/client_generators/dependencies/base_operation.py")).read()
    if open(os.path.join(d, "base_operation.py")).read().strip() != base_src.strip():
        # the package may carry a header comment; compare the code
        a = ast.dump(ast.parse(open(os.path.join(d, "base_operation.py")).read()))
        if a != ast.dump(ast.parse(base_src)):
            problems.append("base_operation.py in the package differs from dependencies/base_operation.py")
    problems += check_imports(sc, d)
    caps = {"GraphQLField": (False, False)}
    for name, info in {**ctf, **cf}.items():
        caps[name] = (info["fields"], info["on"])
        if not info["alias"]:
            problems.append(f"class {name} has no alias()")
    gen_all = {**cf, **cq, **cm}
    mtab = {c[0]: c[1] for c in mclasses}
    want_present = {n + ("Fields" if k == "o" else "Interface")
                    for n in G.collected(sc) for k in [next(t["kind"] for t in sc["types"] if t["name"] == n)]}
    if set(cf) != want_present:
        problems.append(f"custom_fields classes {sorted(cf)} vs collector {sorted(want_present)}")
    roots = {"Query"} | ({"Mutation"} if sc["mutation"] else set())
    for cname in sorted(set(cf) | roots):
        if cname not in mtab:
            problems.append(f"class {cname} generated but not in the model's table")
            continue
        if cname not in gen_all:
            problems.append(f"class {cname} missing from the generated modules")
            continue
        mm = []
        for fm in mtab[cname]:
            py, gql, emit, meth, ocls, okind, ams = fm
            mm.append({"py": py, "method": meth == "t", "cls": ocls, "emit": emit,
                       "args": [{"gql": a[0], "py": a[1], "type": a[2], "required": a[4] == "t",
                                 "ser": (a[5] or False)} for a in ams]})
            want_caps = {"fields": (True, False), "iface": (True, True), "union": (False, True), "leaf": (False, False)}[okind]
            if ocls in caps and caps[ocls] != want_caps:
                problems.append(f"{cname}.{py}: class {ocls} has (fields,on)={caps[ocls]}, model kind {okind}")
        gm = gen_all[cname]["members"]
        if gm != mm:
            for x, y in zip(gm, mm):
                if x != y:
                    problems.append(f"{cname}: generated member {x} vs model {y}")
                    break
            else:
                problems.append(f"{cname}: {len(gm)} generated members vs {len(mm)} in the model")
    for p in problems[:2]:
        if not _budget(run, "k1"):
            break
        run.violation(f"K1 {label}: {p}", {"stage": "K1", "scenario": label, "problem": p, "schema": G.sdl(sc),
                                           "config": sc["conf"]}, found_input=False)
    return set(cf) | set(ctf) | roots | {"GraphQLField"}, bool(problems)


# ------------------------------------------------------------------------------------------------
# rendering model output, executing with recording resolvers
# ------------------------------------------------------------------------------------------------
def render_sels(sels, argf, ind=1):
    out = []
    pad = "  " * ind
    for s in sels:
        if s[0] == "f":
            alias = "" if s[1] == "none" else s[1][1] + ": "
            args = ""
            if s[3]:
                args = "(" + ", ".join(argf(a) for a in s[3]) + ")"
            if s[4] == "none":
                out.append(f"{pad}{alias}{s[2]}{args}")
            else:
                out.append(f"{pad}{alias}{s[2]}{args} {{\n" + render_sels(s[4][1], argf, ind + 1) + f"\n{pad}}}")
        else:
            out.append(f"{pad}... on {s[1]} {{\n" + render_sels(s[2], argf, ind + 1) + f"\n{pad}}}")
    return "\n".join(out)


def render_request(kind, name, vardefs, sels, argf):
    vd = ""
    if vardefs:
        vd = "(" + ", ".join(f"${n}: {t}" for n, t in vardefs) + ")"
    return f"{kind} {name}{vd} {{\n" + render_sels(sels, argf) + "\n}"


def model_request(kind, name, req):
    """model ("ok" vardefs sels values) -> (text, variables)"""
    _, vardefs, sels, values = req
    text = render_request(kind, name, vardefs, sels, lambda a: f"{a[0]}: ${a[1]}")
    return text, {k: sx_json(v) for k, v in values}


def ideal_request(kind, name, idl):
    """ideal ("ok" sels) with args (name type json) -> (text, variables) with fresh variables"""
    vardefs, values = [], {}

    def argf(a):
        v = f"v{len(vardefs)}"
        vardefs.append((v, a[1]))
        values[v] = sx_json(a[2])
        return f"{a[0]}: ${v}"

    body = render_sels(idl[1], argf)
    vd = "(" + ", ".join(f"${n}: {t}" for n, t in vardefs) + ")" if vardefs else ""
    return f"{kind} {name}{vd} {{\n{body}\n}}", values


class Executor:
    def __init__(self, sdl_text):
        import graphql

        self.g = graphql
        self.schema = graphql.build_schema(sdl_text)

    def parse(self, text):
        return self.g.parse(text, no_location=True)

    def validate(self, doc):
        return [e.message for e in self.g.validate(self.schema, doc)]

    def record(self, doc, variables):
        g = self.g
        allrec = []
        for choice in range(3):
            rec = []

            def make(t):
                if g.is_non_null_type(t):
                    return make(t.of_type)
                if g.is_list_type(t):
                    return [make(t.of_type)]
                if g.is_object_type(t):
                    return {"__typename": t.name}
                if g.is_abstract_type(t):
                    poss = sorted(self.schema.get_possible_types(t), key=lambda x: x.name)
                    return {"__typename": poss[choice % len(poss)].name}
                if g.is_enum_type(t):
                    return list(t.values)[0]
                return {"Int": 1, "Float": 1.5, "Boolean": True}.get(t.name, "s")

            def resolver(source, info, **args):
                rec.append([list(info.path.as_list()), info.parent_type.name, info.field_name,
                            json.dumps(args, sort_keys=True, default=str)])
                return make(info.return_type)

            res = g.execute_sync(self.schema, doc, variable_values=variables, field_resolver=resolver,
                                 type_resolver=lambda v, info, t: v["__typename"])
            errs = [e.message for e in (res.errors or [])]
            allrec.append({"calls": sorted(rec, key=json.dumps), "errors": errs})
        return allrec


# ------------------------------------------------------------------------------------------------
# witness corpus: one minimal case per finding class, on the fixed schema (snake_case on, async)
# ------------------------------------------------------------------------------------------------
def Q(f, **kw):
    return ["call", "Query", f, [[k, v] for k, v in kw.items()]]


def C(cls, f, **kw):
    return ["call", cls, f, [[k, v] for k, v in kw.items()]]


def At(cls, f):
    return ["attr", cls, f]


def Fs(e, *es):
    return ["fields", e, list(es)]


def witnesses():
    """(class, history) — histories are lists of operations, an operation is a list of expressions"""
    pid = At("PersonFields", "id")
    return [
        ("F15-list-wrapper", [[Fs(Q("animals", ids=["1"]), At("AnimalInterface", "id"))]]),
        ("F15-python-name", [[Fs(Q("person", id="1"), Fs(C("PersonFields", "pets"), Fs(C("AnimalInterface", "best_friend"), At("AnimalInterface", "name"))))]]),
        ("F15-deep-vars", [[Fs(Q("person", id="1"), ["on", C("PersonFields", "pets"), "Dog",
                                                       [Fs(C("DogFields", "owner"), C("PersonFields", "x", a=1))]])]]),
        ("F15-shared-mutation", [[Fs(Q("me"), ["alias", pid, "n1"])], [Fs(Q("me"), pid)]]),
        ("F15-shared-mutation", [[Fs(Q("me"), ["on", At("PersonFields", "favourite"), "Dog", [At("DogFields", "name")]])],
                                 [Fs(Q("me"), ["on", At("PersonFields", "favourite"), "Cat", [At("CatFields", "name")]])]]),
        ("F15-shared-mutation", [[Fs(Q("me"), ["alias", pid, "n1"], pid)]]),     # aliased and plain, one operation
        ("F15-serialize-none", [[Fs(Q("person", id="1"), Fs(C("PersonFields", "friend"), pid))]]),
        ("F15-var-collision", [[Fs(["alias", Q("p", a=1), "u"], ["alias", C("PersonFields", "x", a=5), "v"]),
                                Fs(Q("p", a_0=3), C("PersonFields", "x", a=7))]]),
        # regression for 3032a3a (C07's fix): list-typed serialised arguments, item by item, None item kept
        ("F10-serialize-list", [[Fs(Q("events", at=["a", "b"], opt=[None, "c"]), pid)]]),
        (None, [[Fs(Q("person", id="1"), pid, At("PersonFields", "full_name"), Fs(C("PersonFields", "friend", since="t0"), pid))],
                [Fs(["alias", Q("me"), "m"], C("PersonFields", "x", a=1, a_0=2)), Q("version")]]),
    ]


def to_driver(e, tab):
    """model expression (GraphQL argument names, JSON values) -> driver expression (Python parameter
    names); used for the witness corpus whose values are plain JSON"""
    k = e[0]
    if k == "attr":
        return e
    if k == "call":
        ams = {fm[0]: fm for fm in tab[e[1]]}[e[2]][6]
        py = {a[0]: a[1] for a in ams}
        return ["call", e[1], e[2], [[py[a], v] for a, v in e[3]]]
    if k == "fields":
        return ["fields", to_driver(e[1], tab), [to_driver(x, tab) for x in e[2]]]
    if k == "alias":
        return ["alias", to_driver(e[1], tab), e[2]]
    return ["on", to_driver(e[1], tab), e[2], [to_driver(x, tab) for x in e[3]]]


def to_driver_let(e, tab):
    if e[0] == "let":
        return ["let", e[1], to_driver_let(e[2], tab)]
    if e[0] == "ref":
        return e
    if e[0] in ("attr", "call"):
        return to_driver(e, tab)
    if e[0] == "alias":
        return ["alias", to_driver_let(e[1], tab), e[2]]
    if e[0] == "fields":
        return ["fields", to_driver_let(e[1], tab), [to_driver_let(x, tab) for x in e[2]]]
    return ["on", to_driver_let(e[1], tab), e[2], [to_driver_let(x, tab) for x in e[3]]]


def strip_let(e):
    return e      # expand_refs already removed let/ref


# the collector witness (finding class F15-interface-uncollected)
def collector_schema():
    sc = G.fixed_schema()
    F = lambda n, t, args=(): {"name": n, "args": list(args), "type": t}
    sc["types"] = [
        {"name": "Animal", "kind": "i", "fields": [F("name", G.T("String"))], "ifaces": []},
        {"name": "Dog", "kind": "o", "fields": [F("name", G.T("String"))], "ifaces": ["Animal"]},
        {"name": "Person", "kind": "o", "fields": [F("pet", G.T("Animal")), F("id", G.T("ID"))], "ifaces": []},
        {"name": "Query", "kind": "o", "fields": [F("me", G.T("Person"))], "ifaces": []},
    ]
    sc["mutation"] = None
    return sc


def _budget(run, kind, limit=5):
    """correspondence-only reports (no concrete failing input) are capped per kind so that the
    violations WITH a failing input are always among the lines printed; totals go to the evidence"""
    b = run.extra.setdefault("reports_" + kind, 0)
    run.extra["reports_" + kind] = b + 1
    return b < limit


# the regression cases of the seven repaired classes stay in the witness corpus; their classes are
# no longer open, so a failure there is a VIOLATION again


# ------------------------------------------------------------------------------------------------
def run(ctx):
    run = ctx.run
    rng = ctx.rng
    run.rule = ("one evaluation = one builder operation (1-3 top-level fields, expression depth <= 4) executed on a real "
                "generated client after 0-3 earlier operations of the same process, request captured at the transport "
                "and compared with the extracted model and the property oracle; non-trivial = distinct operation "
                "(by expression) that carries at least one variable or an alias/on and nests at least 2 levels")
    run.assumptions += [
        "graphql-core 3.2.12 (parse, validate, execute) and pydantic serialisation of input models are library behaviour",
        "builder expressions are trees (an object returned by a classmethod has one owner); Python-level sharing "
        "of such an object through a variable is outside the model",
        "serialize functions are total; the harness configures ser(x) = {'ser': x}",
    ]
    n_rand = 60 if ctx.thorough else 13
    hist_per = 60 if ctx.thorough else 34
    root = tempfile.mkdtemp(prefix="c14-")
    try:
        _run(ctx, run, rng, root, n_rand, hist_per)
    finally:
        shutil.rmtree(root, ignore_errors=True)


def _run(ctx, run, rng, root, n_rand, hist_per):
    scen = [("fixed", G.fixed_schema()), ("collector", collector_schema())]
    for i in range(n_rand):
        scen.append((f"rand{i}", G.gen_schema(rng, i)))
    with ThreadPoolExecutor(max_workers=16) as ex:
        gens = list(ex.map(lambda p: generate(p[1][1], root, p[0]), enumerate(scen)))
    worlds = [G.world_sx(sc) for _, sc in scen]
    k1_source_tables(ctx, run)
    mcls = model.batch("C14", [[Sym("classes"), w] for w in worlds])
    jobs = []
    for (label, sc), gen, w, mc in zip(scen, gens, worlds, mcls):
        run.dist("config", f"snake={sc['conf']['snake']},async={sc['conf']['async']}")
        if gen["rc"] != 0:
            run.broken("generation with enable_custom_operations failed", f"{label}: {gen['log']}\n{G.sdl(sc)}")
            continue
        if model.is_error(mc):
            run.broken("model classes", f"{label}: {mc}")
            continue
        k1 = k1_compare(run, sc, gen, mc[1], label)
        run.count()
        if k1 is None:
            # K1 is broken (reported above); K3 still runs so that the search can tell whether the
            # property itself fails on the changed tree
            present = ({n + ("Fields" if t["kind"] == "o" else "Interface") for n in G.collected(sc)
                        for t in sc["types"] if t["name"] == n}
                       | {t["name"] + "Union" for t in sc["types"] if t["kind"] == "u"}
                       | {t["name"] + "GraphQLField" for t in sc["types"]} | {"Query", "Mutation", "GraphQLField"})
        else:
            present, _bad = k1
        jobs.append(prepare(ctx, rng, label, sc, gen, w, mc[1], present, hist_per))
    run.extra["scenarios"] = len(scen)
    # model predictions
    preds = model.batch("C14", [[Sym("ops"), j["world"], [[G.expr_sx(e) for e in op["model"]] for op in h]]
                                for j in jobs for h in j["hists"]], chunk=40)
    it = iter(preds)
    for j in jobs:
        j["pred"] = [next(it) for _ in j["hists"]]
    # the real client
    def drive(j):
        payload = {"dir": j["gen"]["dir"], "pkg": j["gen"]["pkg"], "async": j["sc"]["conf"]["async"],
                   "histories": [[{"kind": op["kind"], "fields": op["driver"]} for op in h] for h in j["hists"]]}
        env = dict(os.environ, PYTHONDONTWRITEBYTECODE="1")
        env.pop("PYTHONPATH", None)
        p = subprocess.run([PY, os.path.join(HERE, "c14_driver.py")], input=json.dumps(payload).encode(),
                           stdout=subprocess.PIPE, stderr=subprocess.PIPE, env=env, timeout=1500)
        if p.returncode != 0:
            return {"crash": p.stderr.decode(errors="replace")[-2000:]}
        return json.loads(p.stdout.decode().splitlines()[-1])

    with ThreadPoolExecutor(max_workers=16) as ex:
        outs = list(ex.map(drive, jobs))
    for j, o in zip(jobs, outs):
        judge(ctx, run, j, o)


def prepare(ctx, rng, label, sc, gen, world, mclasses, present, hist_per):
    tab = {c[0]: c[1] for c in mclasses}
    hists = []
    if label == "fixed":
        for cls, h in witnesses():
            hists.append({"ops": [{"kind": "query", "model": op, "driver": [to_driver(e, tab) for e in op]} for op in h],
                          "stream": "witness", "class": cls})
        # objects built for an earlier operation re-used in a later, different one, under a parent whose
        # argument has the same GraphQL name (C14_reuse_request; the variable names must be recomputed)
        pid = At("PersonFields", "id")
        X = C("PersonFields", "x", a=5)
        F2 = Fs(C("PersonFields", "friend", since="t0"), C("PersonFields", "x", a=7))
        reuse = [
            [Fs(Q("person", id="1"), ["let", "w0", X], ["let", "w1", F2])],
            [Fs(Q("p", a=1), ["ref", "w0"])],
            [Fs(Q("person", id="2"), pid, ["ref", "w1"]), Fs(["alias", Q("p", a=2, a_0=3), "q"], ["ref", "w0"])],
        ]
        defs = {"w0": X, "w1": F2}
        ops = []
        for op in reuse:
            drv = [to_driver_let(e, tab) for e in op]
            ops.append({"kind": "query", "model": [strip_let(G.expand_refs(e, defs)) for e in op], "driver": drv,
                        "driver_fresh": [to_driver_let(G.expand_refs(e, defs), tab) for e in op], "reused": True})
        hists.append({"ops": ops, "stream": "witness", "class": "F15-reuse-later-operation"})
        for k in (1, 2):      # each re-using operation also alone, from fresh objects
            o = dict(ops[k]); o["driver"] = o["driver_fresh"]
            hists.append({"ops": [o], "stream": "witness", "class": None})
    elif label == "collector":
        e = Fs(Q("me"), Fs(C("PersonFields", "pet"), At("AnimalInterface", "name")))
        hists.append({"ops": [{"kind": "query", "model": [e], "driver": [e]}], "stream": "witness",
                      "class": "F15-interface-uncollected"})
    if label != "collector":
        eg = G.ExprGen(rng, sc, mclasses, present)
        roots = [("Query", sc["query"], "query")] + ([("Mutation", sc["mutation"], "mutation")] if sc["mutation"] else [])
        for i in range(hist_per):
            edge = rng.random() < 0.3
            n_before = rng.choice([0, 0, 1, 1, 2, 3])
            eg.reuse = (not edge) and n_before > 0 and rng.random() < 0.5
            eg.pool, eg.pending, eg.defs, eg.used_now = [], [], {}, set()
            ops = []
            for _ in range(n_before + 1):
                rc, rt, kind = rng.choice(roots) if rng.random() < 0.3 else roots[0]
                depth = rng.choice([1, 2, 3, 3, 4])
                eg.bad_used = False
                fe = eg.operation(rc, rt, depth, edge)
                eg.end_operation()
                drv = [d for _, d in fe]
                ops.append({"kind": kind, "model": [m for m, _ in fe], "driver": drv,
                            "driver_fresh": [G.expand_refs(d, eg.defs) for d in drv],
                            "reused": any(G.has_ref(d) for d in drv),
                            "malformed": eg.bad_used})
            hists.append({"ops": ops, "stream": "reuse" if eg.reuse else "edge" if edge else "main", "class": None})
    # every multi-operation history is followed by its last operation alone (fresh import state)
    flat = []
    for h in hists:
        h["fresh_of"] = None
        flat.append(h)
        if len(h["ops"]) > 1:
            last = dict(h["ops"][-1])
            last["driver"] = last.get("driver_fresh", last["driver"])
            flat.append({"ops": [last], "stream": "fresh", "class": None, "fresh_of": len(flat) - 1})
    return {"label": label, "sc": sc, "gen": gen, "world": world, "tab": tab, "meta": flat,
            "hists": [h["ops"] for h in flat]}


def judge(ctx, run, j, o):
    label, sc = j["label"], j["sc"]
    base = {"scenario": label, "schema": G.sdl(sc), "config": {k: v for k, v in sc["conf"].items()}}
    if "crash" in o:
        run.broken("K3 driver crashed", f"{label}: {o['crash']}")
        return
    if o["import_error"] or o.get("name_errors"):
        what = o["import_error"] or ("NameError at call: " + "; ".join(sorted(set(o["name_errors"]))[:3]))
        if o["injected"] and "after injection" not in (o["import_error"] or ""):
            run.finding("F15-scalar-import", f"{label}: generated builder modules lack the custom-scalar imports: {what}",
                        {**base, "error": what})
            run.dist("finding_inputs", "F15-scalar-import")
        else:
            run.broken("generated package does not import", f"{label}: {what}")
            return
    ex = Executor(G.sdl(sc))
    results = o["results"]
    for hi, (meta, hist, pred, res) in enumerate(zip(j["meta"], j["hists"], j["pred"], results)):
        for oi, op in enumerate(hist):
            if oi >= len(pred) or oi >= len(res):
                break
            run.count()
            pr, r = pred[oi], res[oi]
            mreq, idl, guards, nodup, faithful = pr
            guards = [g == "t" for g in guards]
            conform = guards[0]
            run.dist("values_conform", str(conform))
            name = f"Op{oi}"
            replay = {**base, "history": [[e for e in p["model"]] for p in hist[: oi + 1]], "kinds": [p["kind"] for p in hist[: oi + 1]],
                      "stream": meta["stream"]}
            depth = max(G.expr_depth(e) for e in op["model"])
            size = sum(G.expr_size(e) for e in op["model"])
            run.dist("stream", meta["stream"])
            if op.get("reused"):
                run.dist("reuse", "operation re-uses objects built for an earlier operation")
                replay["builder_calls_with_object_reuse"] = [p["driver"] for p in hist[: oi + 1]]
            run.dist("expr_depth", str(depth))
            run.dist("top_level_fields", str(len(op["model"])))
            run.dist("history_position", str(oi))
            run.dist("kind", op["kind"])
            run.dist("expr_size", "1-3" if size <= 3 else "4-8" if size <= 8 else "9-20" if size <= 20 else "21+")
            # ---- K3a: model vs implementation ----
            if "exc" in r:
                run.dist("outcome", "exception:" + r["exc"])
                if meta["class"] == "F15-interface-uncollected" and r["exc"] == "NameError":
                    run.finding("F15-interface-uncollected", f"{label}: {r['msg']}", {**replay, "error": r["msg"]})
                    run.dist("finding_inputs", "F15-interface-uncollected")
                elif not model.is_error(mreq):
                    run.violation(f"K3 {label}: implementation raised {r['exc']}: {r['msg']} where the model builds a request",
                                  {**replay, "impl": r, "model": mreq}, found_input=False)
                break
            if model.is_error(mreq):
                run.violation(f"K3 {label}: model fails ({mreq}) where the implementation sends a request",
                              {**replay, "impl": r, "model": mreq}, found_input=False)
                break
            mtext, mvars = model_request(op["kind"], name, mreq)
            agree = True
            try:
                idoc = ex.parse(r["query"])
                same = idoc == ex.parse(mtext)
            except Exception as e:  # impl text does not parse
                idoc, same = None, False
                try:
                    ex.parse(mtext)
                except Exception:
                    same = "".join(mtext.split()) == "".join(r["query"].split())
            if not same or r["variables"] != mvars or r.get("operationName") != name:
                agree = False
                run.extra["k3_disagreements"] = run.extra.get("k3_disagreements", 0) + 1
                if _budget(run, "k3"):
                    run.violation(f"K3 {label}: request differs from the model's prediction",
                                  {**replay, "impl": r, "model_query": mtext, "model_variables": mvars}, found_input=False)
            if not r.get("reuse_same", True):
                run.violation(f"K3 {label}: the same field objects sent a second time give a different request "
                              "(theorem C14_reuse_request)", {**replay, "first": r, "second": r.get("again")})
            # ---- K3b: the property oracle on the implementation's request ----
            if model.is_error(idl):
                run.dist("outcome", "ideal-undefined")
                continue
            itext, ivars = ideal_request(op["kind"], name, idl)
            try:
                ideal_doc = ex.parse(itext)
                ideal_errs = ex.validate(ideal_doc)
            except Exception as e:
                ideal_errs = [f"ideal does not parse: {e}"]
            if ideal_errs:
                run.dist("outcome", "expression-invalid-by-itself")
                continue
            problems = []
            if idoc is None:
                problems.append("document does not parse")
            else:
                errs = ex.validate(idoc)
                if errs:
                    problems.append("validate: " + "; ".join(errs[:3]))
                else:
                    got = ex.record(idoc, r["variables"])
                    want = ex.record(ideal_doc, ivars)
                    if got != want:
                        problems.append("execution with recording resolvers differs from the ideal request's: "
                                        + json.dumps([x for x in zip(got, want) if x[0] != x[1]][:1])[:600])
            # history freedom: same expression in a fresh process
            hist_dep = False
            if oi == len(hist) - 1 and oi > 0:
                fresh = [k for k, m in enumerate(j["meta"]) if m.get("fresh_of") == hi]
                if fresh and results[fresh[0]] and "ok" in results[fresh[0]][0]:
                    fr = results[fresh[0]][0]
                    if "".join(fr["query"].split()).replace("Op0", name) != "".join(r["query"].split()) or fr["variables"] != r["variables"]:
                        hist_dep = True
                        problems.append("request differs from the one the same expression yields in a fresh process")
            if not conform or op.get("malformed"):
                # malformed stream: a None at a non-null item position of a serialised scalar; the
                # property's quantifier (caller's values of the argument's type) does not cover it —
                # model/implementation agreement was checked above, the oracle is not applied
                run.dist("outcome", "malformed-values(None at a non-null item position)" if conform
                         else "precondition-violated(None at non-null item of a serialised scalar)")
                continue
            key = json.dumps(op["model"], sort_keys=True)
            if (mreq[1] or "alias" in key or '"on"' in key) and depth >= 2:
                run.nontrivial_case(hash(key))
            run.sample({"scenario": label, "kind": op["kind"], "expression": op["model"], "query": r["query"],
                        "variables": r["variables"], "after_operations": oi, "oracle": problems or "ok"}, limit=8)
            if nodup != "t":
                run.broken("theorem instance C14_unique_var_names_operation", f"{label}: duplicate variable names in the model's request: {replay['history']}")
            if conform and faithful != "t":
                run.broken("theorem instance C14_doc_valid", f"{label}: no shared mutation but the model's request does not resolve to the ideal: {replay['history']}")
            if not problems:
                run.dist("outcome", "ok")
                if faithful != "t" and agree:
                    run.dist("soft", "model-unfaithful-but-oracle-passes")
                continue
            run.dist("outcome", "property-fails")
            classes = []
            if meta["stream"] == "witness" and meta["class"]:
                classes = [meta["class"]]      # a repaired class came back: reported under its name
            what = f"{label} op {oi}: " + " | ".join(problems)[:500]
            rep = {**replay, "impl": r, "ideal_query": itext, "ideal_variables": ivars, "problems": problems,
                   "guards": {"values_conform": conform, "names_distinct": nodup == "t"}}
            if not classes:
                if _budget(run, "property", 8):
                    run.violation(what, rep)
            else:
                for c in classes:
                    run.finding(c, what, rep)
                    run.dist("finding_inputs", c)
        # witnesses must reproduce
        if meta["stream"] == "witness" and meta["class"]:
            run.extra.setdefault("witnesses", []).append(meta["class"])
