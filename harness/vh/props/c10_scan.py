"""C10 K1 — static scan of the generator's source for unordered collections and how they are consumed.

Every Python `set` (and directory listing, and ambient source such as hash()/time) whose iteration order could
reach emitted text must be a row of the model's site table (Model/Nondet.v `site_table`).  This module finds
the sites in `$VERIF_REPO/ariadne_codegen` with the `ast` module:

  construct   set(...), frozenset(...), {a, b}, {x for ...}
  sorted      sorted(<set expr>)                      order erased by a canonical sort
  iter        for ... in <set expr> / comprehension   order revealed
  iter:<f>    list(<set>), tuple(), enumerate(), iter(), next(), zip(), map(), filter(), reversed(), min/max..
  iter:join   sep.join(<set expr>)
  iter:star   *<set expr>
  iter:pop    <set expr>.pop()
  member      x in <set expr>
  eq          <set expr> == ... / != ...
  size        len(<set>), bool(<set>), `if <set>`, `not <set>`, `<set> and/or ...` in a test
  arg         <set expr> passed to a call (flows into the callee)
  listing     glob / rglob / iterdir / listdir / walk / scandir call (the call itself, and every function that
              yields/returns from one, is then treated like a set expression: its consumers are sites)
  ambient     hash(), id(), random.*, uuid.*, time.*, datetime.now/utcnow/today, os.getpid, os.urandom
  formatter   isort.code(...), format_str(...), fix_code(...): the exact call, arguments included
  state:module / state:class   a mutable container (dict/list/set literal, comprehension or constructor call) bound
              at module / class level: lives as long as the interpreter, i.e. across generations (key: NAME = kind)
  state:cache   @lru_cache / @cache / @functools.* decorated function (key: decorator + function name)
  state:mutate  a module-level container (by name, any file) mutated: .setdefault/.update/.append/.../ x[k] = v / del
  state:global  `global NAME` statement
  fs:meta     a read (or write) of file METADATA: .st_mtime/.st_mtime_ns/.st_ctime/.st_atime/.st_size/.st_ino attributes,
              os.path.getmtime/getctime/getatime/getsize, os.utime — what a generator would consult to decide that an
              existing file is "up to date"
  nondet:import   import of a module whose use makes results depend on scheduling, time or chance: concurrent.futures,
              threading, multiprocessing, asyncio, queue, random, secrets, uuid, time, signal, sched, selectors
  nondet:call     ThreadPoolExecutor / ProcessPoolExecutor / Thread / Pool / executor.submit / as_completed / wait /
              imap_unordered / gather ...; the results of as_completed / wait / imap_unordered are UNORDERED
              collections: their consumers are sites with derived sinks exactly like sets
  fs          file-system access: <receiver>.exists/is_dir/is_file/read_text/mkdir/write_text/unlink/...(...), open(...),
              shutil.*, os.remove/rename/makedirs/...  (what is read, what is written, what is tested)

A *set expression* is recognised by a conservative type inference by NAME: names/attributes annotated with
something containing Set[...]/set[...]/set, assigned from a set expression, tuple-unpacked from a function
whose return annotation has Set at that tuple index, loop targets over `.items()`/`.values()` of a
dict-of-sets; calls of functions/methods (by name, across files) whose return annotation contains Set;
.union/.difference/.intersection/.symmetric_difference/.copy of a set expression; `-`, `|`, `&`, `^`, `or`
with a set expression operand; subscripts of dict-of-sets.

A site key is (file, enclosing function qualname, context, unparsed expression) — no line numbers, so moving
code does not change it, but changing HOW a set is consumed does.
"""
from __future__ import annotations

import ast
import os
import re
import sys

SET_METHODS_RETURNING_SET = {"union", "difference", "intersection", "symmetric_difference", "copy"}
SET_MUTATORS = {"add", "update", "discard", "remove", "clear", "difference_update", "intersection_update",
                "symmetric_difference_update"}
ITER_FUNCS = {"list", "tuple", "enumerate", "iter", "next", "zip", "map", "filter", "reversed", "min", "max",
              "sum", "any", "all", "dict", "OrderedDict", "deque", "chain"}
LISTING = {"glob", "rglob", "iterdir", "listdir", "walk", "scandir"}
EXCLUDE_DIRS = ("client_generators/dependencies",)
# text-to-text stages between the generated AST and the file: isort's section placement consults the filesystem
# unless it is configured not to, so HOW it is called is part of the site
# file-system access: what the generator reads and writes (receiver and method; arguments elided)
FS_METHODS = {"exists", "is_dir", "is_file", "read_text", "read_bytes", "mkdir", "write_text", "write_bytes", "unlink",
              "rmdir", "rename", "touch", "stat", "lstat", "iterdir", "samefile", "chmod", "symlink_to"}
FS_FUNCS = {"open", "io.open", "os.listdir", "os.stat"}
NONDET_MODULES = {"concurrent", "concurrent.futures", "threading", "multiprocessing", "asyncio", "queue", "random", "secrets",
                  "uuid", "time", "signal", "sched", "selectors", "_thread", "multiprocessing.pool", "multiprocessing.dummy"}
NONDET_CALLS = {"ThreadPoolExecutor", "ProcessPoolExecutor", "Thread", "Process", "Pool", "ThreadPool", "submit", "as_completed",
                "wait", "imap_unordered", "map_async", "apply_async", "gather", "run_in_executor", "create_task", "Timer"}
UNORDERED_RESULTS = {"as_completed", "wait", "imap_unordered"}
FORMATTERS = {"isort.code", "isort.api.sort_code_string", "format_str", "black.format_str", "fix_code",
              "autoflake.fix_code", "isort.file", "isort.stream"}


def _ann_has_set(node) -> bool:
    if node is None:
        return False
    try:
        text = ast.unparse(node)
    except Exception:
        return False
    return bool(re.search(r"\b(Set|set|FrozenSet|frozenset|AbstractSet|MutableSet)\b", text))


def _ann_is_set(node) -> bool:
    """annotation is itself a set (possibly Optional[...]), not a container of sets"""
    if node is None:
        return False
    text = ast.unparse(node)
    text = re.sub(r"^Optional\[(.*)\]$", r"\1", text)
    return bool(re.match(r"^(typing\.)?(Set|set|FrozenSet|frozenset|AbstractSet|MutableSet)\b", text))


def _tuple_set_indices(node) -> list[int]:
    """Return annotation Tuple[A, Set[B]] -> [1]"""
    if isinstance(node, ast.Subscript) and ast.unparse(node.value) in ("Tuple", "tuple", "typing.Tuple"):
        sl = node.slice
        elts = sl.elts if isinstance(sl, ast.Tuple) else [sl]
        return [i for i, e in enumerate(elts) if _ann_is_set(e)]
    return []


def _name_of(node) -> str | None:
    if isinstance(node, ast.Name):
        return node.id
    if isinstance(node, ast.Attribute) and isinstance(node.value, ast.Name) and node.value.id in ("self", "cls"):
        return "self." + node.attr
    return None


class Globals:
    """cross-file facts gathered by name"""

    def __init__(self):
        self.fn_returns_set: set[str] = set()
        self.fn_returns_tuple_set: dict[str, list[int]] = {}
        self.fn_returns_setcontainer: set[str] = set()
        self.fn_returns_listing: set[str] = set()   # functions/generators that hand on a directory listing
        self.module_sets: set[str] = set()          # module-level names bound to a set (importable elsewhere)


def gather_globals(trees: dict[str, ast.Module]) -> Globals:
    g = Globals()
    for tree in trees.values():
        for st in tree.body:
            tgt, val = None, None
            if isinstance(st, ast.Assign) and len(st.targets) == 1:
                tgt, val = st.targets[0], st.value
            elif isinstance(st, ast.AnnAssign):
                tgt, val = st.target, st.value
                if isinstance(tgt, ast.Name) and _ann_is_set(st.annotation):
                    g.module_sets.add(tgt.id)
            if isinstance(tgt, ast.Name) and val is not None and (
                    isinstance(val, (ast.Set, ast.SetComp)) or (
                        isinstance(val, ast.Call) and isinstance(val.func, ast.Name)
                        and val.func.id in ("set", "frozenset"))):
                g.module_sets.add(tgt.id)
        for n in ast.walk(tree):
            if isinstance(n, (ast.FunctionDef, ast.AsyncFunctionDef)) and n.returns is not None:
                if _ann_is_set(n.returns):
                    g.fn_returns_set.add(n.name)
                elif _tuple_set_indices(n.returns):
                    g.fn_returns_tuple_set[n.name] = _tuple_set_indices(n.returns)
                elif _ann_has_set(n.returns):
                    g.fn_returns_setcontainer.add(n.name)
            if isinstance(n, (ast.FunctionDef, ast.AsyncFunctionDef)):
                for c in ast.walk(n):
                    if isinstance(c, ast.Call):
                        f = c.func
                        cn = f.id if isinstance(f, ast.Name) else (f.attr if isinstance(f, ast.Attribute) else None)
                        if cn in LISTING and any(isinstance(y, (ast.Yield, ast.YieldFrom, ast.Return)) for y in ast.walk(n)):
                            g.fn_returns_listing.add(n.name)
    return g


class FileScan:
    def __init__(self, rel: str, tree: ast.Module, g: Globals):
        self.rel, self.tree, self.g = rel, tree, g
        self.sets: set[str] = set(g.module_sets)   # names that are sets (module-level ones of any file included)
        self.containers: set[str] = set()   # names that are dicts/lists OF sets
        self.parent: dict[ast.AST, ast.AST] = {}
        for p in ast.walk(tree):
            for c in ast.iter_child_nodes(p):
                self.parent[c] = p
        self.sites: list[tuple] = []
        self.site_nodes: list[tuple] = []

    # ---------------------------------------------------------------- inference
    def callee_name(self, call: ast.Call) -> str | None:
        f = call.func
        if isinstance(f, ast.Name):
            return f.id
        if isinstance(f, ast.Attribute):
            return f.attr
        return None

    def is_set(self, e) -> bool:
        if isinstance(e, (ast.Set, ast.SetComp)):
            return True
        if isinstance(e, ast.Call):
            cn = self.callee_name(e)
            if isinstance(e.func, ast.Name) and cn in ("set", "frozenset"):
                return True
            if isinstance(e.func, ast.Attribute) and cn in SET_METHODS_RETURNING_SET and self.is_set(e.func.value):
                return True
            if cn in self.g.fn_returns_set or cn in self.g.fn_returns_listing or cn in LISTING or cn in UNORDERED_RESULTS:
                return True
            if isinstance(e.func, ast.Attribute) and cn == "get" and self.is_container(e.func.value):
                return True
            return False
        n = _name_of(e)
        if n is not None:
            return n in self.sets
        if isinstance(e, ast.BinOp) and isinstance(e.op, (ast.Sub, ast.BitOr, ast.BitAnd, ast.BitXor)):
            return self.is_set(e.left) or self.is_set(e.right)
        if isinstance(e, ast.BoolOp):
            return any(self.is_set(v) for v in e.values)
        if isinstance(e, ast.IfExp):
            return self.is_set(e.body) or self.is_set(e.orelse)
        if isinstance(e, ast.Subscript):
            return self.is_container(e.value)
        if isinstance(e, ast.NamedExpr):
            return self.is_set(e.value)
        return False

    def is_container(self, e) -> bool:
        n = _name_of(e)
        if n is not None:
            return n in self.containers
        if isinstance(e, ast.Call):
            cn = self.callee_name(e)
            if cn in self.g.fn_returns_setcontainer:
                return True
        return False

    def bind(self, target, is_set: bool, is_cont: bool) -> bool:
        n = _name_of(target)
        changed = False
        if n is None:
            return False
        if is_set and n not in self.sets:
            self.sets.add(n)
            changed = True
        if is_cont and n not in self.containers:
            self.containers.add(n)
            changed = True
        return changed

    def infer(self):
        for _ in range(12):
            changed = False
            for n in ast.walk(self.tree):
                if isinstance(n, ast.AnnAssign):
                    if _ann_is_set(n.annotation):
                        changed |= self.bind(n.target, True, False)
                    elif _ann_has_set(n.annotation):
                        changed |= self.bind(n.target, False, True)
                    if n.value is not None and self.is_set(n.value):
                        changed |= self.bind(n.target, True, False)
                elif isinstance(n, ast.Assign):
                    for t in n.targets:
                        if isinstance(t, (ast.Tuple, ast.List)):
                            if isinstance(n.value, ast.Call):
                                idx = self.g.fn_returns_tuple_set.get(self.callee_name(n.value) or "", [])
                                for i in idx:
                                    if i < len(t.elts):
                                        changed |= self.bind(t.elts[i], True, False)
                            if isinstance(n.value, ast.Tuple) and len(n.value.elts) == len(t.elts):
                                for te, ve in zip(t.elts, n.value.elts):
                                    if self.is_set(ve):
                                        changed |= self.bind(te, True, False)
                        else:
                            if self.is_set(n.value):
                                changed |= self.bind(t, True, False)
                            if self.is_container(n.value):
                                changed |= self.bind(t, False, True)
                            # d[k] = set()  => d is a container of sets
                            if isinstance(t, ast.Subscript) and self.is_set(n.value):
                                changed |= self.bind(t.value, False, True)
                elif isinstance(n, ast.AugAssign):
                    if self.is_set(n.value) and isinstance(n.op, (ast.BitOr, ast.BitAnd, ast.Sub, ast.BitXor)):
                        changed |= self.bind(n.target, True, False)
                elif isinstance(n, (ast.FunctionDef, ast.AsyncFunctionDef)):
                    a = n.args
                    for arg in a.posonlyargs + a.args + a.kwonlyargs:
                        if _ann_is_set(arg.annotation):
                            if arg.arg not in self.sets:
                                self.sets.add(arg.arg)
                                changed = True
                        elif _ann_has_set(arg.annotation):
                            if arg.arg not in self.containers:
                                self.containers.add(arg.arg)
                                changed = True
                elif isinstance(n, (ast.For, ast.AsyncFor, ast.comprehension)):
                    it = n.iter
                    if isinstance(it, ast.Call) and isinstance(it.func, ast.Attribute) and self.is_container(it.func.value):
                        if it.func.attr == "items" and isinstance(n.target, ast.Tuple) and len(n.target.elts) == 2:
                            changed |= self.bind(n.target.elts[1], True, False)
                        if it.func.attr == "values":
                            changed |= self.bind(n.target, True, False)
            if not changed:
                break

    # ---------------------------------------------------------------- sites
    def qualname(self, node) -> str:
        parts = []
        p = self.parent.get(node)
        while p is not None:
            if isinstance(p, (ast.FunctionDef, ast.AsyncFunctionDef, ast.ClassDef)):
                parts.append(p.name)
            p = self.parent.get(p)
        return ".".join(reversed(parts)) or "<module>"

    def add(self, node, ctx: str, expr=None):
        text = ast.unparse(expr if expr is not None else node)
        text = re.sub(r"\s+", " ", text)
        self.sites.append((self.rel, self.qualname(node), ctx, text, getattr(node, "lineno", 0)))
        self.site_nodes.append(((self.rel, self.qualname(node), ctx, text), node, ctx))

    def in_test_position(self, e) -> bool:
        p = self.parent.get(e)
        while isinstance(p, (ast.BoolOp,)) or (isinstance(p, ast.UnaryOp) and isinstance(p.op, ast.Not)):
            e, p = p, self.parent.get(p)
        if isinstance(p, (ast.If, ast.While, ast.IfExp)) and p.test is e:
            return True
        if isinstance(p, ast.Assert) and p.test is e:
            return True
        if isinstance(p, ast.comprehension) and e in p.ifs:
            return True
        return False

    def classify(self, e):
        """context of set expression e (None = pure data flow / set algebra, not a site)"""
        p = self.parent.get(e)
        if isinstance(p, ast.Call):
            cn = self.callee_name(p)
            if e in p.args or any(k.value is e for k in p.keywords):
                if isinstance(p.func, ast.Name) and cn == "sorted" and p.args and p.args[0] is e:
                    return "sorted"
                if isinstance(p.func, ast.Name) and cn in ("set", "frozenset"):
                    return None  # set(set) copy
                if isinstance(p.func, ast.Name) and cn in ("len", "bool"):
                    return "size"
                if isinstance(p.func, ast.Name) and cn in ITER_FUNCS:
                    return f"iter:{cn}"
                if isinstance(p.func, ast.Attribute) and cn == "join":
                    return "iter:join"
                if isinstance(p.func, ast.Attribute) and cn in ("extend", "writelines"):
                    return f"iter:{cn}"
                if isinstance(p.func, ast.Attribute) and (cn in SET_METHODS_RETURNING_SET or cn in SET_MUTATORS
                                                          or cn in ("issubset", "issuperset", "isdisjoint")):
                    return None  # set algebra with another set
                if isinstance(p.func, ast.Name) and cn == "isinstance":
                    return None
                return "arg"
            if isinstance(p.func, ast.Attribute) and p.func.value is e:
                return None
        if isinstance(p, ast.Attribute) and p.value is e:
            gp = self.parent.get(p)
            if isinstance(gp, ast.Call) and gp.func is p:
                if p.attr == "pop":
                    return "iter:pop"
                if p.attr in ("issubset", "issuperset", "isdisjoint", "__contains__"):
                    return "member"
            return None
        if isinstance(p, (ast.For, ast.AsyncFor)) and p.iter is e:
            return "iter"
        if isinstance(p, ast.comprehension) and p.iter is e:
            return "iter"
        if isinstance(p, ast.Starred):
            return "iter:star"
        if isinstance(p, ast.Compare):
            if p.left is e:
                ops = p.ops[:1]
            else:
                ops = [p.ops[p.comparators.index(e)]]
            if isinstance(ops[0], (ast.In, ast.NotIn)) and p.left is not e:
                return "member"
            if isinstance(ops[0], (ast.Eq, ast.NotEq, ast.Is, ast.IsNot, ast.Lt, ast.LtE, ast.Gt, ast.GtE)):
                return "eq"
            if isinstance(ops[0], (ast.In, ast.NotIn)):
                return None  # `aset in something` — the set is the element
            return "eq"
        if self.in_test_position(e):
            return "size"
        if isinstance(p, ast.YieldFrom):
            return "iter:yieldfrom"
        if isinstance(p, ast.FormattedValue) or isinstance(p, ast.JoinedStr):
            return "iter:format"
        if isinstance(p, (ast.BinOp, ast.BoolOp, ast.IfExp)):
            return None
        return None

    def scan(self):
        self.infer()
        for n in ast.walk(self.tree):
            # constructions
            if isinstance(n, (ast.Set, ast.SetComp)):
                self.add(n, "construct")
            elif isinstance(n, ast.Call) and isinstance(n.func, ast.Name) and n.func.id in ("set", "frozenset"):
                # generated-code AST such as generate_call(func=generate_name("set")) is text, not a call
                self.add(n, "construct")
            if isinstance(n, ast.Attribute) and re.match(r"^st_(mtime|ctime|atime|birthtime)(_ns)?$|^st_(size|ino|mode)$", n.attr):
                self.add(n, "fs:meta")
            if isinstance(n, ast.Call) and ast.unparse(n.func) in ("os.path.getmtime", "os.path.getctime", "os.path.getatime",
                                                                   "os.path.getsize", "os.utime", "getmtime", "getsize"):
                self.add(n, "fs:meta", n.func)
            if isinstance(n, (ast.Import, ast.ImportFrom)):
                mods = [a.name for a in n.names] if isinstance(n, ast.Import) else [n.module or ""]
                if any(m in NONDET_MODULES or m.split(".")[0] in NONDET_MODULES for m in mods):
                    self.add(n, "nondet:import")
            # listings and ambient sources
            if isinstance(n, ast.Call):
                cn = self.callee_name(n)
                if cn in NONDET_CALLS and not (cn in ("wait", "submit", "gather") and isinstance(n.func, ast.Attribute)
                                               and ast.unparse(n.func.value) in ("self", "websocket")):
                    self.add(n, "nondet:call", n.func)
                if cn in LISTING:
                    self.add(n, "listing")
                src = ast.unparse(n.func)
                if (isinstance(n.func, ast.Attribute) and n.func.attr in FS_METHODS) or src in FS_FUNCS or src.startswith(
                        ("shutil.", "os.remove", "os.unlink", "os.rename", "os.makedirs", "os.mkdir", "os.rmdir", "os.path.exists",
                         "os.path.isfile", "os.path.isdir", "tempfile.")):
                    recv = ast.unparse(n.func.value) if isinstance(n.func, ast.Attribute) else ""
                    recv = re.sub(r"\s+", " ", recv)
                    self.sites.append((self.rel, self.qualname(n), "fs",
                                       (recv + "." + n.func.attr if recv else src) + "(...)", n.lineno))
                if src in FORMATTERS:
                    self.add(n, "formatter")
                if (isinstance(n.func, ast.Name) and cn in ("hash", "id")) or re.match(
                        r"^(random|uuid|time|secrets)\.\w+$", src) or re.search(
                        r"\b(datetime|date)\.(now|utcnow|today)$", src) or src in (
                        "os.getpid", "os.urandom", "os.times", "getpass.getuser", "socket.gethostname",
                        "platform.node", "os.getcwd", "Path.cwd"):
                    self.add(n, "ambient")
            # consumption of set expressions
            if isinstance(n, ast.expr) and self.is_set(n):
                ctx = self.classify(n)
                if ctx is not None:
                    self.add(n, ctx)
        return self.sites


CONTAINER_CALLS = {"dict", "list", "set", "defaultdict", "OrderedDict", "Counter", "deque", "WeakValueDictionary",
                   "WeakKeyDictionary", "ChainMap"}
MUTATORS = {"setdefault", "update", "append", "extend", "add", "pop", "popitem", "clear", "insert", "remove", "discard",
            "appendleft", "extendleft", "sort", "reverse", "__setitem__", "__delitem__"}
CACHE_DECOS = re.compile(r"(^|\.)(lru_cache|cache|cached|memoize|singledispatch)\b")


def _container_kind(v):
    if isinstance(v, (ast.Dict, ast.DictComp)):
        return "dict"
    if isinstance(v, (ast.List, ast.ListComp)):
        return "list"
    if isinstance(v, (ast.Set, ast.SetComp)):
        return "set"
    if isinstance(v, ast.Call):
        f = v.func
        n = f.id if isinstance(f, ast.Name) else (f.attr if isinstance(f, ast.Attribute) else None)
        if n in CONTAINER_CALLS:
            return n
        txt = ast.unparse(f)
        if txt.startswith("ast.") or txt.startswith("generate_"):
            return "ast"      # a shared AST node (e.g. UNSET_IMPORT): mutable, handed to every generation
    return None


def state_sites(rel: str, tree: ast.Module, module_containers: set[str]) -> list[tuple]:
    """interpreter-lifetime state: where it is created, cached and mutated"""
    out = []

    def bindings(body, ctx, owner):
        for st in body:
            tgt, val = None, None
            if isinstance(st, ast.Assign) and len(st.targets) == 1:
                tgt, val = st.targets[0], st.value
            elif isinstance(st, ast.AnnAssign):
                tgt, val = st.target, st.value
            if isinstance(tgt, ast.Name) and val is not None:
                kind = _container_kind(val)
                if kind and not (tgt.id.startswith("__") and tgt.id.endswith("__")):
                    out.append((rel, owner, ctx, f"{tgt.id} = {kind}", st.lineno))
            if isinstance(st, ast.ClassDef):
                bindings(st.body, "state:class", (owner + "." if owner != "<module>" else "") + st.name)

    bindings(tree.body, "state:module", "<module>")
    for st in tree.body:   # how the formatters are configured is part of how they are called
        val = getattr(st, "value", None)
        if isinstance(st, (ast.Assign, ast.AnnAssign)) and isinstance(val, ast.Call) and re.match(
                r"^(isort\.(settings\.)?Config|Mode|black\.(Mode|FileMode))$", ast.unparse(val.func)):
            out.append((rel, "<module>", "formatter", re.sub(r"\s+", " ", ast.unparse(st)), st.lineno))
    parent = {}
    for p_ in ast.walk(tree):
        for c in ast.iter_child_nodes(p_):
            parent[c] = p_

    def qual(n):
        parts = []
        p_ = parent.get(n)
        while p_ is not None:
            if isinstance(p_, (ast.FunctionDef, ast.AsyncFunctionDef, ast.ClassDef)):
                parts.append(p_.name)
            p_ = parent.get(p_)
        return ".".join(reversed(parts)) or "<module>"

    for n in ast.walk(tree):
        if isinstance(n, (ast.FunctionDef, ast.AsyncFunctionDef)):
            for d in n.decorator_list:
                txt = ast.unparse(d)
                if CACHE_DECOS.search(txt.split("(")[0]):
                    out.append((rel, qual(n), "state:cache", f"@{txt} {n.name}", n.lineno))
        if isinstance(n, ast.Global):
            out.append((rel, qual(n), "state:global", "global " + ", ".join(n.names), n.lineno))
        if isinstance(n, ast.Call) and isinstance(n.func, ast.Attribute) and n.func.attr in MUTATORS:
            base = n.func.value
            if isinstance(base, ast.Name) and base.id in module_containers:
                out.append((rel, qual(n), "state:mutate", f"{base.id}.{n.func.attr}(...)", n.lineno))
            if (isinstance(base, ast.Attribute) and isinstance(base.value, ast.Name) and base.value.id in ("cls",)
                    ) or (isinstance(base, ast.Attribute) and isinstance(base.value, ast.Call)
                          and ast.unparse(base.value) in ("type(self)", "self.__class__")):
                out.append((rel, qual(n), "state:mutate", f"{ast.unparse(base)}.{n.func.attr}(...)", n.lineno))
        if isinstance(n, (ast.Assign, ast.AugAssign, ast.Delete)):
            tgts = n.targets if isinstance(n, (ast.Assign, ast.Delete)) else [n.target]
            for t in tgts:
                if isinstance(t, ast.Subscript) and isinstance(t.value, ast.Name) and t.value.id in module_containers \
                        and qual(n) != "<module>":
                    out.append((rel, qual(n), "state:mutate", f"{t.value.id}[...] assigned/deleted", n.lineno))
    return out


def scan_repo(repo: str) -> list[tuple]:
    """All sites of <repo>/ariadne_codegen as (file, function, context, expression, line)."""
    base = os.path.join(repo, "ariadne_codegen")
    trees = {}
    for root, _dirs, files in os.walk(base):
        for f in sorted(files):
            if not f.endswith(".py"):
                continue
            p = os.path.join(root, f)
            rel = os.path.relpath(p, base)
            if any(rel.startswith(x) for x in EXCLUDE_DIRS):
                continue
            trees[rel] = ast.parse(open(p, encoding="utf-8").read())
    g = gather_globals(trees)
    sites = []
    for rel in sorted(trees):
        sites.extend(FileScan(rel, trees[rel], g).scan())
    module_containers = set()
    for rel, tree in trees.items():
        for st in tree.body:
            tgt = st.targets[0] if isinstance(st, ast.Assign) and len(st.targets) == 1 else (
                st.target if isinstance(st, ast.AnnAssign) else None)
            val = getattr(st, "value", None)
            if isinstance(tgt, ast.Name) and val is not None and _container_kind(val):
                module_containers.add(tgt.id)
    for rel in sorted(trees):
        sites.extend(state_sites(rel, trees[rel], module_containers))
    return sites


# ------------------------------------------------------------------------------------------ derived sinks
ORDER_FREE = {"member", "eq", "size"}


class Deriver:
    """Small data-flow over the AST that DERIVES, for each consumption of a set / listing, what its iteration order
    can reach, for the common shapes; anything else is "unknown" (the check then fails closed unless the table row
    names a downstream expression that the scan can find).  Derived sinks:
      sorted     wrapped in sorted(...) here; or a comprehension directly inside sorted(...); or a parameter /
                 generator result that EVERY call site wraps in sorted(...)
      member     membership / equality / size; a loop or comprehension that only feeds other sets; an argument
                 whose parameter is consumed order-free in every callee of that name (one level deep)
      none       construction
      errortext  only inside a `raise` statement
      unknown    everything else (escapes through a return / container / call the pass does not follow)"""

    def __init__(self, scans: dict, trees: dict):
        self.scans, self.trees = scans, trees
        self.calls: dict[str, list[tuple]] = {}      # callee name -> [(scan, Call node)]
        self.defs: dict[str, list[tuple]] = {}       # function name -> [(scan, FunctionDef)]
        for sc in scans.values():
            for n in ast.walk(sc.tree):
                if isinstance(n, ast.Call):
                    cn = sc.callee_name(n)
                    if cn:
                        self.calls.setdefault(cn, []).append((sc, n))
                elif isinstance(n, (ast.FunctionDef, ast.AsyncFunctionDef)):
                    self.defs.setdefault(n.name, []).append((sc, n))

    # -- helpers
    def enclosing(self, sc, node, types):
        p = sc.parent.get(node)
        while p is not None and not isinstance(p, types):
            if isinstance(p, (ast.FunctionDef, ast.AsyncFunctionDef, ast.Lambda)) and ast.FunctionDef not in (
                    types if isinstance(types, tuple) else (types,)):
                return None
            p = sc.parent.get(p)
        return p

    def enclosing_function(self, sc, node):
        p = sc.parent.get(node)
        while p is not None and not isinstance(p, (ast.FunctionDef, ast.AsyncFunctionDef)):
            p = sc.parent.get(p)
        return p

    def feeds_only_sets(self, sc, stmts) -> bool:
        for st in stmts:
            if isinstance(st, (ast.Assign, ast.AnnAssign, ast.AugAssign)):
                tgts = st.targets if isinstance(st, ast.Assign) else [st.target]
                if st.value is None or not sc.is_set(st.value) or not all(
                        _name_of(t) is not None and _name_of(t) in sc.sets for t in tgts):
                    return False
            elif isinstance(st, ast.Expr) and isinstance(st.value, ast.Call) and isinstance(st.value.func, ast.Attribute) \
                    and st.value.func.attr in SET_MUTATORS and sc.is_set(st.value.func.value):
                pass
            elif isinstance(st, ast.If):
                if not (self.feeds_only_sets(sc, st.body) and self.feeds_only_sets(sc, st.orelse)):
                    return False
            elif isinstance(st, (ast.Pass, ast.Continue)):
                pass
            else:
                return False
        return True

    def all_callers_sort(self, fn_name: str, param: str | None, index: int | None):
        """every call of fn_name passes sorted(...) for the parameter (or, param None: wraps the call in sorted)"""
        calls = self.calls.get(fn_name, [])
        if not calls:
            return None
        for sc, call in calls:
            if param is None:
                par = sc.parent.get(call)
                if not (isinstance(par, ast.Call) and isinstance(par.func, ast.Name) and par.func.id == "sorted"
                        and par.args and par.args[0] is call):
                    return False
                continue
            arg = None
            for kw in call.keywords:
                if kw.arg == param:
                    arg = kw.value
            if arg is None and index is not None and index < len(call.args):
                arg = call.args[index]
            if not (isinstance(arg, ast.Call) and isinstance(arg.func, ast.Name) and arg.func.id == "sorted"):
                return False
        return True

    def param_info(self, sc, node):
        """node is a Name that is a parameter of its enclosing function -> (function, name, positional index sans self)"""
        if not isinstance(node, ast.Name):
            return None
        fn = self.enclosing_function(sc, node)
        if fn is None:
            return None
        names = [a.arg for a in fn.args.posonlyargs + fn.args.args]
        if node.id not in names + [a.arg for a in fn.args.kwonlyargs]:
            return None
        # rebound inside the function? then it is not simply the parameter
        for n in ast.walk(fn):
            if isinstance(n, (ast.Assign, ast.AugAssign, ast.AnnAssign)):
                tgts = n.targets if isinstance(n, ast.Assign) else [n.target]
                if any(isinstance(t, ast.Name) and t.id == node.id for t in tgts):
                    return None
        pos = [x for x in names if x not in ("self", "cls")]
        return fn, node.id, (pos.index(node.id) if node.id in pos else None)

    def callee_param_order_free(self, sc, call: ast.Call, arg_node, depth=0):
        cn = sc.callee_name(call)
        defs = self.defs.get(cn or "", [])
        if not defs or depth > 1:
            return False
        for dsc, fn in defs:
            names = [a.arg for a in fn.args.posonlyargs + fn.args.args if a.arg not in ("self", "cls")]
            pname = None
            for kw in call.keywords:
                if kw.value is arg_node:
                    pname = kw.arg
            if pname is None and arg_node in call.args:
                i = call.args.index(arg_node)
                pname = names[i] if i < len(names) else None
            if pname is None:
                return False
            for n in ast.walk(fn):
                if isinstance(n, ast.Name) and n.id == pname and isinstance(n.ctx, ast.Load):
                    if not self.use_order_free(dsc, n, depth + 1):
                        return False
        return True

    def use_order_free(self, sc, n, depth=0) -> bool:
        """one load of a set-typed name: is this use order-free?"""
        ctx = sc.classify(n) if sc.is_set(n) else "not-a-set"
        if ctx == "not-a-set":
            return False
        if ctx is None:      # set algebra / data flow: follow one step to the enclosing set expression
            p = sc.parent.get(n)
            if isinstance(p, (ast.BinOp, ast.BoolOp)) and sc.is_set(p):
                return self.use_order_free(sc, p, depth) if sc.classify(p) is not None or isinstance(
                    sc.parent.get(p), (ast.BinOp, ast.BoolOp, ast.Return, ast.Assign)) else True
            if isinstance(p, (ast.Return, ast.Assign, ast.AnnAssign, ast.AugAssign)):
                return True   # handed on as a set: its consumers are sites of their own
            if isinstance(p, ast.Attribute):
                return True   # method of the set (union, copy, add ...)
            if isinstance(p, ast.Call):
                return True   # argument of set algebra (classify returned None for exactly those)
            return False
        if ctx in ORDER_FREE or ctx == "sorted":
            return True
        if ctx in ("iter",) or ctx.startswith("iter:"):
            return self.derive(sc, n, ctx, depth)[0] in ("member", "sorted", "errortext")
        if ctx == "arg":
            return self.callee_param_order_free(sc, sc.parent.get(n), n, depth)
        return False

    # -- the derivation
    def derive(self, sc, node, ctx, depth=0):
        if ctx == "sorted":
            return "sorted", "sorted(...) here"
        if ctx in ORDER_FREE:
            return "member", ctx
        if ctx == "construct":
            return "none", "construction"
        if not (ctx == "iter" or ctx.startswith("iter:") or ctx == "arg"):
            return None, "not derived for this context"
        # only inside a raise statement?
        p = sc.parent.get(node)
        q = p
        while q is not None and not isinstance(q, (ast.FunctionDef, ast.AsyncFunctionDef)):
            if isinstance(q, ast.Raise):
                return "errortext", "inside a raise statement"
            q = sc.parent.get(q)
        if ctx == "arg":
            if self.callee_param_order_free(sc, p, node, depth):
                return "member", f"parameter of {sc.callee_name(p)} is consumed order-free"
            return "unknown", f"argument of {sc.callee_name(p)}"
        # a parameter that every caller passes sorted
        pi = self.param_info(sc, node)
        if pi is not None:
            fn, pname, idx = pi
            r = self.all_callers_sort(fn.name, pname, idx)
            if r:
                return "sorted", f"every call of {fn.name} passes sorted(...) for {pname}"
        if isinstance(p, (ast.For, ast.AsyncFor)) and p.iter is node:
            if self.feeds_only_sets(sc, p.body) and not p.orelse:
                return "member", "loop body only feeds other sets"
            fn = self.enclosing_function(sc, node)
            yields = [y for y in ast.walk(p) if isinstance(y, (ast.Yield, ast.YieldFrom))]
            if fn is not None and yields:
                r = self.all_callers_sort(fn.name, None, None)
                if r:
                    return "sorted", f"generator: every call of {fn.name} is wrapped in sorted(...)"
            return "unknown", "for loop whose body does more than feed sets"
        if isinstance(p, ast.comprehension) and p.iter is node:
            comp = sc.parent.get(p)
            cpar = sc.parent.get(comp)
            if isinstance(comp, (ast.SetComp,)):
                return "member", "feeds a set comprehension"
            if isinstance(cpar, ast.Call) and isinstance(cpar.func, ast.Name) and cpar.args and cpar.args[0] is comp:
                if cpar.func.id == "sorted":
                    return "sorted", "comprehension directly inside sorted(...)"
                if cpar.func.id in ("set", "frozenset", "any", "all", "sum", "len", "min", "max"):
                    return "member", f"comprehension inside {cpar.func.id}(...)"
            return "unknown", "comprehension whose result keeps the order"
        if ctx.startswith("iter:"):
            if isinstance(p, ast.Call):
                pp = sc.parent.get(p)
                if isinstance(pp, ast.Call) and isinstance(pp.func, ast.Name) and pp.func.id == "sorted" and pp.args and pp.args[0] is p:
                    return "sorted", f"{ctx[5:]}(...) directly inside sorted(...)"
            return "unknown", f"{ctx[5:]}(...) keeps the iteration order"
        return "unknown", "shape not understood"


def scan_repo_full(repo: str):
    """(sites, derived) — derived: {site key: (sink or None, why)}"""
    base = os.path.join(repo, "ariadne_codegen")
    trees = {}
    for root, _dirs, files in os.walk(base):
        for f in sorted(files):
            if f.endswith(".py"):
                p_ = os.path.join(root, f)
                rel = os.path.relpath(p_, base)
                if not any(rel.startswith(x) for x in EXCLUDE_DIRS):
                    trees[rel] = ast.parse(open(p_, encoding="utf-8").read())
    g = gather_globals(trees)
    scans = {}
    for rel in sorted(trees):
        sc = FileScan(rel, trees[rel], g)
        sc.scan()
        scans[rel] = sc
    d = Deriver(scans, trees)
    derived = {}
    for rel in sorted(scans):
        sc = scans[rel]
        for key, node, ctx in sc.site_nodes:
            sink, why = d.derive(sc, node, ctx)
            prev = derived.get(key)
            if prev is not None and prev[0] != sink:
                sink, why = "unknown", f"occurrences disagree: {prev[1]} / {why}"
            derived[key] = (sink, why)
    return d, derived


def find_expression(repo_deriver: "Deriver", rel: str, fn_name: str, expr: str) -> bool:
    """does function fn_name of file rel contain an expression that unparses to expr (whitespace-normalised)?"""
    sc = repo_deriver.scans.get(rel)
    if sc is None:
        return False
    for n in ast.walk(sc.tree):
        if isinstance(n, ast.expr):
            try:
                if re.sub(r"\s+", " ", ast.unparse(n)) == expr and sc.qualname(n) == fn_name:
                    return True
            except Exception:  # noqa
                continue
    return False


def source_constants(repo: str) -> dict:
    """Data the model hard-codes, read from the SOURCE (AST) of the implementation; a key is absent when the
    derivation no longer applies (the check then fails closed)."""
    base = os.path.join(repo, "ariadne_codegen")
    out = {}
    try:
        tree = ast.parse(open(os.path.join(base, "schema.py"), encoding="utf-8").read())
        for fn in ast.walk(tree):
            if isinstance(fn, ast.FunctionDef) and fn.name == "walk_graphql_files":
                for n in ast.walk(fn):
                    if isinstance(n, ast.Assign) and isinstance(n.targets[0], ast.Name) and n.targets[0].id == "extensions":
                        out["graphql_extensions"] = list(ast.literal_eval(n.value))
    except Exception:  # noqa
        pass
    try:
        tree = ast.parse(open(os.path.join(base, "client_generators", "constants.py"), encoding="utf-8").read())
        consts = {}
        for st in tree.body:
            if isinstance(st, ast.Assign) and isinstance(st.targets[0], ast.Name):
                if isinstance(st.value, ast.Constant) and isinstance(st.value.value, str):
                    consts[st.targets[0].id] = st.value.value
        shared = {}
        for st in tree.body:
            if isinstance(st, ast.Assign) and isinstance(st.targets[0], ast.Name) and isinstance(st.value, ast.Call) \
                    and ast.unparse(st.value.func) == "ast.ImportFrom":
                kw = {k.arg: k.value for k in st.value.keywords}
                names = []
                for el in kw["names"].elts:
                    a0 = el.args[0]
                    names.append(consts[a0.id] if isinstance(a0, ast.Name) else a0.value)
                mod = ast.unparse(kw["module"])
                shared[st.targets[0].id] = {"module": mod, "names": names, "level": ast.literal_eval(kw["level"])}
        out["shared_imports"] = shared
    except Exception:  # noqa
        pass
    return out


def key_counts(sites) -> dict[tuple, list[int]]:
    out: dict[tuple, list[int]] = {}
    for f, fn, ctx, text, line in sites:
        out.setdefault((f, fn, ctx, text), []).append(line)
    return out


if __name__ == "__main__" and len(sys.argv) > 2 and sys.argv[2] == "--derived":
    _d, der = scan_repo_full(sys.argv[1])
    for k, (sink, why) in sorted(der.items()):
        if sink is not None:
            print(f"{k[0]}\t{k[1]}\t{k[2]}\t{k[3][:60]}\t=> {sink}\t({why})")
    sys.exit(0)

if __name__ == "__main__":
    repo = sys.argv[1] if len(sys.argv) > 1 else os.environ.get("VERIF_REPO", "/repo")
    for k, lines in sorted(key_counts(scan_repo(repo)).items()):
        print(f"{k[0]}:{','.join(map(str, lines))}\t{k[1]}\t{k[2]}\t{k[3]}")
