"""C13 — Subscriptions follow the graphql-transport-ws protocol for every frame sequence.

K1  Model/Ws.v (extracted run_ws / run_ws_otel) vs execute_ws of the two bundled async clients of
    $VERIF_REPO on a scripted fake connection: EXHAUSTIVE frame sequences over a 13-letter
    alphabet up to the tier's length bound x {init payload unset/set} x {variables none / with
    UNSET, pydantic models, lists} x {plain, OpenTelemetry without tracer, with a recording
    tracer}; full event order (recv/send/yield/close), connect parameters, terminal exception
    with its attributes, span names.  Plus a malformed-shape stream, a variables stream and a
    connect-parameters stream.
K3  the property's own oracle: the same real runs compared with the SPECIFICATION spec_ws
    (extracted too) on the observables of the property text (messages sent, values yielded,
    connect parameters, close() calls, outcome).  No finding class is open any more (all five are
    repaired in /repo): EVERY deviation from the specification is a VIOLATION; the former witnesses
    stay in the streams and in the corpus as regression cases.
RT  runtime-only: a sample of sequences against a REAL websockets server on 127.0.0.1 that plays
    the frames and records handshake (subprotocol, headers, origin) and the client's messages;
    also validates the fake connection (same trace).
"""
from __future__ import annotations

import asyncio
import itertools
import json
import os
import time
from concurrent.futures import ProcessPoolExecutor

from .. import model
from ..sexp import Sym

QUERY = "subscription OnCount($a: Int) { count(a: $a) }"
OPNAME = "OnCount"

LETTERS = ["ack", "next", "next-empty", "next-null", "next-nodata", "ping", "pong", "complete", "error",
           "non-json", "unknown-type", "missing-type", "other-known"]


def mk_frame(letter: str, i: int):
    if letter == "ack":
        return ("j", {"type": "connection_ack"})
    if letter == "next":
        return ("j", {"type": "next", "id": "1", "payload": {"data": {"count": i}}})
    if letter == "next-empty":
        return ("j", {"type": "next", "id": "1", "payload": {"data": {}}})
    if letter == "next-null":
        return ("j", {"type": "next", "id": "1", "payload": {"data": None, "errors": [{"message": "e"}]}})
    if letter == "next-nodata":
        return ("j", {"type": "next", "id": "1", "payload": {"errors": [{"message": "e"}]}})
    if letter == "ping":
        return ("j", {"type": "ping"})
    if letter == "pong":
        return ("j", {"type": "pong", "payload": {"k": i}})
    if letter == "complete":
        return ("j", {"type": "complete", "id": "1"})
    if letter == "error":
        return ("j", {"type": "error", "id": "1",
                      "payload": [{"message": "boom", "path": ["count", i], "locations": [{"line": 1, "column": 2}],
                                   "extensions": {"code": "X"}}, {"message": "second"}]})
    if letter == "non-json":
        return ("t", "not json {")
    if letter == "unknown-type":
        return ("j", {"type": "bogus", "id": "1"})
    if letter == "missing-type":
        return ("j", {"id": "1", "payload": {"data": {"count": i}}})
    if letter == "other-known":
        return ("j", {"type": "subscribe", "id": "1", "payload": {"query": "x"}})
    raise KeyError(letter)


MALFORMED = {
    # JSON but not an object
    "json-array": ("j", [1, 2]), "json-int": ("j", 5), "json-string": ("j", "next"), "json-null": ("j", None),
    "json-true": ("j", True),
    # type of the wrong JSON kind
    "type-list": ("j", {"type": ["next"]}), "type-object": ("j", {"type": {"a": 1}}),
    "type-empty-string": ("j", {"type": ""}), "type-zero": ("j", {"type": 0}), "type-empty-list": ("j", {"type": []}),
    "type-null": ("j", {"type": None}), "type-false": ("j", {"type": False}), "type-int": ("j", {"type": 5}),
    "type-true": ("j", {"type": True}), "type-empty-object": ("j", {"type": {}}),
    # next with a payload that is not an object
    "next-payload-null": ("j", {"type": "next", "payload": None}), "next-payload-int": ("j", {"type": "next", "payload": 5}),
    "next-payload-str-data": ("j", {"type": "next", "payload": "xdatax"}),
    "next-payload-str": ("j", {"type": "next", "payload": "abc"}),
    "next-payload-list-data": ("j", {"type": "next", "payload": ["data"]}),
    "next-payload-list": ("j", {"type": "next", "payload": ["x", 1]}),
    "next-payload-true": ("j", {"type": "next", "payload": True}),
    "next-no-payload": ("j", {"type": "next"}),
    # error with a payload that is not a list of error objects
    "error-object": ("j", {"type": "error", "payload": {"message": "x"}}),
    "error-null": ("j", {"type": "error", "payload": None}),
    "error-no-message": ("j", {"type": "error", "payload": [{"message": "a"}, {"text": "b"}]}),
    "error-list-str": ("j", {"type": "error", "payload": ["str"]}),
    "error-list-int": ("j", {"type": "error", "payload": [5]}),
    "error-list-list": ("j", {"type": "error", "payload": [[1]]}),
    "error-int": ("j", {"type": "error", "payload": 5}),
    "error-str": ("j", {"type": "error", "payload": "abc"}),
    "error-no-payload": ("j", {"type": "error", "id": "1"}),
    "error-empty-list": ("j", {"type": "error", "payload": []}),
    # next whose data is null
    "next-null-no-errors": ("j", {"type": "next", "payload": {"data": None}}),
    "next-null-empty-errors": ("j", {"type": "next", "payload": {"data": None, "errors": []}}),
    "next-null-bad-errors": ("j", {"type": "next", "payload": {"data": None, "errors": [{"text": "x"}]}}),
    "next-null-errors-object": ("j", {"type": "next", "payload": {"data": None, "errors": {"message": "x"}}}),
    "next-null-two-errors": ("j", {"type": "next", "payload": {"data": None, "errors": [{"message": "a", "path": ["x"]}, {"message": "b"}]}}),
    "next-data-and-errors": ("j", {"type": "next", "payload": {"data": {"count": 7}, "errors": [{"message": "partial"}]}}),
}
# payload shapes on which "raises the multi-error on error" is met by an EMPTY multi-error although the
# payload is not a list: compared with the model (K1) only, no verdict of the property oracle
K1_ONLY = {
    "error-empty-object": ("j", {"type": "error", "payload": {}}),
    "error-empty-string": ("j", {"type": "error", "payload": ""}),
}

INIT = {"unset": None, "set": {"token": "secret", "n": [1, 2]}}
INIT_SIDE = {"empty-object": {}}
CFG_BASE = {"url": "ws://example.test/graphql"}
CFG_SIDE = {
    "headers+origin": {"url": "ws://h.test/g", "headers": {"Authorization": "Bearer t", "X-A": "1"}, "origin": "https://o.test"},
    "empty-origin": {"url": "", "origin": ""},
    "kw-headers-merge": {"url": "ws://h.test/g", "headers": {"X-A": "1", "X-B": "2"}, "kw_headers": {"X-B": "override", "X-C": "3"}},
    "kw-headers-only": {"url": "ws://h.test/g", "kw_headers": {"X-C": "3"}},
    "kw-origin-override": {"url": "ws://h.test/g", "origin": "https://o.test", "kw_other": {"origin": "https://kw.test", "open_timeout": 5}},
    "origin+kw-other": {"url": "ws://h.test/g", "origin": "https://o.test", "kw_other": {"open_timeout": 5}},
    "origin+kw-headers": {"url": "ws://h.test/g", "origin": "https://o.test", "headers": {"X-A": "1"}, "kw_headers": {"X-C": "3"}},
    "kw-other": {"url": "ws://h.test/g", "kw_other": {"ping_interval": None, "max_size": 1024}, "init_payload": {"a": 1}},
}

CLASSES = []   # all five former finding classes are repaired in /repo (known_findings/C13.json "fixed")


# ----------------------------------------------------------------------------------------------
def _cases_for_task(task):
    """yield (key, letters|None, frames, cfgname, cfg, varsname, k3)"""
    kind = task[0]
    if kind == "exh":
        _, prefix, length, combos = task
        for rest in itertools.product(range(len(LETTERS)), repeat=length - len(prefix)):
            idx = tuple(prefix) + rest
            letters = [LETTERS[i] for i in idx]
            frames = [mk_frame(l, i) for i, l in enumerate(letters)]
            for ci, (iname, vname) in enumerate(combos):
                if len(combos) == 1:      # rotating configuration (thorough, longest length)
                    iname, vname = ALL_COMBOS[sum(idx) % len(ALL_COMBOS)]
                cfg = dict(CFG_BASE, init_payload=(INIT | INIT_SIDE)[iname])
                yield (letters, frames, "init-" + iname, cfg, vname, True)
    elif kind in ("list", "sample"):
        for c in task[1]:
            yield c


ALL_COMBOS = [(i, v) for i in ("unset", "set") for v in ("none", "rich")]


def _model_batch(cmds):
    """like model.batch, single process, but identical answer lines (plain / otel without tracer,
    often spec) are decoded once"""
    import subprocess

    from .. import sexp

    exe = model.binary("C13")
    if not os.path.exists(exe):
        raise model.ModelError(f"model driver not built: {exe}")
    if not cmds:
        return []
    p = subprocess.run([exe], input=("\n".join(sexp.dumps(c) for c in cmds) + "\n").encode(),
                       stdout=subprocess.PIPE, stderr=subprocess.PIPE, timeout=1800)
    if p.returncode != 0:
        raise model.ModelError(f"modelrun exit {p.returncode}: {p.stderr[-500:]!r}")
    lines = p.stdout.decode("utf-8", errors="surrogateescape").splitlines()
    if len(lines) != len(cmds):
        raise model.ModelError(f"modelrun answered {len(lines)} of {len(cmds)} lines")
    out, last, last_dec = [], None, None
    for l in lines:
        if l != last:
            last, last_dec = l, sexp.loads(l)
        out.append(last_dec)
    return out


def _worker(task):
    """runs in a forked process: implementation runs + model batch + comparison for one task"""
    from . import c13_impl as I

    fx = I.vars_fixtures()
    variants = task[-1] if task[0] == "list" and isinstance(task[-1], tuple) else I.VARIANTS
    cases = list(_cases_for_task(task))
    cmds = []
    for letters, frames, cname, cfg, vname, k3 in cases:
        rq = I.request_sx(QUERY, OPNAME, fx[vname][1])
        fs = [I.frame_sx(f) for f in frames]
        c = I.cfg_sx(cfg)
        for v in ("plain", "otel", "otel-tracer", "spec"):
            cmds.append([Sym("ws"), v, c, rq, fs])
        cmds.append([Sym("guards"), rq, fs])
    res = _model_batch(cmds)
    out = {"runs": 0, "cases": 0, "nontrivial": 0, "dist": {}, "k1": [], "dev": [], "samples": [],
           "model_errors": []}
    seen_seq = set()

    def dist(k, s, n=1):
        d = out["dist"].setdefault(k, {})
        d[s] = d.get(s, 0) + n

    for ci, (letters, frames, cname, cfg, vname, k3) in enumerate(cases):
        r = res[5 * ci: 5 * ci + 5]
        if any(model.is_error(x) for x in r):
            out["model_errors"].append({"frames": frames, "cfg": cname, "vars": vname, "model": r})
            continue
        m = {"plain": I.decode_trace(r[0]), "otel": I.decode_trace(r[1]), "otel-tracer": I.decode_trace(r[2])}
        spec = I.decode_trace(r[3])
        kinds = [k if isinstance(k, str) else k[0] for k in r[4][0]]
        out["cases"] += 1
        acked = len(kinds) > 1 and kinds[0] == "ack"
        first_time = task[0] != "list" and tuple(letters) not in seen_seq
        seen_seq.add(tuple(letters or ()))
        if acked and first_time:
            out["nontrivial"] += 1      # distinct sequences of the enumerated / sampled streams only
        if first_time:
            dist("length", str(len(frames)))
            for l in (letters or []):
                dist("letters", l)
            dist("spec_outcome", spec["fin"] if isinstance(spec["fin"], str) else spec["fin"][0])
            dist("spec_kinds", " ".join(sorted(set(kinds))) or "(empty)")
        dist("config", f"{cname} vars-{vname}")
        sp = I.project(spec)
        for v in variants:
            tr = I.run_fake(v, cfg, QUERY, OPNAME, fx[vname][0], frames)
            out["runs"] += 1
            dist("impl_outcome", v + ":" + (tr["fin"] if isinstance(tr["fin"], str) else tr["fin"][0] + (":" + tr["fin"][1] if tr["fin"][0] == "other" else "")))
            replay = {"variant": v, "cfg": cfg, "cfg_name": cname, "vars": vname, "letters": letters,
                      "frames": [list(f) for f in frames]}
            # ---- K1: everything the model predicts
            mm = m[v]
            diffs = [k for k in ("connect", "events", "fin", "spans") if I.strict(tr[k]) != I.strict(mm[k])]
            if tr["ctx"] != (1, 1, 1):
                diffs.append("ws_connect not called/entered/exited exactly once: %r" % (tr["ctx"],))
            # ---- K3: the property oracle (spec) on the observables of the text
            ip = I.project(tr)
            dev = [k for k in ("connect", "sent", "yielded", "closes", "fin") if I.strict(ip[k]) != I.strict(sp[k])]
            cls = None
            if dev:
                cls = None      # no finding class is open: every deviation from the specification is a violation
            if diffs:
                if len(out["k1"]) < 5:
                    out["k1"].append({"replay": replay, "differs": diffs,
                                      "impl": {k: tr[k] for k in ("connect", "events", "fin", "spans")}, "model": mm,
                                      "property_deviation": dev, "class": cls,
                                      "spec": sp, "impl_observables": ip})
                else:
                    out["k1"].append(None)
            if dev and k3:
                rec = {"replay": replay, "deviates_in": dev, "class": cls, "spec": sp, "impl_observables": ip}
                dist("deviation", cls or "OUTSIDE-EVERY-CLASS")
                have = sum(1 for d in out["dev"] if d and d["class"] == cls)
                out["dev"].append(rec if have < 2 or cls is None and have < 6 else {"class": cls, "n": len(frames)})
            if len(out["samples"]) < 1 and acked and v == "plain" and len(frames) >= 3:
                out["samples"].append({"letters": letters, "config": cname, "vars": vname, "variant": v,
                                       "events": tr["events"], "fin": tr["fin"]})
    return out


# ----------------------------------------------------------------------------------------------
def side_cases():
    from . import c13_impl as I  # noqa: F401

    cases = []
    seqs_m = lambda m: [[m], [("ack",), m], [("ack",), ("next",), m, ("next",)], [("ack",), ("complete",), m], [m, ("ack",)]]

    def build(seq):
        frames, letters = [], []
        for i, x in enumerate(seq):
            if isinstance(x, tuple) and len(x) == 1:
                frames.append(mk_frame(x[0], i)); letters.append(x[0])
            else:
                frames.append(x[1]); letters.append(x[0])
        return letters, frames

    # malformed-shape stream
    for name, fr in list(MALFORMED.items()) + list(K1_ONLY.items()):
        for seq in seqs_m((name, fr)):
            letters, frames = build(seq)
            for iname, vname in (("unset", "none"), ("set", "rich")):
                cfg = dict(CFG_BASE, init_payload=INIT[iname])
                cases.append((letters, frames, "init-" + iname, cfg, vname, name not in K1_ONLY))
    # variables stream
    short = [[], [("ping",)], [("ack",)], [("ack",), ("next",), ("ping",), ("complete",)], [("ack",), ("error",)]]
    for vname in ("emptydict", "all-unset", "datetime", "model-datetime", "nested-unset", "list-datetime", "rich", "none"):
        for seq in short:
            letters, frames = build(seq)
            for iname in ("unset", "set", "empty-object"):
                cfg = dict(CFG_BASE, init_payload=(INIT | INIT_SIDE)[iname])
                cases.append((letters, frames, "init-" + iname, cfg, vname, True))
    # connect-parameters stream
    for cname, cfg in CFG_SIDE.items():
        for seq in short[:4]:
            letters, frames = build(seq)
            cases.append((letters, frames, "cfg-" + cname, cfg, "rich", True))
    return cases


class _Counted:
    def __init__(self, n):
        self.n = n

    def __len__(self):
        return self.n


def run(ctx):
    run = ctx.run
    from . import c13_impl as I

    maxlen = 5 if ctx.thorough else 4
    two = [ALL_COMBOS[0], ALL_COMBOS[3]]
    n_sample = 3000
    run.rule = (f"EXHAUSTIVE: every sequence of length 0..{maxlen} over the 13-letter frame alphabet {LETTERS} "
                "x {init payload unset, set} x {variables none, rich (UNSET, aliased pydantic models with unset fields, "
                "nested lists)} x {plain client, OpenTelemetry client without tracer, with a recording tracer}"
                + ("" if ctx.thorough else " (at length 4 each sequence runs with ONE of the four configurations, rotated over the "
                   "sequences; the full 2x2 product up to length 3)")
                + (f"; every ack-prefixed sequence of length {maxlen + 1}" if ctx.thorough else
                   f"; a seeded sample of {n_sample} distinct ack-prefixed sequences of length {maxlen + 1} (not exhaustive)")
                + " x {init unset + variables none, init set + variables rich} x the 3 clients"
                + "; plus malformed-shape, variables and connect-parameter side streams and a real-websockets-server sample. "
                "evaluations = execute_ws runs; non-trivial = distinct frame sequences whose first frame is the ack and "
                "that have at least one more frame (they reach the streaming phase)")
    run.assumptions += [
        "connection behaviour (exhausted connection: recv() raises ConnectionClosedOK / iteration ends; frames buffered "
        "after close() would still be delivered, send() after close() raises) is that of websockets 17.1; the fake "
        "connection reproducing it is compared with a real loopback server on every run",
        "inside the Coq model a frame is a JSON VALUE (unique keys, no float leaves); which texts / byte strings are a JSON "
        "value, and which one, is decided by Python's json.loads, the function the client is specified to use (reference of "
        "the wire-dimension stream: nesting depth, surrogates, huge strings, number edge cases, binary frames, BOMs)",
        "OpenTelemetry: a recording tracer stub (opentelemetry-sdk is not installed); span attributes are not compared, span names are",
        "the handshake against a real websockets server is RUNTIME-ONLY evidence (no theorem covers it)",
    ]
    # ---- model data derived from the source; Coq witnesses replayed on the real code (corpus first)
    from . import c13_deep

    c13_deep.tables(run, I)
    c13_deep.corpus(run, I)
    c13_deep.wire_dimension(run, I)
    t0 = time.time()
    tasks = []
    for L in range(0, maxlen + 1):
        pl = min(L, 2)
        for prefix in itertools.product(range(len(LETTERS)), repeat=pl):
            tasks.append(("exh", prefix, L, ALL_COMBOS if (ctx.thorough or L < maxlen) else [("rot", "rot")]))
    # ACK-PREFIXED sequences one frame longer (uniform enumeration spends 12/13 of its cases on a first
    # frame that is not the ack): all of them (thorough) / a seeded sample without repetition (quick)
    if ctx.thorough:
        for prefix in itertools.product(range(len(LETTERS)), repeat=2):
            tasks.append(("exh", (0,) + prefix, maxlen + 1, two))
    else:
        n = len(LETTERS)
        picked = []
        for code in ctx.rng.sample(range(n ** maxlen), n_sample):
            idx = [0]
            for _ in range(maxlen):
                idx.append(code % n)
                code //= n
            letters = [LETTERS[i] for i in idx]
            frames = [mk_frame(l, i) for i, l in enumerate(letters)]
            for iname, vname in two:
                picked.append((letters, frames, "init-" + iname, dict(CFG_BASE, init_payload=INIT[iname]), vname, True))
        for i in range(0, len(picked), 400):
            tasks.append(("sample", picked[i:i + 400]))
    side = side_cases()
    for i in range(0, len(side), 40):
        tasks.append(("list", side[i:i + 40]))
    # longest tasks first
    tasks.sort(key=lambda t: -(len(LETTERS) ** (t[2] - len(t[1])) * len(t[3]) if t[0] == "exh" else 2 * len(t[1])))
    tot = {"runs": 0, "cases": 0, "nontrivial": 0}
    k1_n, k1_first, devs, dev_counts = 0, [], [], {}
    model_errors = []
    jobs = int(os.environ.get("VERIF_JOBS", "16"))
    with ProcessPoolExecutor(max_workers=jobs) as ex:
        for out in ex.map(_worker, tasks, chunksize=1):
            for k in tot:
                tot[k] += out[k]
            for k, d in out["dist"].items():
                for s, n in d.items():
                    run.dist(k, s, n)
            k1_n += len(out["k1"])
            k1_first.extend(x for x in out["k1"] if x)
            for d in out["dev"]:
                dev_counts[d["class"]] = dev_counts.get(d["class"], 0) + 1
                if "replay" in d:
                    devs.append(d)
            model_errors.extend(out["model_errors"])
            for s in out["samples"]:
                run.sample(s, limit=6)
    run.count(tot["runs"])
    run.nontrivial = _Counted(tot["nontrivial"])
    run.exhaustive = True
    run.extra["sequences_x_configurations"] = tot["cases"]
    run.extra["k1_disagreements"] = k1_n
    run.extra["property_deviations_by_class"] = {str(k): v for k, v in dev_counts.items()}
    run.extra["sweep_wall_s"] = round(time.time() - t0, 1)
    if model_errors:
        run.broken("model driver returned an error", json.dumps(model_errors[0], default=repr)[:2000])
    # ---- K1 disagreements: search = the property oracle on the same (shortest) input
    k1_first.sort(key=lambda x: (not (bool(x["property_deviation"]) and x["class"] is None), len(x["replay"]["frames"])))
    for x in k1_first[:3]:
        outside = bool(x["property_deviation"]) and x["class"] is None
        run.violation(
            "K1 model/code disagree (%s) on %s/%s/%s frames %s; %s" % (
                ", ".join(x["differs"]), x["replay"]["variant"], x["replay"]["cfg_name"], x["replay"]["vars"],
                x["replay"]["letters"],
                ("the property itself fails here: observed %s differ from the protocol" % x["property_deviation"])
                if outside else "no property failure outside the known classes on this input"),
            x, found_input=outside)
    # ---- K3 deviations
    devs.sort(key=lambda d: len(d["replay"]["frames"]))
    seen, outside = set(), 0
    for d in devs:
        cls = d["class"]
        what = "execute_ws deviates from graphql-transport-ws in %s on frames %s (%s, vars %s, %s)" % (
            d["deviates_in"], d["replay"]["letters"], d["replay"]["cfg_name"], d["replay"]["vars"], d["replay"]["variant"])
        if cls is None:
            outside += 1
            if outside <= 3:
                run.violation(what, d)
        elif cls not in seen:
            seen.add(cls)
            run.finding(cls, what, d)
    for cls, n in dev_counts.items():   # exact counts on the KNOWN-FINDING line
        if cls in run.known_hit:
            run.known_hit[cls]["count"] = n
    # ---- histories: several subscriptions on one client object / interleaved client objects
    from . import c13_hist

    hs = c13_hist.histories(ctx.rng, 1500 if ctx.thorough else 300)
    htasks = [(v, hs[i:i + 150]) for v in I.VARIANTS for i in range(0, len(hs), 150)]
    hprobs, hruns, hn = [], 0, 0
    with ProcessPoolExecutor(max_workers=jobs) as ex:
        for out in ex.map(c13_hist.worker, htasks, chunksize=1):
            hruns += out["runs"]
            hn += out["histories"]
            hprobs.extend(out["problems"])
            for k, n in out["dist"].items():
                run.dist("histories", k, n)
    run.count(hruns)
    run.extra["histories"] = {"histories": hn, "runs": hruns, "failing": len(hprobs),
                              "what": "every ordered pair of 28 call kinds (7 per-call kwargs x 4 frame scripts) on one client "
                                      "object x 2 client configurations + seeded random histories of 3-4 calls over 1-2 client "
                                      "objects, x 3 client variants; each call vs the stateless model of that call alone; "
                                      "vars(client), caller's kwargs/variables objects and module state snapshotted"}
    real = [p for p in hprobs if p]
    real.sort(key=lambda p: (not p["property_observables_differ"], len(p["history"])))
    for p in real[:3]:
        run.violation("history: call #%s of %s on one client object (%s) differs from the same call alone: %s%s" % (
            p["failing_call"], [c[1] + "/" + c[2] for c in p["history"]], p["variant"], ", ".join(p["differs"]),
            ("; the property's observables %s differ" % p["property_observables_differ"]) if p["property_observables_differ"] else ""),
            p, found_input=bool(p["property_observables_differ"]) or any("changed" in d or "modified" in d for d in p["differs"]))
    # ---- subscriptions overlapping in time on one client object
    c13_deep.concurrent(run, I, ctx.rng, 150 if ctx.thorough else 40)
    # ---- the GENERATED subscription methods (variables named like the method's locals), run end to end
    from . import c13_gen

    c13_gen.run(ctx)
    # ---- runtime-only: real websockets server
    from . import c13_real

    c13_real.run(ctx, k1_clean=(k1_n == 0))
    if ctx.replay:
        _replay(ctx, I)


def _replay(ctx, I):
    rp = json.load(open(ctx.replay))
    rp = rp.get("replay", rp)
    frames = [tuple(f) for f in rp["frames"]]
    out = _worker(("list", [(rp.get("letters"), frames, rp.get("cfg_name", "replay"), rp["cfg"], rp["vars"], True)],
                   (rp["variant"],)))
    ctx.run.extra["replay_result"] = {"k1": [x for x in out["k1"] if x], "dev": out["dev"]}
    print("REPLAY", json.dumps(ctx.run.extra["replay_result"], default=repr)[:3000])
