"""The four bundled base clients, loaded from $VERIF_REPO (through PYTHONPATH), in six variants
(sync/async x plain / OpenTelemetry without tracer / OpenTelemetry with a tracer).
Shared by the C11 and C12 checks."""
from __future__ import annotations

import asyncio
import importlib
import os

DEP = "ariadne_codegen.client_generators.dependencies"
URL = "http://verif.test/graphql"


class Variant:
    def __init__(self, name, modname, clsname, is_async, tracer):
        self.name, self.modname, self.clsname, self.is_async, self.tracer = name, modname, clsname, is_async, tracer
        self.mod = importlib.import_module(f"{DEP}.{modname}")
        self.cls = getattr(self.mod, clsname)

    def make(self, transport, client_headers=None, url=None, **kw):
        import httpx

        if self.is_async:
            http = httpx.AsyncClient(transport=transport, headers=client_headers)
        else:
            http = httpx.Client(transport=transport, headers=client_headers)
        if self.tracer == "rec":
            from .rec_tracer import RecTracer

            kw["tracer"] = RecTracer()
        elif self.tracer:
            kw["tracer"] = _tracer()
        return self.cls(url=url or URL, http_client=http, **kw)


def _tracer():
    from opentelemetry import trace

    return trace.get_tracer("verif")


def repo_root() -> str:
    return os.environ.get("VERIF_REPO", "/repo")


def variants() -> list[Variant]:
    vs = [
        Variant("sync", "base_client", "BaseClient", False, False),
        Variant("async", "async_base_client", "AsyncBaseClient", True, False),
        Variant("sync-otel", "base_client_open_telemetry", "BaseClientOpenTelemetry", False, False),
        Variant("async-otel", "async_base_client_open_telemetry", "AsyncBaseClientOpenTelemetry", True, False),
    ]
    try:
        _tracer()
        vs += [
            Variant("sync-otel+tracer", "base_client_open_telemetry", "BaseClientOpenTelemetry", False, True),
            Variant("async-otel+tracer", "async_base_client_open_telemetry", "AsyncBaseClientOpenTelemetry", True, True),
        ]
    except ImportError:
        pass
    # a tracer whose spans actually record (is_recording() is True), as an SDK tracer's would
    vs += [
        Variant("sync-otel+recording", "base_client_open_telemetry", "BaseClientOpenTelemetry", False, "rec"),
        Variant("async-otel+recording", "async_base_client_open_telemetry", "AsyncBaseClientOpenTelemetry", True, "rec"),
    ]
    # all must come from the tree under check
    root = os.path.realpath(repo_root())
    for v in vs:
        f = os.path.realpath(v.mod.__file__)
        if not f.startswith(root + os.sep):
            raise RuntimeError(f"{v.modname} loaded from {f}, not from {root}")
    return vs


def dep_module(name: str):
    return importlib.import_module(f"{DEP}.{name}")


def run_coro(coro):
    loop = asyncio.new_event_loop()
    try:
        return loop.run_until_complete(coro)
    finally:
        loop.close()


# ---- canonical form of decoded JSON / Python values (bool != int, floats by repr, order kept) ----
def canon(v):
    if v is None or isinstance(v, str):
        return v
    if isinstance(v, bool):
        return ("bool", v)
    if isinstance(v, int):
        return ("int", v)
    if isinstance(v, float):
        return ("float", repr(v))
    if isinstance(v, (list, tuple)):
        return [canon(x) for x in v]
    if isinstance(v, dict):
        return ("obj", [(k, canon(x)) for k, x in v.items()])
    return ("other", type(v).__name__, repr(v))


# ---- module-level state of the bundled client modules (globals, class attributes, function defaults) ----
STATE_MODULES = ["base_client", "async_base_client", "base_client_open_telemetry",
                 "async_base_client_open_telemetry", "base_model", "exceptions"]


def _freeze(v, depth=0):
    if v is None or isinstance(v, (bool, int, float, str, bytes)):
        return repr(v)
    if depth > 5:
        return ("deep", type(v).__name__)
    if isinstance(v, dict):
        return ("dict", id(v), tuple((repr(k), _freeze(x, depth + 1)) for k, x in v.items()))
    if isinstance(v, (list, tuple)):
        return (type(v).__name__, id(v), tuple(_freeze(x, depth + 1) for x in v))
    if isinstance(v, (set, frozenset)):
        return (type(v).__name__, id(v), tuple(sorted(repr(x) for x in v)))
    return ("obj", type(v).__name__, id(v))


def _freeze_function(f):
    return ("func", id(f), _freeze(getattr(f, "__defaults__", None)), _freeze(getattr(f, "__kwdefaults__", None)))


def module_state():
    """A comparable snapshot of everything a call could leave behind at module level."""
    import types

    snap = {}
    for name in STATE_MODULES:
        m = dep_module(name)
        for g, v in vars(m).items():
            if g.startswith("__"):
                continue
            key = f"{name}.{g}"
            if isinstance(v, type) and getattr(v, "__module__", None) == m.__name__:
                for a, x in vars(v).items():
                    if a in ("__dict__", "__weakref__", "__doc__", "__module__", "__qualname__", "__annotations__",
                             "__abstractmethods__", "_abc_impl", "__pydantic_parent_namespace__"):
                        continue
                    f = getattr(x, "__func__", x)
                    if isinstance(f, types.FunctionType):
                        snap[f"{key}.{a}"] = _freeze_function(f)
                    elif a.startswith("__"):
                        continue  # interpreter / pydantic bookkeeping (lazy caches)
                    elif isinstance(x, (dict, list, set)):
                        snap[f"{key}.{a}"] = _freeze(x)
            elif isinstance(v, types.FunctionType):
                snap[key] = _freeze_function(v)
            elif isinstance(v, types.ModuleType):
                snap[key] = ("module", v.__name__)
            else:
                snap[key] = _freeze(v)
    return snap


def state_diff(a, b):
    return sorted(k for k in set(a) | set(b) if a.get(k) != b.get(k))
