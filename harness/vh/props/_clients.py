"""The four bundled base clients, loaded from $VERIF_REPO (through PYTHONPATH), in six variants
(sync/async x plain / OpenTelemetry without tracer / OpenTelemetry with a tracer).
Shared by the C11 and C12 checks."""
from __future__ import annotations

import asyncio
import importlib
import os

DEP = "ariadne_codegen.client_generators.dependencies"
URL = "http://verif.test/graphql"


class Variant:
    def __init__(self, name, modname, clsname, is_async, tracer):
        self.name, self.modname, self.clsname, self.is_async, self.tracer = name, modname, clsname, is_async, tracer
        self.mod = importlib.import_module(f"{DEP}.{modname}")
        self.cls = getattr(self.mod, clsname)

    def make(self, transport, **kw):
        import httpx

        if self.is_async:
            http = httpx.AsyncClient(transport=transport)
        else:
            http = httpx.Client(transport=transport)
        if self.tracer:
            kw["tracer"] = _tracer()
        return self.cls(url=URL, http_client=http, **kw)


def _tracer():
    from opentelemetry import trace

    return trace.get_tracer("verif")


def repo_root() -> str:
    return os.environ.get("VERIF_REPO", "/repo")


def variants() -> list[Variant]:
    vs = [
        Variant("sync", "base_client", "BaseClient", False, False),
        Variant("async", "async_base_client", "AsyncBaseClient", True, False),
        Variant("sync-otel", "base_client_open_telemetry", "BaseClientOpenTelemetry", False, False),
        Variant("async-otel", "async_base_client_open_telemetry", "AsyncBaseClientOpenTelemetry", True, False),
    ]
    try:
        _tracer()
        vs += [
            Variant("sync-otel+tracer", "base_client_open_telemetry", "BaseClientOpenTelemetry", False, True),
            Variant("async-otel+tracer", "async_base_client_open_telemetry", "AsyncBaseClientOpenTelemetry", True, True),
        ]
    except ImportError:
        pass
    # all must come from the tree under check
    root = os.path.realpath(repo_root())
    for v in vs:
        f = os.path.realpath(v.mod.__file__)
        if not f.startswith(root + os.sep):
            raise RuntimeError(f"{v.modname} loaded from {f}, not from {root}")
    return vs


def dep_module(name: str):
    return importlib.import_module(f"{DEP}.{name}")


def run_coro(coro):
    loop = asyncio.new_event_loop()
    try:
        return loop.run_until_complete(coro)
    finally:
        loop.close()


# ---- canonical form of decoded JSON / Python values (bool != int, floats by repr, order kept) ----
def canon(v):
    if v is None or isinstance(v, str):
        return v
    if isinstance(v, bool):
        return ("bool", v)
    if isinstance(v, int):
        return ("int", v)
    if isinstance(v, float):
        return ("float", repr(v))
    if isinstance(v, (list, tuple)):
        return [canon(x) for x in v]
    if isinstance(v, dict):
        return ("obj", [(k, canon(x)) for k, x in v.items()])
    return ("other", type(v).__name__, repr(v))
