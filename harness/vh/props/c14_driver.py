"""Runs inside a fresh interpreter: imports one generated package, plays histories of builder
operations against it (fresh import state per history), captures what reaches the HTTP transport.

stdin : JSON {dir, pkg, async, histories: [[{kind: query|mutation, fields: [expr...]}, ...], ...]}
stdout: JSON {import_error, injected, results: [[{ok, query, variables} | {exc, msg}, ...], ...]}
"""
import asyncio
import builtins
import importlib
import json
import sys
import traceback


def main():
    job = json.load(sys.stdin)
    sys.path.insert(0, job["dir"])
    pkg = job["pkg"]
    out = {"import_error": None, "injected": False, "results": []}

    def purge():
        for m in [m for m in sys.modules if m == pkg or m.startswith(pkg + ".")]:
            del sys.modules[m]

    def load():
        purge()
        mods = {"pkg": importlib.import_module(pkg)}
        for name in ("custom_typing_fields", "custom_fields", "custom_queries", "custom_mutations"):
            try:
                mods[name] = importlib.import_module(f"{pkg}.{name}")
            except ModuleNotFoundError:
                mods[name] = None
        return mods

    def inject():
        # stand-in for the scalar imports the generator forgot (finding class scalar-import)
        import datetime as _dt

        import c14ser

        builtins.ser = c14ser.ser
        builtins.datetime = _dt.datetime
        out["injected"] = True

    try:
        load()
    except NameError as e:
        out["import_error"] = f"NameError: {e}"
        inject()
        try:
            load()
        except Exception as e2:  # noqa
            out["import_error"] += f" / after injection: {type(e2).__name__}: {e2}"
            print(json.dumps(out))
            return
    except Exception as e:  # noqa
        out["import_error"] = f"{type(e).__name__}: {e}\n{traceback.format_exc()[-1500:]}"
        print(json.dumps(out))
        return

    import httpx

    def value(mods, v):
        if isinstance(v, dict):
            if "list" in v:
                return [value(mods, x) for x in v["list"]]
            if "enum" in v:
                return getattr(mods["pkg"], v["enum"][0])(v["enum"][1])
            if "input" in v:
                cls = getattr(mods["pkg"], v["input"][0])
                return cls.model_validate({k: value(mods, x) for k, x in v["input"][1].items()})
        return v

    def find_cls(mods, name):
        for m in ("custom_queries", "custom_mutations", "custom_fields", "custom_typing_fields"):
            mod = mods.get(m)
            if mod is not None and hasattr(mod, name):
                return getattr(mod, name)
        raise LookupError(name)

    pool = {}

    def build(mods, e):
        k = e[0]
        if k == "let":           # remember the built object for later operations of this history
            pool[e[1]] = build(mods, e[2])
            return pool[e[1]]
        if k == "ref":           # the SAME Python object again
            return pool[e[1]]
        if k == "attr":
            return getattr(find_cls(mods, e[1]), e[2])
        if k == "call":
            kw = {a: value(mods, v) for a, v in e[3]}
            return getattr(find_cls(mods, e[1]), e[2])(**kw)
        if k == "fields":
            r = build(mods, e[1])
            subs = [build(mods, x) for x in e[2]]
            return r.fields(*subs)
        if k == "alias":
            return build(mods, e[1]).alias(e[2])
        if k == "on":
            r = build(mods, e[1])
            subs = [build(mods, x) for x in e[3]]
            return r.on(e[2], *subs)
        raise ValueError(k)

    captured = []

    def handler(request):
        captured.append(json.loads(request.content))
        return httpx.Response(200, json={"data": {}})

    def play(mods, op, idx):
        def run_once():
            fields = [build(mods, e) for e in op["fields"]]
            send(fields)
            send(fields)      # the same field objects once more: must give the same request

        def send(fields):
            Client = mods["pkg"].Client
            name = f"Op{idx}"
            if job["async"]:
                client = Client(url="http://c14.test/graphql",
                                http_client=httpx.AsyncClient(transport=httpx.MockTransport(handler)))
                meth = getattr(client, op["kind"])
                asyncio.run(meth(*fields, operation_name=name))
            else:
                client = Client(url="http://c14.test/graphql",
                                http_client=httpx.Client(transport=httpx.MockTransport(handler)))
                getattr(client, op["kind"])(*fields, operation_name=name)

        n0 = len(captured)
        try:
            try:
                run_once()
            except NameError as e:
                if out["injected"]:
                    raise
                out.setdefault("name_errors", []).append(str(e))
                inject()
                return None      # the caller restarts the whole history with the injection in place
            if len(captured) != n0 + 2:
                return {"exc": "NoRequest", "msg": f"{len(captured) - n0} requests"}
            r, again = captured[-2], captured[-1]
            return {"ok": True, "query": r.get("query"), "variables": r.get("variables"),
                    "operationName": r.get("operationName"), "reuse_same": r == again,
                    "again": None if r == again else again}
        except Exception as e:  # noqa
            return {"exc": type(e).__name__, "msg": str(e)[:300]}

    for hist in job["histories"]:
        while True:
            mods = load()
            pool.clear()
            res, restart = [], False
            for i, op in enumerate(hist):
                r = play(mods, op, i)
                if r is None:
                    restart = True
                    break
                res.append(r)
                if "exc" in r:
                    break      # the model stops a history at the first exception too
            if not restart:
                break
        out["results"].append(res)
    print(json.dumps(out))


if __name__ == "__main__":
    main()
