"""C04 — every valid input generates, and what is generated loads.

K2: model data (bundled file/class names, exception names) vs client_generators/constants.py; the model's sort
    vs Python's sorted; has_dup vs len(set()).
K3: (the property's direct oracle) seeded scenarios x points of the documented option product through the REAL
    generator in fresh interpreters: a valid input either generates or is refused by one of the four documented
    refusals whose condition is present in the input (exception class + message checked); every generated
    package is imported in a fresh interpreter: every module imports, every pydantic model is complete,
    set(__all__) = names imported by __init__ = attributes of the package, reported file list = directory listing,
    every operation has its client method.
K1: Model/Package.v + Model/Init.v (extracted) vs the real generator on every case: refusal decision and kind,
    set of files written, reported list, the from-imports of __init__, __all__ (exact list), client methods.
Search: a failing case outside the known finding classes is delta-debugged (options -> defaults, operations,
    fragments, selections, unused schema parts) with the real generator as the oracle; the minimal case is the replay.
"""
from __future__ import annotations

import ast
import os
import random
import re

from graphql import (FieldNode, FragmentDefinitionNode, InlineFragmentNode, OperationDefinitionNode, StringValueNode,
                     parse)

from .. import model
from ..gen import c04_streams as S
from ..gen import scenario
from ..impl import scen, workers
from ..sexp import Sym

REFUSAL_TEXT = {
    "anonymous": ("ariadne_codegen.exceptions.ParsingError", ("Query without name",)),
    "subscription-sync": ("ariadne_codegen.exceptions.NotSupported", ("Subscriptions are only available",)),
    "duplicate-files": ("ariadne_codegen.exceptions.ParsingError", ("Duplicated file names",)),
    "bad-mixin-args": ("ariadne_codegen.exceptions.ParsingError", ("Required arguments (", "Arguments passed to mixin")),
}
CUSTOM_FILES = ["custom_typing_fields.py", "custom_fields.py", "custom_queries.py", "custom_mutations.py"]


def refusal_of(exc) -> str | None:
    """documented refusal named by an exception [qualified class, message], else None"""
    if not exc:
        return None
    for r, (cls, starts) in REFUSAL_TEXT.items():
        if exc[0] == cls and any(exc[1].startswith(s) for s in starts):
            return r
    return None


# ------------------------------------------------------------------------------------------ reading the input
def mixin_dirs(node) -> list:
    """[(arg name, value is a string literal)...] for every @mixin directive of a node"""
    out = []
    for d in node.directives or ():
        if d.name.value == "mixin":
            out.append([[a.name.value, isinstance(a.value, StringValueNode)] for a in d.arguments])
    return out


def mixins_within(defn) -> list:
    out = list(mixin_dirs(defn)) if isinstance(defn, FragmentDefinitionNode) else []

    def walk(ss):
        for s in ss.selections:
            if isinstance(s, FieldNode):
                out.extend(mixin_dirs(s))
                if s.selection_set:
                    walk(s.selection_set)
            elif isinstance(s, InlineFragmentNode):
                walk(s.selection_set)

    walk(defn.selection_set)
    return out


def mixin_ok(args) -> bool:
    names = [a[0] for a in args]
    return all(a[1] for a in args) and "from" in names and "import" in names


def self_unpacked(schema, fr) -> bool:
    """ResultTypesGenerator._unpack_fragment(fragment) without a root type: nothing is parsed for it at start-up"""
    from graphql import GraphQLUnionType

    if isinstance(schema.type_map.get(fr.type_condition.name.value), GraphQLUnionType):
        return True
    return any(isinstance(s, InlineFragmentNode) for s in fr.selection_set.selections)


class Case:
    """one scenario x one configuration point, with the harness's own reading of the input"""

    def __init__(self, sc, stream):
        self.sc, self.stream = sc, stream
        self.doc = parse(sc.queries)
        self.schema = S.schema_of(sc.sdl)
        self.ops = [d for d in self.doc.definitions if isinstance(d, OperationDefinitionNode)]
        self.frags = [d for d in self.doc.definitions if isinstance(d, FragmentDefinitionNode)]
        cfg = sc.config
        self.async_client = cfg.get("async_client", True)
        self.custom_ops = cfg.get("enable_custom_operations", False)
        # refusal conditions present in the input (documented: README / exceptions raised on purpose)
        self.conditions = set()
        if any(o.name is None for o in self.ops):
            self.conditions.add("anonymous")
        if not self.async_client and any(o.operation.value == "subscription" for o in self.ops):
            self.conditions.add("subscription-sync")
        self.op_mixins = [mixins_within(o) for o in self.ops]
        self.frag_dirs = [m for f in self.frags if not self_unpacked(self.schema, f) for m in mixins_within(f)]
        if any(not mixin_ok(m) for ms in self.op_mixins for m in ms) or any(not mixin_ok(m) for m in self.frag_dirs):
            self.conditions.add("bad-mixin-args")
        self.modules = [None if o.name is None else scen.method_name(o.name.value) for o in self.ops]
        # "colliding file names": among ALL the files generate() writes (incl. custom_*.py, __init__.py) or between
        # two operations (since d2e37b3 the generator checks all of them; former findings C04-F28/C04-F29)
        names = self.checked_names()
        mods = [m for m in self.modules if m is not None]
        if len(names) != len(set(names)) or len(mods) != len(set(mods)) or set(self.unchecked_names()) & set(names):
            self.conditions.add("duplicate-files")

    # file names _validate_unique_file_names is documented to keep apart
    def base_client(self):
        cfg = self.sc.config
        if cfg.get("base_client_file_path"):
            p = cfg["base_client_file_path"]
            return os.path.basename(p), os.path.splitext(os.path.basename(p))[0], cfg["base_client_name"], False
        a, o = self.async_client, cfg.get("opentelemetry_client", False)
        stem, cls = {(True, True): ("async_base_client_open_telemetry", "AsyncBaseClientOpenTelemetry"),
                     (True, False): ("async_base_client", "AsyncBaseClient"),
                     (False, True): ("base_client_open_telemetry", "BaseClientOpenTelemetry"),
                     (False, False): ("base_client", "BaseClient")}[(a, o)]
        return stem + ".py", stem, cls, True

    def plugin_files(self):
        """modules a configured plugin writes by itself (ExtractOperations: <operations_module_name>.py)"""
        if any("ExtractOperationsPlugin" in p for p in self.sc.config.get("plugins", [])):
            return [self.sc.config.get("extract-operations", {}).get("operations_module_name", "operations") + ".py"]
        return []

    def unchecked_names(self):
        """files written besides the six configured names, operation modules and included files"""
        out = ["__init__.py"] + self.plugin_files()
        if self.custom_ops:
            out += CUSTOM_FILES[:2]
            if self.schema.query_type is not None:
                out.append(CUSTOM_FILES[2])
            if self.schema.mutation_type is not None:
                out.append(CUSTOM_FILES[3])
        return out

    def include_names(self):
        return [os.path.basename(f) for f in self.sc.config.get("files_to_include", [])]

    def checked_names(self):
        cfg = self.sc.config
        bc = self.base_client()
        names = [cfg.get("client_file_name", "client") + ".py", bc[0], "base_model.py",
                 cfg.get("enums_module_name", "enums") + ".py", cfg.get("input_types_module_name", "input_types") + ".py",
                 cfg.get("fragments_module_name", "fragments") + ".py"]
        names += sorted({m + ".py" for m in self.modules if m is not None})
        names += self.include_names()
        if self.custom_ops:
            names.append("base_operation.py")
        if bc[3]:
            names.append("exceptions.py")
        return names

    # ---- finding-class predicates (known_findings/C04.json; only OPEN classes have a predicate: the fixed
    # ones — F5 quotes/block strings, F7 self/kwargs, F25 pruning, F28/F29 file-name collisions, F30 input module
    # name — are ordinary inputs now, a failure there is a VIOLATION) ----
    def classes(self) -> set:
        if getattr(self, "_classes", None) is None:
            self._classes = self._compute_classes()
        return self._classes

    def _compute_classes(self) -> set:
        out = set()
        # an abstract type condition that is neither the enclosing type nor one of the interfaces it implements
        # (the super-interface case was repaired by 568dfd8)
        for parent, cond in S.foreign_conditions(self.schema, self.doc):
            pt = self.schema.get_type(parent)
            if cond not in {i.name for i in getattr(pt, "interfaces", ())}:
                out.add("C04-F23-unrelated-abstract-type-condition")
        if re.search(r"(?<![A-Za-z0-9_])_+[0-9]", self.sc.sdl + (self.sc.queries or "")):
            out.add("C04-F18-underscore-digit-name")
        # one selection-set scope (as the generator collects it) selects a composite field twice with differing
        # sub-selections: the occurrences are not merged (root cause of C01 F27)
        if self.sc.queries and S.repeated_composite_fields(self.schema, self.doc):
            out.add("C04-F27-repeated-composite-field")
        if any("ExtractOperationsPlugin" in p for p in self.sc.config.get("plugins", [])):
            out.add("C04-F32-plugin-written-module")
        # a generated class (input / enum type name, pascal-cased fragment or operation name) called like a name the
        # generated modules import and subscript or extend
        from ariadne_codegen.utils import str_to_pascal_case as _pc
        from graphql import is_enum_type, is_input_object_type
        made = {n for n, t in self.schema.type_map.items() if is_enum_type(t) or is_input_object_type(t)}
        made |= {_pc(f.name.value) for f in self.frags} | {_pc(o.name.value) for o in self.ops if o.name}
        if made & SHADOWING_NAMES:
            out.add("C04-F35-class-named-like-import")
        return out

    def replay(self, **extra) -> dict:
        r = {"seed": self.sc.seed, "stream": self.stream, "features": list(self.sc.features), "schema": self.sc.sdl,
             "queries": self.sc.queries, "config": self.sc.config, "files": self.sc.files,
             "notes": {k: v for k, v in self.sc.notes.items() if k != "options"}}
        r.update(extra)
        return r


# ------------------------------------------------------------------------------------------- reading the output
def listing(target: str) -> list:
    out = []
    for root, dirs, files in os.walk(target):
        dirs[:] = [d for d in dirs if d != "__pycache__"]
        for f in files:
            out.append(os.path.relpath(os.path.join(root, f), target))
    return sorted(out)


def class_names(path: str) -> list:
    try:
        tree = ast.parse(open(path).read())
    except (OSError, SyntaxError):
        return []
    return [n.name for n in tree.body if isinstance(n, ast.ClassDef)]


def _has_quoted(node) -> bool:
    """an annotation names a class by a quoted forward reference (string constants inside Literal[...] do not count)"""
    if isinstance(node, ast.Subscript) and isinstance(node.value, ast.Name) and node.value.id == "Literal":
        return False
    if isinstance(node, ast.Constant) and isinstance(node.value, str):
        return True
    return any(_has_quoted(ch) for ch in ast.iter_child_nodes(node))


def read_rebuilds(path: str):
    """(classes [[name, [quoted?...]]...] in order, model_rebuild() calls in order) of one generated module"""
    try:
        tree = ast.parse(open(path).read())
    except (OSError, SyntaxError):
        return None
    classes, calls = [], []
    for n in tree.body:
        if isinstance(n, ast.ClassDef):
            classes.append([n.name, [_has_quoted(st.annotation) for st in n.body if isinstance(st, ast.AnnAssign)]])
        elif (isinstance(n, ast.Expr) and isinstance(n.value, ast.Call) and isinstance(n.value.func, ast.Attribute)
              and n.value.func.attr == "model_rebuild" and isinstance(n.value.func.value, ast.Name)):
            calls.append(n.value.func.value.id)
    return classes, calls


def rebuild_commands(case: "Case", target: str):
    """K1 for model_rebuild placement: one model command per operation module and one for the fragments module"""
    from ariadne_codegen.utils import str_to_pascal_case

    out = []
    fm = case.sc.config.get("fragments_module_name", "fragments")
    tops = [str_to_pascal_case(f.name.value) for f in case.frags]
    for mod in sorted({m for m in case.modules if m}) + [fm]:
        r = read_rebuilds(os.path.join(target, mod + ".py"))
        if r is None:
            continue
        classes, calls = r
        names = [c[0] for c in classes]
        out.append((mod, mod == fm, calls, [Sym("rebuilds"), [t for t in tops if t in names], classes]))
    return out


def read_init(target: str) -> dict:
    """from-imports (module -> names, level) and the literal __all__ of the generated __init__.py"""
    out = {"imports": {}, "all": None, "error": None, "other": 0}
    try:
        tree = ast.parse(open(os.path.join(target, "__init__.py")).read())
    except (OSError, SyntaxError) as exc:
        out["error"] = f"{type(exc).__name__}: {exc}"
        return out
    for n in tree.body:
        if isinstance(n, ast.ImportFrom) and n.level == 1:
            out["imports"].setdefault(n.module, []).extend(a.asname or a.name for a in n.names)
        elif isinstance(n, ast.Assign) and len(n.targets) == 1 and getattr(n.targets[0], "id", None) == "__all__":
            try:
                out["all"] = list(ast.literal_eval(n.value))
            except ValueError:
                out["error"] = "__all__ is not a literal"
        else:
            out["other"] += 1
    return out


# -------------------------------------------------------------------------------------------------- the model
def fragment_sets(case: Case):
    """unpacked / used-as-mixin fragment names, as the real ResultTypesGenerator reports them per operation
    (C08 owns that logic; here they are inputs of the package-level rule `exclude = unpacked - mixins`)"""
    from ariadne_codegen.client_generators.result_types import ResultTypesGenerator
    from ariadne_codegen.schema import add_mixin_directive_to_schema
    from graphql import build_schema

    schema = add_mixin_directive_to_schema(build_schema(case.sc.sdl))
    doc = parse(case.sc.queries)
    frs = {d.name.value: d for d in doc.definitions if isinstance(d, FragmentDefinitionNode)}
    kw = dict(schema=schema, enums_module_name="enums", fragments_definitions=frs,
              convert_to_snake_case=case.sc.config.get("convert_to_snake_case", True))
    for f in frs.values():
        ResultTypesGenerator(operation_definition=f, **kw)
    unpacked, mixins = set(), set()
    for d in doc.definitions:
        if isinstance(d, OperationDefinitionNode):
            g = ResultTypesGenerator(operation_definition=d, **kw)
            unpacked |= g.get_unpacked_fragments()
            mixins |= g.get_fragments_used_as_mixins()
    return sorted(unpacked), sorted(mixins)


def model_command(case: Case, target: str | None):
    """(generate cfg summary ops) for Model/Package.v; names contributed by the sub-generators are read from
    the generated modules when there are any (they are inputs of the layout model, not its predictions)"""
    cfg = case.sc.config
    bc = case.base_client()
    em, im, fm = (cfg.get("enums_module_name", "enums"), cfg.get("input_types_module_name", "input_types"),
                  cfg.get("fragments_module_name", "fragments"))
    c = [cfg.get("client_name", "Client"), cfg.get("client_file_name", "client"), em, im, fm,
         case.async_client, cfg.get("opentelemetry_client", False), case.custom_ops, case.include_names(),
         None if bc[3] else [Sym("some"), [bc[0], bc[1], bc[2]]]]

    def pub(mod):
        return class_names(os.path.join(target, mod + ".py")) if target else []

    try:
        unpacked, mixins = fragment_sets(case)
    except Exception:  # the generator's own crash classes (F2/F23...): no package either
        unpacked, mixins = [], []
    s = [[f.name.value for f in case.frags], unpacked, mixins, case.frag_dirs, pub(fm), pub(em), pub(im),
         case.schema.query_type is not None, case.schema.mutation_type is not None]
    ops = []
    for o, m, mx in zip(case.ops, case.modules, case.op_mixins):
        ops.append([Sym(o.operation.value), None if o.name is None else [Sym("some"), o.name.value], mx,
                    pub(m) if m else []])
    return [Sym("generate"), c, s, ops]


# ------------------------------------------------------------------------------------------------- the corpus
CORPUS_SDL = """
interface Node { id: ID! }
interface Animal implements Node { id: ID! name: String }
type Dog implements Node & Animal { id: ID! name: String bark: Int }
type Cat implements Node & Animal { id: ID! name: String }
enum Color { RED GREEN }
enum Unused { A B }
input Filter { color: Color q: String }
input UnusedIn { u: Unused }
type Query { animal(f: Filter): Animal node(id: ID!): Node dogs(c: Color): [Dog!]! s(x: String): String byUnused(u: UnusedIn, e: Unused): Int }
type Mutation { m(i: Filter!): Dog }
type Subscription { tick: Int }
"""
CUSTOM = {"enable_custom_operations": True}
from ..gen.frag_scen import SDL as FRAG_ZOO_SDL  # noqa: E402  (the zoo schema of the fragment-graph stream)
# minimised inputs of every finding class and of every documented refusal; run first, deterministically
CORPUS = [
    ("F2", "query Q($c: Boolean!) { animal { ... @include(if: $c) { name } } }", {}),
    ("fixed-F5-quote", 'query Q { s(x: "it\'s") }', {}),
    ("fixed-F5-block", 'query Q { s(x: """block\n  string""") }', {}),
    ("fixed-F7-self", "query Q($self: ID!) { node(id: $self) { id } }", {}),
    ("fixed-F7-kwargs", "query Q($kwargs: ID!) { node(id: $kwargs) { id } }", {}),
    ("fixed-F23", "query Q { animal { ... on Node { id } name } }", {}),
    ("F23-unrelated", "query Q { named { name ... on Node { id } } }", {},
     "interface Node { id: ID! } interface Named { name: String } type A implements Node & Named { id: ID! name: String } "
     "type Query { named: Named }"),
    ("fixed-F25", "query Q { animal { name } }", dict(CUSTOM, include_all_enums=False, include_all_inputs=False)),
    ("fixed-F28-refused-custom-fields", "query customFields { s }", CUSTOM),
    ("fixed-F28-refused-custom-queries", "query customQueries { s }", CUSTOM),
    ("fixed-F29-refused", "query GetX { s } query getX { animal { name } }", {}),
    ("fixed-F30", "query Q { s }", dict(CUSTOM, input_types_module_name="inputs")),
    ("refuse-anonymous", "{ s }", {}),
    ("refuse-subscription-sync", "subscription T { tick }", {"async_client": False}),
    ("refuse-duplicate-files", "query client { s }", {}),
    ("refuse-bad-mixin", 'query Q { animal @mixin(from: ".x") { name } }', {}),
    ("refuse-bad-mixin-fragment", 'query Q { s } fragment F on Dog @mixin(import: "X") { name }', {}),
    ("ok-subscription-async", "subscription T { tick }", {"async_client": True}),
    ("ok-custom-operations", "query Q { animal { name } }", CUSTOM),
    ("ok-op-named-like-unwritten-custom-file", "query customFields { s }", {}),
    ("ok-same-class-name-in-two-modules", "query Foo { animal { name } } query FooAnimal { s }", {}),
    # directed shapes of seeded changes that were once missed (must generate and load)
    ("ok-last-operation-only-enum", "query First { s } query Last($c: Color) { dogs(c: $c) { name } }",
     {"include_all_enums": False, "include_all_inputs": False}),
    ("ok-last-operation-only-input", "query First { s } query Last($u: UnusedIn) { byUnused(u: $u) }",
     {"include_all_enums": False, "include_all_inputs": False}),
    ("ok-conditional-typename-abstract", "query Q($t: Boolean!, $s: Boolean!) { animal { __typename @include(if: $t) "
     "... on Dog { bark } ... on Cat { name } } node(id: \"1\") { ... @skip(if: $s) { __typename } id ... on Dog { bark } } "
     "dogs { __typename @skip(if: $s) name } }", {}),
    ("ok-dependent-fragment-own-imports", "query UsesG { items { ...DepG } } query Unpacks($c: Boolean!) { item { name "
     "...DepF @include(if: $c) } } fragment DepG on Item { name ...DepF } fragment DepF on Item "
     "@mixin(from: \"mixins_impl\", import: \"MixinA\") { id sort at parent @mixin(from: \"mixins_impl\", import: \"MixinB\") { id } }",
     {"include_all_enums": False, "scalars": {"DateTime": {"type": "datetime.datetime"}}}, S.DEP_SDL, "mixins"),
    ("ok-one-character-sunder-enum-values", "query Q($g: Grade = _A_) { grade(g: $g) }", {},
     "enum Grade { _A_ _1_ _x_ OK } input GI { g: Grade = _A_ gs: [Grade!] = [_1_, OK] } type Query { grade(g: Grade = _1_, i: GI): Grade }"),
    ("F27", "query Mixed0($c: Boolean!) { dog { owner { ...zP @skip(if: $c) best { id ... on Cat { id } } } } } "
            "fragment zP on Person { best { kind ... on Dog { name } } }", {}, FRAG_ZOO_SDL),
    ("fixed-F34", "query Q { s }", CUSTOM, "type Query { class: ID! from(x: Int): Int s: String }"),
    ("fixed-F33", "fragment F0 on Person { age } fragment F1 on Person { boss { ...F0 } } "
            "fragment F3 on Person { boss { boss { ...F1 } } } query Q { people { ...F0 } }", {},
     "type Person { age: Int boss: Person } type Query { people: [Person] }"),
    # a three-level mixin chain with both ends spread side by side (bases must stay a consistent MRO)
    ("ok-fragment-chain-both-ends", "query Q { dogs { ...Basic ...Whole } } fragment Basic on Dog { id } "
     "fragment Named on Dog { ...Basic name } fragment Whole on Dog { ...Named bark }", {}),
    # enum values that are soft keywords / keywords, used as defaults at every depth of an input
    ("ok-keyword-enum-defaults", "query Q($o: OrderBy = type, $f: F) { sorted(o: $o, f: $f) }", CUSTOM,
     "enum OrderBy { type match case _ class None } input G { o: OrderBy = class } "
     "input F { o: OrderBy = type l: [OrderBy!] = [match, None] g: G = {o: case} gs: [G!] = [{o: _}] } "
     "type Query { sorted(o: OrderBy = match, f: F = {o: type}): Int }"),
    ("fixed-F31", "query Q { e }", {}, "enum E { OK mro _name_ } input I { e: E = mro } type Query { e(i: I): E }"),
]

# finding C04-F35: one minimised input per site
_U = "type Query { u: U } type U { id: ID name: String l: [Int] }"
CORPUS += [
    ("F35-input-Optional", "query Q($i: Optional) { f(i: $i) }", {}, "type Query { f(i: Optional): Int } input Optional { a: Int b: [Int] }"),
    ("F35-enum-List", "query Q($e: List) { f(e: $e) }", {}, "type Query { f(e: List): List } enum List { A B } input In { e: List l: [List] }"),
    ("F35-fragment-Optional", "query Q { u { ...Optional name } } fragment Optional on U { id l }", {}, _U),
    ("F35-operation-List", "query List { u { id l } }", {}, _U),
    ("ok-type-names-that-do-not-shadow", "query Dict($i: Field) { f(i: $i) }", {},
     "type Query { f(i: Field): Upload } enum Upload { A } input Field { a: Int e: Upload }"),
]
# every naming site (result field, input field, argument + variable, enum value and enum default) given ONE name that is
# a keyword / pydantic attribute on its own, behind a leading underscore (trimmed for class fields) or in front of a
# trailing one (the suffix the generator itself appends), with and without snake-casing: must generate and load
HAZARD_WORDS = ["class", "from", "None", "import", "copy", "model_dump", "json", "validate", "self", "async"]
for _w in HAZARD_WORDS:
    for _n in (_w, "_" + _w, _w + "_"):
        for _snake in (True, False):
            CORPUS.append((f"ok-hazard-name-{_n}-{'snake' if _snake else 'plain'}",
                           f"query Q(${_n}: Int, $i: In) {{ t({_n}: ${_n}, i: $i) {{ {_n} e }} }}",
                           {"convert_to_snake_case": _snake},
                           f"enum E {{ A {_n} }} input In {{ {_n}: Int q: E = {_n} }} type T {{ {_n}: Int e: E }} "
                           f"type Query {{ t({_n}: Int, i: In): T }}"))


def corpus_cases() -> list:
    from ..gen.frag_scen import MIXINS_PY as S_MIXINS

    out = []
    for i, entry in enumerate(CORPUS):
        name, q, cfg = entry[:3]
        sc = scenario.Scenario(seed=-1 - i, sdl=entry[3] if len(entry) > 3 else CORPUS_SDL, queries=q + "\n",
                               config=dict(cfg), features=("corpus",),
                               files=({"mixins_impl.py": S_MIXINS} if len(entry) > 4 else {}),
                               notes={"corpus": name, "pinned": sorted(cfg)})
        out.append(Case0(sc, "corpus"))
    return out


# ------------------------------------------------------------------------------------------------ the streams
def _make_base(args):
    sd, feats, depth = args
    try:
        return scenario.make(sd, feats, depth=depth)
    except RuntimeError:
        return None


def build_cases(ctx) -> list:
    T = ctx.thorough
    base = ctx.seed * 100000
    rng = random.Random(f"c04-{ctx.seed}")
    counts = {
        "main": 90 if not T else 700, "weird_names": 12 if not T else 80, "untyped_inline": 6 if not T else 30,
        "foreign_cond": 6 if not T else 30, "subscriptions": 14 if not T else 80, "anonymous": 6 if not T else 30,
        "colliding_ops": 8 if not T else 40, "bad_mixin": 12 if not T else 60, "good_mixin": 10 if not T else 60,
        "quote_literal": 4 if not T else 20, "escaped_literal": 8 if not T else 40, "self_variable": 4 if not T else 20,
        "local_name_variables": 6 if not T else 30, "dup_files": 10 if not T else 50,
        "unchecked_files": 6 if not T else 24, "custom_only": 4 if not T else 16, "custom_base": 4 if not T else 16,
        "frag_graphs": 24 if not T else 160, "references": 16 if not T else 100, "enum_reserved": 8 if not T else 40,
        "exclusive_types": 16 if not T else 100, "conditional_typename": 10 if not T else 60,
        "dependent_fragments": 12 if not T else 60,
    }
    cases = []
    depth = 3 if not T else 4

    cache = {}

    def prefetch(first, n, feats):
        """base scenarios are pure functions of (seed, features, depth): compute the next n in worker processes"""
        from concurrent.futures import ProcessPoolExecutor

        todo = [(base + i, feats, depth) for i in range(first, first + n) if (i, feats) not in cache]
        if len(todo) < 4:
            return
        with ProcessPoolExecutor(max_workers=min(14, len(todo))) as ex:
            for (sd, ft, _d), sc in zip(todo, ex.map(_make_base, todo, chunksize=2)):
                cache[(sd - base, ft)] = sc

    def base_scenario(i, feats=()):
        if (i, feats) in cache:
            sc = cache.pop((i, feats))
        else:
            sc = _make_base((base + i, feats, depth))
        if sc is None:
            ctx.run.dist("scenarios", "generator-gave-up")
        return sc

    k = 0
    for stream, n in counts.items():
        made = 0
        tries = 0
        if stream not in ("frag_graphs", "references", "enum_reserved", "dependent_fragments"):
            prefetch(k + 1, n + 3, (stream,) if stream in ("weird_names", "untyped_inline", "foreign_cond") else ())
        while made < n and tries < 4 * n + 8:
            tries += 1
            k += 1
            if stream in ("frag_graphs", "references", "enum_reserved", "dependent_fragments"):
                sc = (S.frag_graphs(base + k, rng) if stream == "frag_graphs"
                      else S.dependent_fragments(base + k, rng) if stream == "dependent_fragments"
                      else S.references(base + k, rng, reserved=(stream == "enum_reserved")))
                if sc is not None:
                    cases.append((sc, stream))
                    made += 1
                continue
            feats = (stream,) if stream in ("weird_names", "untyped_inline", "foreign_cond") else ()
            sc = base_scenario(k, feats)
            if sc is None:
                continue
            if stream in ("subscriptions", "anonymous", "colliding_ops", "bad_mixin", "good_mixin", "quote_literal",
                          "escaped_literal", "self_variable", "local_name_variables", "dup_files", "unchecked_files",
                          "exclusive_types", "conditional_typename"):
                sc = getattr(S, stream)(sc, rng)
                if sc is None:
                    continue
            elif stream == "custom_only":
                sc = scenario.Scenario(seed=sc.seed, sdl=sc.sdl, queries=None, config=dict(sc.config),
                                       features=("custom_only",), files=dict(sc.files),
                                       notes={"pinned": ["enable_custom_operations"]})
                sc.config["enable_custom_operations"] = True
            elif stream == "custom_base":
                sc = custom_base(sc, rng)
            if stream == "subscriptions":
                # both clients for the same scenario: async must generate, sync must be refused
                for a in (True, False):
                    s2 = scenario.Scenario(seed=sc.seed, sdl=sc.sdl, queries=sc.queries, config=dict(sc.config, async_client=a),
                                           features=sc.features, files=sc.files,
                                           notes=dict(sc.notes, pinned=sorted(set(sc.notes.get("pinned", [])) | {"async_client"})))
                    cases.append((s2, stream))
                made += 2
                continue
            cases.append((sc, stream))
            made += 1
    # every written file x every source of file names (deterministic enumeration; the base client variant and the
    # control group depend on the seed; thorough: several variants)
    for v in range(1 if not T else 4):
        for sc in S.name_collisions(random.Random(f"c04-coll-{ctx.seed}-{v}"), controls=16 if not T else 40):
            cases.append((sc, "name_collisions"))
    out = []
    for i, (sc, stream) in enumerate(cases):
        # the first main cases take the all-defaults point, every other case a random point of the option product
        opts = S.sample_options(rng, default_bias=1.0 if ((stream == "main" and i < 6) or stream == "name_collisions") else 0.55)
        sc2 = S.apply_options(sc, opts) if sc.queries is not None else apply_custom_only(sc, opts)
        out.append(Case0(sc2, stream))
    return out


def apply_custom_only(sc, opts):
    q = sc.queries
    sc.queries = "query Placeholder { __typename }\n"
    s2 = S.apply_options(sc, opts)
    s2.queries = None
    sc.queries = q
    return s2


def custom_base(sc, rng):
    """base_client_file_path / base_client_name given: a renamed copy of a bundled base client"""
    import ariadne_codegen.client_generators.dependencies as deps

    a = sc.config.get("async_client", True)
    src = os.path.join(os.path.dirname(deps.__file__), "async_base_client.py" if a else "base_client.py")
    text = open(src).read().replace("class AsyncBaseClient" if a else "class BaseClient", "class MyBase")
    text = text.replace("from .exceptions import", "from ariadne_codegen.client_generators.dependencies.exceptions import")
    text = text.replace("from .base_model import", "from ariadne_codegen.client_generators.dependencies.base_model import")
    files = dict(sc.files)
    files["extra/my_base.py"] = text
    cfg = dict(sc.config, base_client_file_path="extra/my_base.py", base_client_name="MyBase", async_client=a)
    return scenario.Scenario(seed=sc.seed, sdl=sc.sdl, queries=sc.queries, config=cfg, features=("custom_base",),
                             files=files, notes={"pinned": ["base_client_file_path", "base_client_name", "async_client",
                                                            "opentelemetry_client"]})


class Case0(Case):
    def __init__(self, sc, stream):
        if sc.queries is None:
            q = sc.queries
            sc.queries = "fragment Placeholder__ on Query { __typename }"
            try:
                super().__init__(sc, stream)
            finally:
                sc.queries = q
            self.frags = []
            self.frag_dirs = []
        else:
            super().__init__(sc, stream)


# ---------------------------------------------------------------------------------------------- running cases
# references that importing a module does not evaluate: default factories of model fields (list / object defaults
# live inside lambdas), enum members for every value of the schema (a member can be swallowed by Enum's own
# machinery without an error), the client class constructor
DEEP_PROBE = '''
import enum
bad = []
for mn, m in mods.items():
    for name, obj in list(vars(m).items()):
        if isinstance(obj, type) and hasattr(obj, "model_fields") and obj.__module__ == m.__name__:
            for fn, f in obj.model_fields.items():
                if f.default_factory is not None:
                    try:
                        f.default_factory()
                    except Exception as e:
                        bad.append(f"default of {mn}.{name}.{fn}: {type(e).__name__}: {str(e)[:160]}")
        if isinstance(obj, type) and issubclass(obj, enum.Enum) and obj.__module__ == m.__name__ and name in ENUMS:
            for v in ENUMS[name]:
                try:
                    obj(v)
                except Exception as e:
                    bad.append(f"enum {mn}.{name} has no member for value {v!r}: {type(e).__name__}")
cls = STATE.get("client_cls")
if cls is not None:
    try:
        cls(url="http://test.local/graphql")
    except Exception as e:
        bad.append(f"client constructor: {type(e).__name__}: {str(e)[:160]}")
result = bad
'''


def execute(cases, scratch, jobs=14):
    """generate every case with the real generator, load what was generated in fresh interpreters"""
    from graphql import GraphQLEnumType

    gens = scen.generate([c.sc for c in cases], scratch, jobs=jobs)

    def load(cg):
        c, g = cg
        if not g.ok:
            return None
        ld = g.start()
        try:
            if ld.get("ok"):
                enums = {n: list(t.values) for n, t in c.schema.type_map.items()
                         if isinstance(t, GraphQLEnumType) and not n.startswith("__")}
                r = g.driver.ask({"cmd": "eval", "code": f"ENUMS = {enums!r}\n" + DEEP_PROBE})
                ld["deep"] = r.get("value") if "exc" not in r else [f"probe failed: {r['exc']}"]
        finally:
            g.stop()
        return ld

    loads = scen.parallel(list(zip(cases, gens)), load, jobs=jobs)
    return gens, loads


def judge(case: Case, g, ld) -> dict:
    """K3 verdict on one executed case: list of problems [(kind, detail)] + observations"""
    v = {"problems": [], "refusal": None, "generated": g.ok}
    if not g.ok:
        exc = g.res.get("exc") or ["?", "?"]
        r = refusal_of(exc)
        v["refusal"] = r
        v["exc"] = exc
        if r is None:
            v["problems"].append(("generation-crash", f"{exc[0]}: {exc[1][:300]}"))
        elif r not in case.conditions:
            v["problems"].append(("refused-without-condition", f"{r}: {exc[1][:200]} (conditions present: {sorted(case.conditions)})"))
        return v
    target = g.res["target"]
    files = listing(target)
    v["listing"] = files
    reported = g.res.get("files")
    v["reported"] = reported
    if reported is None or reported != sorted(files):
        v["problems"].append(("reported-files", f"reported {reported} vs directory {files}"))
    ini = read_init(target)
    v["init"] = ini
    if ini["error"]:
        v["problems"].append(("init-unreadable", ini["error"]))
    if not ld or not ld.get("ok"):
        bad = {k: x for k, x in ((ld or {}).get("modules") or {}).items() if x != "ok"}
        v["problems"].append(("import-failed", str(bad or ld)[:600]))
        return v
    if ld.get("incomplete"):
        v["problems"].append(("incomplete-models", str(ld["incomplete"][:8])))
    if ld.get("deep"):
        v["problems"].append(("unresolved-reference", "; ".join(ld["deep"][:6])))
    py_mods = sorted(f[:-3] for f in files if f.endswith(".py") and f != "__init__.py" and "/" not in f)
    if sorted(ld["modules"]) != py_mods:
        v["problems"].append(("modules-listed", f"imported {sorted(ld['modules'])} vs files {py_mods}"))
    imported = [n for ns in ini["imports"].values() for n in ns]
    if ini["all"] is None or set(ini["all"]) != set(imported) or set(ld.get("all", [])) != set(imported):
        v["problems"].append(("all-vs-imports", f"__all__ {ini['all']} vs imported {sorted(imported)}"))
    if ld.get("all_missing"):
        v["problems"].append(("all-not-attributes", str(ld["all_missing"])))
    if ini["all"] is not None and len(ini["all"]) != len(set(ini["all"])):
        v["dup_all"] = sorted({n for n in ini["all"] if ini["all"].count(n) > 1})
    want = {m for m in case.modules if m}
    have = set(ld.get("methods", {}))
    if not want <= have or len(want) != len([m for m in case.modules if m]):
        v["problems"].append(("operation-without-own-method", f"operations {case.modules} vs methods {sorted(have)}"))
    return v


# names the generated modules import and then subscript (typing) or extend (base classes): a generated class of that
# name shadows the import
SHADOWING_NAMES = {"Optional", "List", "Union", "Any", "Annotated", "Literal", "BaseModel", "AsyncBaseClient", "BaseClient"}
SYMPTOMS = {
    "C04-F35-class-named-like-import": lambda k, d: k == "import-failed" and (
        "cannot be parametrized" in d or "cannot extend" in d or "KeyError" in d or "not subscriptable" in d),
    "C04-F23-unrelated-abstract-type-condition": lambda k, d: k == "generation-crash" and "ParsingError" in d and "not found in type" in d,
    "C04-F32-plugin-written-module": lambda k, d: (k == "reported-files" and "operations.py" in d)
                                     or (k == "import-failed" and ".operations'" in d) or (k == "modules-listed" and "operations" in d),
    "C04-F27-repeated-composite-field": lambda k, d: k == "import-failed" and "mapped to multiple choices" in d,
    "C04-F18-underscore-digit-name": lambda k, d: (k == "generation-crash" and "InvalidInput" in d) or (k == "import-failed" and "SyntaxError" in d),
}


def attribute(case: Case, kind: str, detail: str) -> str | None:
    """finding class of a problem: the input is in the class AND the symptom is the class's symptom"""
    cl = case.classes()
    for name, sym in SYMPTOMS.items():
        if name in cl and sym(kind, detail):
            return name
    return None


def run(ctx):
    run = ctx.run
    run.rule = ("seeded (schema, operations) scenarios of 17 streams (main + weird names + untyped inline fragments + "
                "abstract type conditions + subscriptions x {async,sync} + anonymous + colliding operation names + "
                "malformed/valid @mixin + quotes/escapes in literals + variables named like method locals + colliding "
                "file names + custom operations only + custom base client), each at a sampled point of the product of "
                "14 documented options, through the REAL generator and a fresh-interpreter import; "
                "non-trivial = distinct (scenario seed, stream, configuration point)")
    run.assumptions += [
        "CPython 3.12 import system and pydantic 2.13 model completion are the judges of 'loads' (K3, not proved)",
        "black/isort/autoflake/ast.unparse are inside the K1/K3 comparison, not modelled",
        "names contributed by the enum/input/fragment/result generators are inputs of the layout model "
        "(read from the generated modules); their correctness is C01/C08/C09's business",
    ]
    import time

    t = [time.time()]
    phases = {}

    def lap(name):
        t.append(time.time())
        phases[name] = round(t[-1] - t[-2], 1)

    k2(ctx)
    lap("k2")
    cases = corpus_cases() + build_cases(ctx)
    lap("build_cases")
    with workers.Scratch(prefix="vh-c04-") as scratch:
        gens, loads = execute(cases, scratch)
        lap("generate+load")
        cmds = scen.parallel(list(zip(cases, gens)), lambda cg: model_command(cg[0], cg[1].res.get("target") if cg[1].ok else None), jobs=8)
        mres = model.batch("C04", cmds)
        rb = [(i, x) for i, (c, g) in enumerate(zip(cases, gens)) if g.ok and not c.sc.config.get("plugins")
              for x in rebuild_commands(c, g.res["target"])]
        rres = model.batch("C04", [x[3] for _i, x in rb])
        rebuild_diffs = {}
        for (i, (mod, is_frag, calls, _cmd)), r in zip(rb, rres):
            want = r[1] if is_frag else r[0]
            run.dist("k1_rebuild_modules", "fragments" if is_frag else "operation")
            if model.is_error(r) or list(want) != calls:
                rebuild_diffs.setdefault(i, []).append(f"{mod}.py: model_rebuild() calls {calls}, model {want}")
        lap("model")
        verdicts = [judge(c, g, ld) for c, g, ld in zip(cases, gens, loads)]
        to_shrink = []
        seen_classes = set()
        for i, (c, g, ld, m, v) in enumerate(zip(cases, gens, loads, mres, verdicts)):
            v["rebuild_diffs"] = rebuild_diffs.get(i, [])
            account(ctx, c, g, ld, m, v, to_shrink, seen_classes)
        lap("judge+account")
        search(ctx, to_shrink, scratch)
        lap("search")
    run.extra["phase_s"] = phases
    run.extra["cases"] = len(cases)


# --------------------------------------------------------------------------------------------------------- K2
def k2(ctx):
    run = ctx.run
    from ariadne_codegen.client_generators import constants as K

    ex, bm, bases, files = model.call("C04", [Sym("consts")])
    if ex != list(K.GRAPHQL_CLIENT_EXCEPTIONS_NAMES):
        run.broken("K2 exception names", f"model {ex} vs constants {K.GRAPHQL_CLIENT_EXCEPTIONS_NAMES}")
    if bm != [K.BASE_MODEL_CLASS_NAME, K.UPLOAD_CLASS_NAME]:
        run.broken("K2 base model names", str(bm))
    real = [[p.name, p.stem, n] for p, n in (
        (K.DEFAULT_ASYNC_BASE_CLIENT_PATH, K.DEFAULT_ASYNC_BASE_CLIENT_NAME),
        (K.DEFAULT_ASYNC_BASE_CLIENT_OPEN_TELEMETRY_PATH, K.DEFAULT_ASYNC_BASE_CLIENT_OPEN_TELEMETRY_NAME),
        (K.DEFAULT_BASE_CLIENT_PATH, K.DEFAULT_BASE_CLIENT_NAME),
        (K.DEFAULT_BASE_CLIENT_OPEN_TELEMETRY_PATH, K.DEFAULT_BASE_CLIENT_OPEN_TELEMETRY_NAME))]
    if bases != real:
        run.broken("K2 bundled base clients", f"model {bases} vs constants {real}")
    want = [K.EXCEPTIONS_FILE_PATH.name, K.BASE_MODEL_FILE_PATH.name, K.BASE_OPERATION_FILE_PATH.name, "__init__.py"] + CUSTOM_FILES
    if files != want:
        run.broken("K2 bundled file names", f"model {files} vs {want}")
    # data derived from the SOURCE text on every run (fails closed when the derivation no longer applies)
    import inspect
    import ariadne_codegen.client_generators.client as _client
    import ariadne_codegen.client_generators.package as _package
    import ariadne_codegen.client_generators.result_types as _result_types

    src = inspect.getsource(_package)
    literal_files = set(re.findall(r'self\.package_path / "([A-Za-z_]+\.py)"', src))
    model_unlisted = set(files[3:])          # __init__.py + the four custom operation modules
    if literal_files != model_unlisted:
        run.broken("K2 file names written by literal path in package.py",
                   f"source {sorted(literal_files)} vs model {sorted(model_unlisted)}")
    check_body = src[src.index("def _validate_unique_file_names"):]
    check_body = check_body[: check_body.index("\n    def ", 10)]
    for needle in ("client_file_name", "base_client_file_path.name", "base_model_file_path.name", "enums_module_name",
                   "input_types_module_name", "fragments_module_name", "_result_types_files", "files_to_include",
                   '"__init__.py"', "custom_help_field_module_name", '"custom_fields.py"', '"custom_queries.py"',
                   '"custom_mutations.py"'):
        if needle not in check_body:
            run.broken("K2 names checked by _validate_unique_file_names", f"{needle} no longer mentioned in the check")
    texts = {"anonymous": _package, "duplicate-files": _package, "subscription-sync": _client, "bad-mixin-args": _result_types}
    for r, mod in texts.items():
        msrc = inspect.getsource(mod)
        if not any(t in msrc for t in REFUSAL_TEXT[r][1]) and not (r == "bad-mixin-args" and "Required arguments" in msrc):
            run.broken("K2 refusal message", f"the message of refusal {r} {REFUSAL_TEXT[r][1]} is not in {mod.__name__}")
    run.dist("k2", "source-derived tables", 3)
    rng = random.Random(ctx.seed + 4)
    pool = "abAB01_Zz"
    lists = [["".join(rng.choice(pool) for _ in range(rng.randint(0, 5))) for _ in range(rng.randint(0, 9))]
             for _ in range(400 if not ctx.thorough else 4000)]
    res = model.batch("C04", [[Sym("sort"), l] for l in lists] + [[Sym("hasdup"), l] for l in lists])
    for l, r in zip(lists, res[: len(lists)]):
        run.count()
        if r != sorted(l):
            run.violation(f"K2 sort: model {r} vs sorted() {sorted(l)}", {"list": l}, found_input=False)
            break
    for l, r in zip(lists, res[len(lists):]):
        if (r == "t") != (len(l) != len(set(l))):
            run.violation(f"K2 has_dup on {l}: model {r}", {"list": l}, found_input=False)
            break
    run.dist("k2", "sort+has_dup lists", len(lists))


# ------------------------------------------------------------------------------------------------- accounting
def account(ctx, c: Case, g, ld, m, v, to_shrink, seen_classes):
    run = ctx.run
    run.count()
    opts = c.sc.notes.get("options", {})
    run.nontrivial_case((c.sc.seed, c.stream, tuple(sorted((k, str(x)) for k, x in c.sc.config.items()))))
    run.dist("stream", c.stream)
    for k, x in opts.items():
        run.dist("option:" + k, str(x))
    run.dist("operations_per_case", str(len(c.ops)))
    run.dist("fragments_per_case", str(min(len(c.frags), 6)) + ("+" if len(c.frags) >= 6 else ""))
    for cond in sorted(c.conditions) or ["none"]:
        run.dist("refusal_condition_present", cond)
    outcome = "generated+loaded" if (g.ok and ld and ld.get("ok")) else ("generated" if g.ok else "refused:" + str(v["refusal"]))
    run.dist("outcome", outcome)
    classes = c.classes()
    for cl in classes:
        run.dist("finding_class_inputs", cl)
    if g.ok:
        run.dist("modules_per_package", str(10 * (len(v.get("listing", [])) // 10)) + "s")
        if v.get("dup_all"):
            run.dist("observations", "__all__ lists a name twice")
    rep = lambda **kw: c.replay(verdict={k: x for k, x in v.items() if k in ("problems", "refusal", "exc", "reported", "listing")},
                                model=m, load={k: x for k, x in (ld or {}).items() if k in ("ok", "modules", "incomplete", "all", "all_missing")},
                                tb=g.res.get("tb"), **kw)
    # ---- K3 ----
    problems = list(v["problems"])
    # ---- K1 ----
    # the layout model has no plugins: cases with a plugin that writes its own module are K3 only
    k1 = k1_compare(c, g, ld, m, v) if not c.sc.config.get("plugins") else []
    k1 += [("k1-rebuilds", d) for d in v.get("rebuild_diffs", [])]
    if c.sc.config.get("plugins"):
        run.dist("k1", "skipped:plugin-case")
    if c.stream == "name_collisions":
        run.dist("collision_pairs", f"{c.sc.notes['group']}:{c.sc.notes['source']}", 1)
        run.dist("collision_targets", f"{c.sc.notes['group']}:{c.sc.notes['target']}", 1)
    for p in k1:
        run.dist("k1", p[0])
    if not k1 and not c.sc.config.get("plugins"):
        run.dist("k1", "agree")
    handled_by_class = set()
    for kind, detail in problems:
        cls = attribute(c, kind, detail)
        what = f"[{c.stream}] {kind}: {detail[:400]}"
        if cls:
            handled_by_class.add(cls)
            run.finding(cls, what, rep())
            run.dist("findings", cls)
            fd = run.extra.setdefault("finding_examples", {}).setdefault(cls, [])
            if len(fd) < 3:
                fd.append(what[:300])
            if cls not in seen_classes and cls in run.open_classes:
                seen_classes.add(cls)
                to_shrink.append((c, kind, detail, cls))
        else:
            run.violation(what, rep())
            to_shrink.append((c, kind, detail, None))
    for kind, detail in k1:
        # a model/code disagreement on an input whose K3 failure is a known finding is that finding again
        if handled_by_class and kind in ("k1-refusal", "k1-files", "k1-reported", "k1-methods"):
            continue
        run.violation(f"[{c.stream}] K1 {kind}: {detail[:500]}", rep(), found_input=bool(problems))
    if len(run.samples) < 6 and c.stream in ("main", "subscriptions", "bad_mixin", "dup_files", "unchecked_files", "colliding_ops"):
        if not any(s.get("stream") == c.stream for s in run.samples):
            run.sample({"stream": c.stream, "config": c.sc.config, "operations": [o.name.value if o.name else None for o in c.ops],
                        "outcome": outcome, "model": m[0] if isinstance(m, list) else m,
                        "files": v.get("reported")})


def k1_compare(c: Case, g, ld, m, v) -> list:
    out = []
    if model.is_error(m):
        return [("k1-model-error", str(m))]
    if m[0] == "refused":
        if g.ok:
            out.append(("k1-refusal", f"model refuses ({m[1]}), generator produced a package"))
        elif v["refusal"] != m[1]:
            out.append(("k1-refusal", f"model refuses with {m[1]}, generator raised {v.get('exc')}"))
        return out
    _ok, written, reported, imports, all_, methods = m
    if not g.ok:
        out.append(("k1-refusal", f"model generates, generator raised {v.get('exc')}"))
        return out
    if sorted(set(written)) != v["listing"]:
        out.append(("k1-files", f"model writes {sorted(set(written))}, directory has {v['listing']}"))
    if reported != v["reported"]:
        out.append(("k1-reported", f"model reports {reported}, generator reported {v['reported']}"))
    ini = v["init"]
    mi = {}
    for mod, names in imports:
        mi.setdefault(mod, []).extend(names)
    if {k: sorted(x) for k, x in mi.items()} != {k: sorted(x) for k, x in ini["imports"].items()}:
        out.append(("k1-init-imports", f"model {mi} vs __init__ {ini['imports']}"))
    if all_ != ini["all"]:
        out.append(("k1-all", f"model {all_} vs __all__ {ini['all']}"))
    extra = {"execute_custom_operation", "query", "mutation", "get_data", "execute", "execute_ws"}
    real_methods = [x for x in (ld or {}).get("methods", {}) if x not in extra]
    if ld and ld.get("ok") and real_methods != methods:
        out.append(("k1-methods", f"model {methods} vs client class {real_methods}"))
    if ini["other"]:
        out.append(("k1-init-other", f"{ini['other']} statements in __init__ besides from-imports and __all__"))
    return out


# ------------------------------------------------------------------------------------------------------ search
def search(ctx, to_shrink, scratch):
    if not to_shrink:
        return
    from . import c04_shrink

    # quick: only failures outside the known classes are minimised (the known classes carry hand-checked minimal
    # examples in known_findings/C04.json); thorough: one instance of every reproduced class as well
    if not ctx.thorough:
        to_shrink = [t for t in to_shrink if t[3] is None]
    budget = 3 if not ctx.thorough else 14
    mins = ctx.run.extra.setdefault("minimised", [])
    for c, kind, detail, cls in to_shrink[:budget]:
        try:
            small, steps = c04_shrink.shrink(c, kind, detail, scratch, rounds=12 if not ctx.thorough else 40)
        except Exception as exc:  # the search is best effort; the unshrunk case is already the replay
            mins.append({"class": cls, "error": f"{type(exc).__name__}: {exc}"})
            continue
        entry = {"class": cls or "VIOLATION", "symptom": kind, "detail": detail[:200], "tests": steps,
                 "schema": small.sc.sdl, "queries": small.sc.queries, "config": small.sc.config}
        mins.append(entry)
        if cls is None:
            for vio in ctx.run.violations:
                if vio["replay"].get("seed") == c.sc.seed and vio["replay"].get("stream") == c.stream and "minimised" not in vio["replay"]:
                    vio["replay"]["minimised"] = entry
