"""Shared K3 oracle for C01 (accept + preserve conformant responses) and C05 (reject contradicting payloads).

Drives the REAL generated client: the query text it sends is executed by graphql-core with plan-scripted
resolvers (the reference executor), the response is validated by the generated result model, and
observations / corruptions are evaluated in the driver process (vh/impl/client_driver.py).
"""
from __future__ import annotations

import json

from graphql import (FieldNode, FragmentDefinitionNode, FragmentSpreadNode, InlineFragmentNode,
                     get_named_type, is_composite_type)

from ..gen import scenario
from ..impl import scen, workers

PLANS = [
    {"k": 0, "null": 0.0, "lens": [1], "seed": 0},
    {"k": 1, "null": 0.35, "lens": [0, 2], "seed": 1},
    {"k": 2, "null": 0.1, "lens": [2, 1, 3], "seed": 2},
    {"k": 3, "null": 1.0, "lens": [0], "seed": 3},
    {"k": 4, "null": 0.0, "lens": [2], "seed": 4, "mix": False},
    {"k": 5, "null": 0.2, "lens": [1, 0], "seed": 5, "mix": False},
]


def merge_paths(doc):
    """Paths (tuples of response keys) at which GraphQL field merging of a COMPOSITE field is needed:
    the key is selected more than once in one scope (directly and/or through fragments).  The generator
    does not merge sub-selections (finding F27)."""
    frags = {d.name.value: d for d in doc.definitions if isinstance(d, FragmentDefinitionNode)}
    out = set()

    def collect(selsets, acc, seen):
        for ss in selsets:
            for s in ss.selections:
                if isinstance(s, FieldNode):
                    acc.setdefault(s.alias.value if s.alias else s.name.value, []).append(s)
                elif isinstance(s, InlineFragmentNode):
                    collect([s.selection_set], acc, seen)
                elif isinstance(s, FragmentSpreadNode) and s.name.value not in seen:
                    collect([frags[s.name.value].selection_set], acc, seen | {s.name.value})

    def walk(selsets, path, depth=0):
        if depth > 12:
            return
        acc = {}
        collect(selsets, acc, frozenset())
        for key, nodes in acc.items():
            subs = [n.selection_set for n in nodes if n.selection_set]
            if not subs:
                continue
            if len(subs) > 1:
                out.add(path + (key,))
            walk(subs, path + (key,), depth + 1)

    for d in doc.definitions:
        walk([d.selection_set], (d.name.value if d.name else "",))
    return out


def keys_only(path):
    return tuple(p for p in path if not isinstance(p, int))


def in_merge_class(mp, opname, path):
    kp = (opname,) + keys_only(path)
    return any(kp[: n + 1] in mp for n in range(len(kp)))


def classify_features(sc):
    return sc.features


def run_results(ctx, want: str):
    """want = 'C01' or 'C05'."""
    run = ctx.run
    n_main = 36 if not ctx.thorough else 220
    n_exotic = 8 if not ctx.thorough else 40
    base = ctx.seed * 100000
    plans = PLANS if want == "C01" else PLANS[:2]
    if ctx.thorough:
        plans = plans + [dict(p, seed=p["seed"] + 10, k=p["k"] + 1) for p in plans]
    # conditional fragments are ordinary scenarios since the F3 repair (same seeds as the former stream)
    streams = [((), n_main), (("cond_fragment",), n_exotic)]
    if want == "C01":
        streams += [(("foreign_cond",), n_exotic)]
    from .k1_results import corpus_scenarios
    scs = corpus_scenarios()
    for si, (feats, n) in enumerate(streams):
        for i in range(n):
            try:
                scs.append(scenario.make(base + 10000 * si + i, feats, depth=3 if not ctx.thorough else 4))
            except RuntimeError:
                run.dist("scenarios", "generator-gave-up")
    import random
    totals = {"calls": 0, "accepted_ok": 0, "corruptions": 0, "ops": 0}
    with workers.Scratch() as sc:
        gens = scen.generate(scs, sc)

        def one(g):
            out = []
            rng = random.Random(g.sc.seed)
            if not g.ok:
                return [("genfail", g, None, None, None)]
            ld = g.start()
            if not ld.get("ok"):
                g.stop()
                return [("loadfail", g, ld, None, None)]
            try:
                for op in g.operations():
                    if op.operation.value == "subscription":
                        continue
                    m = scen.method_name(op.name.value)
                    for pi, plan in enumerate(plans):
                        vals, enc = g.encoded_args(op, rng, mode="rand")
                        r = g.call(method=m, args=enc, plan=plan, observe=(want == "C01"),
                                   corrupt=(want == "C05"), corrupt_limit=80 if not ctx.thorough else 400,
                                   seed=g.sc.seed)
                        out.append(("call", g, op, plan, r))
            finally:
                g.stop()
            return out

        results = scen.parallel(gens, one, jobs=12)
    k2_spec_vs_pydantic(run, results)
    mp_cache = {}
    for rows in results:
        for kind, g, op, plan, r in rows:
            feats = "+".join(g.sc.features) or "main"
            run.dist("scenarios", feats, 0)
            if kind == "genfail":
                # C04's business (valid input must generate); reported there. Count only.
                run.dist("skipped", "generation-failed:" + feats)
                continue
            if kind == "loadfail":
                run.dist("skipped", "import-failed:" + feats)
                continue
            run.count()
            totals["calls"] += 1
            opname = op.name.value
            mp = mp_cache.setdefault(id(g), merge_paths(g.doc))
            rep = {"seed": g.sc.seed, "features": list(g.sc.features), "schema": g.sc.sdl, "queries": g.sc.queries,
                   "config": g.res.get("config"), "operation": opname, "plan": plan,
                   "request": r.get("request"), "response": r.get("data")}
            if r.get("exc") and r["exc"][0].startswith("args:"):
                run.dist("skipped", "argument-construction-failed")  # C03/C06's business
                continue
            if r.get("exec_errors"):
                run.dist("skipped", "executor-error")
                continue
            if want == "C01":
                check_c01(run, g, opname, mp, r, rep)
            else:
                check_c05(run, g, opname, mp, r, rep)
    run.extra["totals"] = totals
    return totals


def nested_subtype_spread(g):
    """F30: a named fragment on an ABSTRACT type contains (at its top level, possibly through further
    spreads) a spread of a fragment on a different type that is a sub type of it.  At an abstract position
    such nested spreads are neither unpacked into the base class nor turned into a variant class."""
    cached = getattr(g, "_f30", None)
    if cached is not None:
        return cached
    from graphql import GraphQLInterfaceType, GraphQLUnionType
    S = g.schema
    frags = {d.name.value: d for d in g.doc.definitions if isinstance(d, FragmentDefinitionNode)}
    out = False
    for f in frags.values():
        t = S.type_map.get(f.type_condition.name.value)
        if not isinstance(t, (GraphQLInterfaceType, GraphQLUnionType)):
            continue
        seen, todo = set(), [f]
        while todo and not out:
            cur = todo.pop()
            for sel in cur.selection_set.selections:
                if isinstance(sel, FragmentSpreadNode) and sel.name.value not in seen:
                    seen.add(sel.name.value)
                    sub = frags[sel.name.value]
                    st = S.type_map.get(sub.type_condition.name.value)
                    if st is not t and st is not None and S.is_sub_type(t, st):
                        out = True
                    elif st is t:
                        todo.append(sub)
    g._f30 = out
    return out


def conditional_typename(g):
    cached = getattr(g, "_f31", None)
    if cached is None:
        import re
        cached = bool(re.search(r"__typename\s*@(skip|include)", g.sc.queries))
        g._f31 = cached
    return cached


def finding_class(g, mp, opname, path):
    if path and path[-1] == "__typename" and conditional_typename(g):
        return "F31-conditional-typename"
    if in_merge_class(mp, opname, path or []):
        return "F27-unmerged-composite-field"
    if nested_subtype_spread(g):
        return "F30-subtype-spread-inside-abstract-fragment"
    if "corpus" in g.sc.features:
        return None
    if "foreign_cond" in g.sc.features:
        return "F4-unrecognised-type-condition"
    return None


def path_from_validation_error(msg: str):
    """first location line of a pydantic ValidationError message -> list of keys"""
    lines = msg.splitlines()
    if len(lines) >= 2:
        loc = lines[1].strip()
        out = []
        for p in loc.split("."):
            if p.isdigit():
                out.append(int(p))
            elif p == "__typename" or not (p[:1].isupper() and p not in ("URLValue",)):
                out.append(p)
            else:
                out.append(p)
        return out
    return []


def check_c01(run, g, opname, mp, r, rep):
    data = r.get("data")
    nontrivial = json.dumps(data, sort_keys=True)
    run.nontrivial_case(hash((g.sc.seed, opname, nontrivial)))
    if r.get("exc"):
        path = path_from_validation_error(r["exc"][1]) if r["exc"][0] == "ValidationError" else []
        # union tags appear in pydantic locations; match on keys that are response keys only
        cls = finding_class(g, mp, opname, path) or finding_class_any(g, mp, opname)
        what = f"conformant response rejected: {r['exc'][0]}: {r['exc'][1][:300]}"
        rep["observed"] = r["exc"]
        (run.finding(cls, what, rep) if cls else run.violation(what, rep))
        return
    dump = r["result"].get("dump")
    problems = list(r.get("obs", {}).get("problems", []))
    if dump != data:
        problems.append({"path": first_diff(data, dump), "what": "model_dump(by_alias, exclude_unset) != response"})
    st = r.get("obs", {}).get("stats", {})
    for k, v in st.items():
        run.dist("observed_positions", k, v)
    if not problems:
        if len(run.samples) < 4 and data:
            run.sample({"operation": opname, "response": data, "class": r["result"]["class"]})
        return
    p0 = problems[0]
    cls = finding_class(g, mp, opname, p0.get("path") or [])
    what = f"conformant response not preserved at {p0.get('path')}: {p0['what']}"
    rep["observed"] = {"dump": dump, "problems": problems[:5]}
    (run.finding(cls, what, rep) if cls else run.violation(what, rep))


def finding_class_any(g, mp, opname):
    if any(p[0] == opname for p in mp):
        return "F27-unmerged-composite-field"
    return None


def first_diff(a, b, path=None):
    path = path or []
    if isinstance(a, dict) and isinstance(b, dict):
        for k in a:
            if k not in b:
                return path + [k]
            d = first_diff(a[k], b[k], path + [k])
            if d is not None:
                return d
        for k in b:
            if k not in a:
                return path + [k]
        return None
    if isinstance(a, list) and isinstance(b, list):
        if len(a) != len(b):
            return path
        for i, (x, y) in enumerate(zip(a, b)):
            d = first_diff(x, y, path + [i])
            if d is not None:
                return d
        return None
    return None if a == b else path


def check_c05(run, g, opname, mp, r, rep):
    c = r.get("corruptions")
    if r.get("exc") or not c:
        run.dist("skipped", "conformant-response-not-accepted")  # C01's business
        return
    for k, v in c["kinds"].items():
        run.dist("corruptions", k, v)
    run.nontrivial_case(hash((g.sc.seed, opname, json.dumps(r.get("data"), sort_keys=True))))
    run.extra["corruptions_total"] = run.extra.get("corruptions_total", 0) + sum(c["kinds"].values())
    for a in c["accepted"]:
        path = a["path"]
        cls = finding_class(g, mp, opname, path)
        if cls is None and a["kind"] == "typename" and len(keys_only(path)) == 1:
            cls = "F29-root-typename-is-str"
        if cls is None and a["kind"] == "typename_self":
            cls = "F8-abstract-own-name-in-literal"
        what = (f"contradicting payload accepted: {a['kind']} at {path} (GraphQL type {a['type']} on {a['parent']})")
        rep2 = dict(rep, corrupted_response=a["value"], corruption={"kind": a["kind"], "path": path, "type": a["type"]})
        (run.finding(cls, what, rep2) if cls else run.violation(what, rep2))
    for o in c.get("other_exc", []):
        run.dist("rejected_with_other_exception", o["exc"])
    if len(run.samples) < 4:
        run.sample({"operation": opname, "response": r.get("data"), "corruptions_tried": c["kinds"]})


def k2_spec_vs_pydantic(run, results):
    """K2: Py/Pydantic.v `accepts` on the MODEL's classes vs the verdict of the real generated client
    (real pydantic on the real classes) for every conformant and corrupted payload of this run."""
    from graphql import FragmentDefinitionNode

    from .. import model
    from ..canon import encode
    from ..sexp import Sym, json_sx
    from .k1_results import FUEL

    cmds, meta = [], []
    for rows in results:
        by_op = {}
        g = None
        for kind, g, op, plan, r in rows:
            if kind != "call" or r.get("exec_errors") or (r.get("exc") and r["exc"][0].startswith("args:")):
                continue
            if r.get("data") is None:
                continue
            ent = by_op.setdefault(op.name.value, (op, [], {}))
            lst = ent[1]
            if "q" not in ent[2] and (r.get("request") or {}).get("query"):
                ent[2]["q"] = r["request"]["query"]
            real_ok = not r.get("exc")
            if r.get("exc") and r["exc"][0] != "ValidationError":
                continue
            exposed = not any("not exposed" in p.get("what", "") for p in (r.get("obs") or {}).get("problems", []))
            lst.append((r["data"], real_ok, "conformant", exposed if (real_ok and r.get("obs") is not None) else None))
            for v in (r.get("corruptions") or {}).get("verdicts", []):
                lst.append((v["value"], v["accepted"], v["kind"]))
        if g is None or not by_op:
            continue
        cfg = g.res.get("config", {})
        frs = [d for d in g.doc.definitions if isinstance(d, FragmentDefinitionNode)]
        C = [cfg.get("convert_to_snake_case", True), encode.scalars_cfg(cfg)]
        es, ef = encode.schema(g.schema), [encode.frag(f) for f in frs]
        for name, (op, lst, sent) in by_op.items():
            cmds.append([Sym("validate"), FUEL, C, es, ef, encode.operation(op), [json_sx(p[0]) for p in lst]])
            meta.append((g, name, lst))
            if sent.get("q"):
                # conformance is judged against the document the client SENT (automatic __typename included)
                from graphql import OperationDefinitionNode, parse
                sdoc = parse(sent["q"])
                sop = next(d for d in sdoc.definitions if isinstance(d, OperationDefinitionNode))
                sfr = [encode.frag(d) for d in sdoc.definitions if isinstance(d, FragmentDefinitionNode)]
                cmds.append([Sym("conf"), FUEL, es, sfr, encode.operation(sop), [json_sx(p[0]) for p in lst]])
                meta.append((g, name, None, lst))
    if not cmds:
        return
    res = model.batch("C01", cmds, chunk=8)
    bad = 0
    bad_conf = 0
    for m, r in zip(meta, res):
        if len(m) == 4:
            g, name, _none, lst = m
            if r[0] != "ok":
                run.dist("k2", "exec-spec-error")
                continue
            for row, mv in zip(lst, r[1]):
                payload, real_ok, kind = row[:3]
                want = kind == "conformant"
                run.dist("k2_exec", f"{kind}:{'conf' if mv == 't' else 'nonconf'}")
                if (mv == "t") != want:
                    bad_conf += 1
                    if bad_conf <= 3:
                        run.violation(
                            f"K2: Gql/Exec.v conf_op says {'conformant' if mv == 't' else 'not conformant'} for a "
                            f"{kind} payload of {name} (graphql-core produced the conformant one)",
                            {"seed": g.sc.seed, "schema": g.sc.sdl, "queries": g.sc.queries, "operation": name,
                             "payload": payload, "kind": kind}, found_input=False)
            continue
        g, name, lst = m
        if r[0] != "ok":
            run.dist("k2", "model-error")
            continue
        for row, mv, cv in zip(lst, r[1], r[2]):
            payload, real_ok, kind = row[:3]
            if len(row) > 3 and row[3] is not None:
                run.dist("k2_covers", "exposed" if row[3] else "key-dropped")
                if (cv == "t") != row[3]:
                    bad += 1
                    if bad <= 3:
                        run.violation(f"K2: Py/Pydantic.v covers={cv} but the real object "
                                      f"{'exposes' if row[3] else 'drops'} a response key ({name})",
                                      {"seed": g.sc.seed, "schema": g.sc.sdl, "queries": g.sc.queries,
                                       "operation": name, "payload": payload}, found_input=False)
            run.dist("k2", f"{kind}:{'accept' if real_ok else 'reject'}")
            if (mv == "t") != real_ok:
                bad += 1
                if bad <= 3:
                    run.violation(
                        f"K2: Py/Pydantic.v says {'accept' if mv == 't' else 'reject'} but the real generated "
                        f"model {'accepted' if real_ok else 'rejected'} a {kind} payload of {name}",
                        {"seed": g.sc.seed, "schema": g.sc.sdl, "queries": g.sc.queries, "operation": name,
                         "payload": payload, "model_accepts": mv == "t", "real_accepts": real_ok},
                        found_input=False)
    run.extra["k2_disagreements"] = bad
    run.extra["k2_exec_spec_disagreements"] = bad_conf
