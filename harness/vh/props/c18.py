"""C18 — GraphQL names map lawfully to Python names.

K1: Model/Names.v (extracted) vs ariadne_codegen.utils on an exhaustive name set.
K2: keyword list / pydantic reserved list (model data) vs the installed interpreter/pydantic.
K3: the property's own oracle evaluated on the real functions (valid identifier, not a keyword,
    not reserved, idempotent, letters/digits kept), and scopes with colliding names through the
    real generator (c18_scopes).
"""
from __future__ import annotations

import itertools
import keyword
import re

from .. import model
from ..sexp import Sym

FLAGS = [(a, b, c) for a in (False, True) for b in (False, True) for c in (False, True)]
ALPHABET = "abAB01_"


def names_for(ctx):
    maxlen = 7 if ctx.thorough else 6
    out = []
    for n in range(1, maxlen + 1):
        out.extend("".join(t) for t in itertools.product(ALPHABET, repeat=n))
    special = set(keyword.kwlist) | set(keyword.softkwlist)
    from ariadne_codegen.utils import PYDANTIC_RESERVED_FIELD_NAMES as R

    special |= set(R)
    extra = set()
    for s in special:
        for v in (s, "_" + s, "__" + s, s + "_", s.capitalize(), s.upper(), s + "1", "_" + s + "_",
                  s[:1].upper() + s[1:], "".join(w.capitalize() for w in s.split("_")),
                  s.split("_")[0] + "".join(w.capitalize() for w in s.split("_")[1:])):
            extra.add(v)
    rng = ctx.rng
    pool = "abcxyzABCXYZ0189_"
    for _ in range(20000 if ctx.thorough else 4000):
        k = rng.randint(1, 24)
        extra.add("".join(rng.choice(pool) for _ in range(k)))
    extra.discard("")
    return out, sorted(extra)


GQL = re.compile(r"^[_A-Za-z][_0-9A-Za-z]*$")


def alnum(s):
    return "".join(c for c in s if c.isalnum())


def run(ctx):
    run = ctx.run
    from ariadne_codegen import utils

    run.rule = ("all strings over {a,b,A,B,0,1,_} up to the length bound + keywords, soft keywords, "
                "dir(BaseModel) names and case/underscore variants + random names; each x 8 flag "
                "combinations (snake, trim, reserved); non-trivial = name whose processed form "
                "differs from the name for some flag combination")
    run.assumptions += [
        "CPython re/keyword/str methods; pydantic's dir(BaseModel) (model data checked against it each run)",
        "names are ASCII (GraphQL Name grammar); non-ASCII input is outside the model",
    ]
    # ---- K2: model data vs environment ----
    kw = model.call("C18", [Sym("kwlist")])
    rs = model.call("C18", [Sym("reserved")])
    if kw != list(keyword.kwlist):
        run.broken("K2 keyword list", f"model {kw} vs keyword.kwlist {keyword.kwlist}")
    if rs != list(utils.PYDANTIC_RESERVED_FIELD_NAMES):
        import pydantic
        real = sorted(n for n in dir(pydantic.BaseModel) if not n.startswith("_"))
        found = False
        for name in real:
            for cand in (name, "".join(w.capitalize() if i else w for i, w in enumerate(name.split("_")))):
                out = utils.process_name(cand, convert_to_snake_case=True, trim_leading_underscore=True,
                                         handle_pydantic_resrved_field_names=True)
                if out in real:
                    run.violation(f"process_name({cand!r}) = {out!r} shadows the pydantic BaseModel attribute {out!r}",
                                  {"name": cand, "output": out, "model_reserved": rs,
                                   "impl_reserved": list(utils.PYDANTIC_RESERVED_FIELD_NAMES)})
                    found = True
                    break
            if found:
                break
        if not found:
            run.broken("K2 reserved list", f"model {rs} vs utils.PYDANTIC_RESERVED_FIELD_NAMES {utils.PYDANTIC_RESERVED_FIELD_NAMES}")
    # ---- K1 + property oracle ----
    exhaustive, extra = names_for(ctx)
    names = exhaustive + extra
    run.extra["names_exhaustive"] = len(exhaustive)
    run.extra["names_extra"] = len(extra)
    res = model.batch("C18", [[Sym("all"), n] for n in names])
    import pydantic
    # independent of the code under test: what a field name must not shadow
    reserved = {n for n in dir(pydantic.BaseModel) if not n.startswith("_")}
    k1_bad = 0
    for n, r in zip(names, res):
        m_snake, m_pascal, m_gql, m_proc, m_guard = r
        run.count()
        i_snake = utils.str_to_snake_case(n)
        i_pascal = utils.str_to_pascal_case(n)
        if i_snake != m_snake or i_pascal != m_pascal:
            k1_bad += 1
            # search: does the property itself fail on the real code for this input?
            why = []
            if alnum(i_snake) != alnum(n).lower():
                why.append("letters/digits not preserved")
            if utils.str_to_snake_case(i_snake) != i_snake:
                why.append("not idempotent")
            run.violation(
                f"K1 snake/pascal disagree on {n!r}: impl {i_snake!r}/{i_pascal!r} model {m_snake!r}/{m_pascal!r}; "
                + ("property fails: " + ", ".join(why) if why else "no property failure on this input"),
                {"name": n, "impl": [i_snake, i_pascal], "model": [m_snake, m_pascal]},
                found_input=bool(why))
            if k1_bad > 10:
                break
        is_gql = bool(GQL.match(n))
        if is_gql != (m_gql == "t"):
            run.broken("K1 gql_name", n)
        if not is_gql:
            continue
        nontriv = False
        for fl, mp, mg in zip(FLAGS, m_proc, m_guard):
            ip = utils.process_name(n, convert_to_snake_case=fl[0], trim_leading_underscore=fl[1],
                                    handle_pydantic_resrved_field_names=fl[2])
            if ip != n:
                nontriv = True
            run.dist("flags", "".join("ft"[x] for x in fl))
            # property oracle on the real output (evaluated whether or not the model agrees)
            problems = []
            if ip != mp:
                ip_again = utils.process_name(n, convert_to_snake_case=fl[0], trim_leading_underscore=fl[1],
                                              handle_pydantic_resrved_field_names=fl[2])
                if ip_again != ip:
                    problems.append(f"not deterministic ({ip!r} then {ip_again!r})")
            if not ip.isidentifier():
                problems.append("not an identifier")
            if keyword.iskeyword(ip):
                problems.append("keyword")
            if fl[2] and ip in reserved:
                problems.append("shadows pydantic attribute")
            if set(n) != {"_"} and alnum(ip).lower() != alnum(n).lower():
                problems.append("letters/digits changed")
            if set(n) != {"_"} and mg == "t":
                ip2 = utils.process_name(ip, convert_to_snake_case=fl[0], trim_leading_underscore=fl[1],
                                         handle_pydantic_resrved_field_names=fl[2])
                if ip2 != ip:
                    problems.append(f"not idempotent ({ip2!r})")
            if ip != mp:
                k1_bad += 1
                if k1_bad <= 20 or problems:
                    run.violation(f"K1 process_name disagrees on {n!r} flags {fl}: impl {ip!r} model {mp!r}"
                                  + (f"; property fails on this input: {', '.join(problems)}" if problems else ""),
                                  {"name": n, "flags": fl, "impl": ip, "model": mp, "problems": problems},
                                  found_input=bool(problems))
                continue
            if problems:
                rep = {"name": n, "flags": {"snake": fl[0], "trim": fl[1], "reserved": fl[2]}, "output": ip,
                       "problems": problems}
                if mg == "f":
                    run.finding("F18-invalid-name", f"process_name({n!r}, {fl}) = {ip!r}: {', '.join(problems)}", rep)
                    run.dist("finding_inputs", "guard-false-and-invalid")
                else:
                    run.violation(f"process_name({n!r}, {fl}) = {ip!r}: {', '.join(problems)}", rep)
        if nontriv:
            run.nontrivial_case(n)
    for n in ("fooBar", "HTTPServer2_x", "_class", "modelDump", "__", "_1"):
        run.sample({"name": n, "snake": utils.str_to_snake_case(n),
                    "process(snake,trim,reserved)": utils.process_name(n, True, None, None, True, True)})
    run.exhaustive = True
    run.extra["k1_disagreements"] = k1_bad
    # ---- K1 + oracle: enum member names (utils.enum_member_name) over the same exhaustive name set ----
    import enum as _enum
    gnames = [n for n in names if GQL.match(n) and not n.startswith("__")]
    eres = model.batch("C18", [[Sym("enum_member"), n] for n in gnames])
    e_bad = 0
    for n, m in zip(gnames, eres):
        run.count()
        im = utils.enum_member_name(n)
        problems = []
        if not im.isidentifier() or keyword.iskeyword(im):
            problems.append("member name is not a usable identifier")
        if alnum(im) != alnum(n):
            problems.append("letters/digits changed")
        if im != n or n.startswith("_") or n.endswith("_") or n in ("mro", "name", "value"):
            try:
                E = _enum.Enum("E", {im: n})
                if [x.value for x in E] != [n] or getattr(E, im).value != n:
                    problems.append("the member does not carry the value")
            except Exception as e:  # noqa: BLE001
                problems.append(f"enum.Enum refuses the member: {type(e).__name__}: {str(e)[:80]}")
        if im != m:
            e_bad += 1
            if e_bad <= 10 or problems:
                run.violation(f"K1 enum_member_name disagrees on {n!r}: impl {im!r} model {m!r}"
                              + (f"; property fails on this input: {', '.join(problems)}" if problems else ""),
                              {"value": n, "impl": im, "model": m, "problems": problems}, found_input=bool(problems))
        elif problems:
            run.violation(f"enum_member_name({n!r}) = {im!r}: {', '.join(problems)}", {"value": n, "member": im, "problems": problems})
    run.extra["enum_member_names"] = len(gnames)
    run.extra["enum_member_k1_disagreements"] = e_bad
    # ---- K3: colliding names inside real generated scopes ----
    try:
        from . import c18_scopes
    except ImportError:
        c18_scopes = None
    if c18_scopes is not None:
        c18_scopes.run(ctx)
    # ---- K1 + K3: the scopes' own de-duplication loops (variables, input fields) vs Model/Scopes.v ----
    from . import c18_assign
    c18_assign.run(ctx)
