"""C17 — Invalid input is rejected up front, with a typed error and no side effects.

K1  model <-> code: Model/Settings.v + Model/Pipeline.v (extracted) against
    ariadne_codegen.config.get_client_settings / get_graphql_schema_settings (returned object or
    exception + message) and against main.client / main.graphql_schema / the click command (exception
    class + message, set of files created/modified under a real scratch tree, mkdir).
K2  model data <-> library: dataclass field names, default base-client table, keyword list,
    pathlib suffix, str.isidentifier on an exhaustive small alphabet.
K3  the property's own oracle on the real code, independent of the model: a case built as a
    single-constraint violation / invalid schema / invalid operation / syntax error must raise an
    ariadne_codegen.exceptions class whose message names the problem, leave the tree (names, sizes,
    hashes, mtimes) and the configuration dict untouched; a valid variant must be accepted; unknown
    keys must not change the outcome.
Finding class (known_findings/C17.json): F17-invalid-schema-not-rejected (open).  The former class
F16-name-not-validated is fixed in /repo 0631414; its witnesses (keywords, unusable fragments_module_name)
are ordinary single-constraint violations of the main stream now.
Inside a finding class a case that satisfies the property (e.g. on a repaired tree) is never an error.
"""
from __future__ import annotations

import itertools
import json
import keyword
import os
import subprocess
import sys
from concurrent.futures import ThreadPoolExecutor

from .. import model
from ..sexp import Sym, json_sx, sx_json
from . import c17_cases as G

ENGINE = "C17"


# ---------------------------------------------------------------- running the implementation
def run_workers(cases, jobs=16):
    if not cases:
        return []
    chunks = [cases[i::jobs] for i in range(jobs)]
    chunks = [c for c in chunks if c]

    def one(chunk):
        slim = [{k: v for k, v in c.items() if k in ("id", "which", "via", "files", "dirs", "config", "config_file",
                                                      "envvars", "cwd", "remote", "local_plugins")} for c in chunk]
        p = subprocess.run([sys.executable, "-m", "vh.props.c17_worker"], input=json.dumps(slim).encode(),
                           stdout=subprocess.PIPE, stderr=subprocess.PIPE, timeout=1500)
        if p.returncode != 0:
            raise RuntimeError("c17 worker failed: " + p.stderr.decode(errors="replace")[-2000:])
        return json.loads(p.stdout.decode())

    with ThreadPoolExecutor(max_workers=len(chunks)) as ex:
        parts = list(ex.map(one, chunks))
    by_id = {}
    for part in parts:
        for o in part:
            by_id[o["id"]] = o
    return [by_id[c["id"]] for c in cases]


# ---------------------------------------------------------------- encoding for the model
def _section(cfg):
    if not isinstance(cfg, dict):
        return {}
    t = cfg.get("tool")
    if isinstance(t, dict) and isinstance(t.get("ariadne-codegen"), dict):
        return t["ariadne-codegen"]
    s = cfg.get("ariadne-codegen")
    return s if isinstance(s, dict) else {}


DEFAULT_CLIENT_FILES = {(True, True): "async_base_client_open_telemetry.py", (True, False): "async_base_client.py",
                        (False, True): "base_client_open_telemetry.py", (False, False): "base_client.py"}


def env_sx(obs):
    """Environment for the model.  File CONTENT travels only for the one file the model reads (the base client
    file: the configured one, or the default selected by async_client/opentelemetry_client); every other file is
    sent as a file with empty content (the model only asks for its kind)."""
    sec = _section(obs.get("config"))
    bcp = sec.get("base_client_file_path")
    read = {bcp if isinstance(bcp, str) else None,
            obs["deps"] + "/" + DEFAULT_CLIENT_FILES[(sec.get("async_client", True) is not False,
                                                       sec.get("opentelemetry_client", False) is True)]}
    paths = []
    for p, k in obs["paths"].items():
        if k[0] == "file":
            paths.append([p, [Sym("file"), k[1] if p in read else ""]])
        else:
            paths.append([p, Sym(k[0])])
    vars_ = [[k, v] for k, v in obs["vars"].items()]
    return [paths, vars_, obs["cwd"], obs["deps"]]


def world_sx(obs):
    o = obs.get("oracle") or {"schema_files": [], "schema_build": "ok", "schema_errors": [], "plugin_err": None,
                              "query_files": [], "op_errors": [], "ops": [], "fragments": False, "query_type": False,
                              "mutation_type": False}
    sb = Sym("ok") if o["schema_build"] == "ok" else [Sym("raises"), o["schema_build"][1], o["schema_build"][2]]
    pe = Sym("none") if o["plugin_err"] is None else [Sym("some"), o["plugin_err"]]
    ops = [[Sym("none") if n is None else [Sym("some"), n], Sym("none")] for n in o["ops"]]
    rm = o.get("remote") or ["ok", 200, None, None]
    body = Sym("none") if rm[2] is None else [Sym("some"), json_sx(rm[2]["json"])]
    rem = [rm[0], rm[1], body, Sym("none") if rm[3] is None else [Sym("some"), rm[3]]]
    return [[[f, ok] for f, ok in o["schema_files"]], sb, rem, list(o["schema_errors"]), pe,
            [[f, ok] for f, ok in o["query_files"]],
            [[[r, m] for r, m in o["op_errors"]], [[r, m] for r, m in o.get("op_errors_raw", o["op_errors"])]], ops,
            [bool(o.get("fragments")), bool(o.get("query_type")), bool(o.get("mutation_type"))]]


def cfgfile_sx(case, obs):
    if case["via"] == "cli" and not case.get("config_file"):
        return [Sym("notfound"), os.path.join(obs["root"], "missing.toml")]
    return [Sym("found"), "cfg", json_sx(obs["config"])]


def model_cmds(case, obs):
    which = "client" if case["which"] == "client" else "schema"
    cmds = [[Sym("run"), which, cfgfile_sx(case, obs), env_sx(obs), world_sx(obs)]]
    if obs.get("config") is not None:
        cmds.append([Sym(which), json_sx(obs["config"]), env_sx(obs)])
    return cmds


def b(x):
    return x == "t"


def opt_s(e):
    return None if e == "none" else e[1]


def model_settings_py(r):
    """(ok <settings>) sexp -> the worker's settings_dump layout."""
    if r[0] != "ok":
        return None
    s = r[1]
    base = s[0]
    pbase = [base[0], base[1], [list(kv) for kv in base[2]], b(base[3]), b(base[4]), list(base[5])]
    if len(s) == 19:
        f = s[1:18]
        fields = list(f[:11]) + [b(x) for x in f[11:16]] + [list(f[16])]
        sc = [[x[0], x[1], opt_s(x[2]), opt_s(x[3]), opt_s(x[4]), x[0]] for x in s[18]]
        return {"kind": "client", "base": pbase, "fields": fields, "scalars": sc}
    return {"kind": "schema", "base": pbase, "fields": list(s[1:5])}


def impl_class(exc):
    if exc is None:
        return None
    return exc["type"] if exc["codegen"] else "other:" + exc["type"]


def msg_agrees(model_cls, model_msg, impl_msg):
    if model_cls == "InvalidOperationForSchema":
        return all(part in impl_msg for part in model_msg.split("\n\n"))
    if model_cls.startswith("other:"):
        return True          # text of foreign exceptions is not part of the model
    return model_msg in impl_msg


def norm_msg(m):
    """'Missing configuration fields: a, b, c' lists a Python set: its order is unspecified (it depends on the
    size of the section through set.difference's two strategies) and is not part of any claim."""
    pre = "Missing configuration fields: "
    if m.startswith(pre):
        return pre + ", ".join(sorted(m[len(pre):].split(", ")))
    return m


def rel(root, p):
    return os.path.relpath(p, root) if p.startswith(root) else p


# ---------------------------------------------------------------- model data derived from /repo's source
def _post_init_events(tree, cls):
    import ast

    for n in tree.body:
        if isinstance(n, ast.ClassDef) and n.name == cls:
            for f in n.body:
                if isinstance(f, ast.FunctionDef) and f.name == "__post_init__":
                    ev = []
                    for x in ast.walk(f):
                        if isinstance(x, ast.Call):
                            fn = x.func.id if isinstance(x.func, ast.Name) else (
                                x.func.attr if isinstance(x.func, ast.Attribute) else None)
                            if fn and (fn.startswith("assert_") or fn in (
                                    "resolve_headers", "__post_init__", "CommentsStrategy", "_set_default_base_client_data")):
                                attrs = [a.attr for a in ast.walk(x) if isinstance(a, ast.Attribute)
                                         and isinstance(a.value, ast.Name) and a.value.id == "self"]
                                ev.append((x.lineno, x.col_offset, fn, ",".join(a for a in attrs if a != "__post_init__")))
                        if isinstance(x, ast.Raise) and isinstance(x.exc, ast.Call):
                            fn = x.exc.func.id if isinstance(x.exc.func, ast.Name) else "?"
                            ev.append((x.lineno, x.col_offset, "raise:" + fn, ""))
                    return [[a, b2] for _, _, a, b2 in sorted(ev)]
    return None


def _raise_templates(tree):
    """Message templates of every `raise <CodeGen exception>(...)`: f-string holes become {}."""
    import ast

    out = []
    for x in ast.walk(tree):
        if isinstance(x, ast.Raise) and isinstance(x.exc, ast.Call) and isinstance(x.exc.func, ast.Name) \
                and x.exc.func.id in ("InvalidConfiguration", "MissingConfiguration") and x.exc.args:
            a = x.exc.args[0]
            if isinstance(a, ast.Constant) and isinstance(a.value, str):
                out.append(a.value)
            elif isinstance(a, ast.JoinedStr):
                out.append("".join(v.value if isinstance(v, ast.Constant) else "{}" for v in a.values))
            else:
                out.append("<dynamic>")
    return out


def source_derived(run):
    """Tables of the model that are DATA about settings.py/config.py, re-derived from the source of /repo on
    every run: order of the calls in the three __post_init__ methods, the TOML kind of every field (from the
    dataclass annotations), the text of every InvalidConfiguration/MissingConfiguration message.  Any
    difference fails closed and names the entry."""
    import ast
    import dataclasses
    import inspect
    import typing

    from ariadne_codegen import config as C
    from ariadne_codegen import settings as S

    tree = ast.parse(inspect.getsource(S))
    mb, mc, ms = model.call(ENGINE, [Sym("source-order")])
    for cls, mine in (("BaseSettings", mb), ("ClientSettings", mc), ("GraphQLSchemaSettings", ms)):
        real = _post_init_events(tree, cls)
        if real is None:
            run.broken("source order", f"{cls}.__post_init__ not found in settings.py")
            continue
        mine = [list(x) for x in mine]
        if real != mine:
            i = next((k for k, (a, b2) in enumerate(zip(real, mine)) if a != b2), min(len(real), len(mine)))
            run.broken(f"source order of {cls}.__post_init__",
                       f"entry {i}: /repo has {real[i] if i < len(real) else '(end)'}, the model mirrors "
                       f"{mine[i] if i < len(mine) else '(end)'}; full /repo order: {real}")
    # kinds
    def kind(t):
        if t is str:
            return "str"
        if t is bool:
            return "bool"
        if t is dict:
            return "strdict"
        if t is S.CommentsStrategy:
            return "comments"
        o = typing.get_origin(t)
        if o in (list, typing.List) and typing.get_args(t) == (str,):
            return "strlist"
        if o in (dict, typing.Dict):
            return "scalars" if typing.get_args(t)[1].__name__ == "ScalarData" else "strdict"
        return f"unknown:{t!r}"

    real_k = {}
    for cls in (S.ClientSettings, S.GraphQLSchemaSettings):
        hints = typing.get_type_hints(cls)
        for f in dataclasses.fields(cls):
            real_k[f.name] = kind(hints[f.name])
    mk = {k: v for k, v in model.call(ENGINE, [Sym("field-kinds")])}
    for name in sorted(set(real_k) | set(mk)):
        if real_k.get(name) != mk.get(name):
            run.broken("field kind", f"{name}: /repo annotates {real_k.get(name)}, the model reads it as {mk.get(name)}")
    # messages
    real_t = set(_raise_templates(tree)) | set(_raise_templates(ast.parse(inspect.getsource(C))))
    mine_t = set()
    for m in model.call(ENGINE, [Sym("messages")]):
        m = m.replace("none, stable, timestamp", "{}").replace("[tool.ariadne-codegen]", "[{}.{}]")
        if m == "Missing configuration fields: ":
            m += "{}"
        mine_t.add(m)
    if real_t != mine_t:
        run.broken("message texts", f"raised in /repo but not in the model: {sorted(real_t - mine_t)}; "
                                    f"in the model but no longer raised by /repo: {sorted(mine_t - real_t)}")
    run.extra["source_derived"] = {"post_init_entries": len(mb) + len(mc) + len(ms), "field_kinds": len(mk),
                                   "message_templates": len(mine_t)}
    # graphql file extensions of the loader (the worker re-states the loader)
    from ariadne_codegen import schema as SC
    from .c17_worker import GQL_EXT

    exts = [tuple(e.value for e in ast.walk(ast.parse(__import__('textwrap').dedent(inspect.getsource(SC.walk_graphql_files))))
                  if isinstance(e, ast.Constant) and isinstance(e.value, str) and e.value.startswith("."))]
    if not exts or tuple(sorted(set(exts[0]))) != tuple(sorted(GQL_EXT)):
        run.broken("loader extensions", f"/repo walk_graphql_files uses {exts}, the harness loader {GQL_EXT}")


# ---------------------------------------------------------------- K2
def k2(run):
    import dataclasses

    from ariadne_codegen import settings as S
    from ariadne_codegen.client_generators import constants as K

    cf, sf = model.call(ENGINE, [Sym("fields")])
    real_c = [f.name for f in dataclasses.fields(S.ClientSettings)]
    real_s = [f.name for f in dataclasses.fields(S.GraphQLSchemaSettings)]
    for label, mine, real in (("ClientSettings", cf, real_c), ("GraphQLSchemaSettings", sf, real_s)):
        if sorted(mine) != sorted(real):
            run.broken(f"K2 {label} fields",
                       f"fields only in /repo's dataclass (new or renamed, not in the model's constraint table): "
                       f"{sorted(set(real) - set(mine))}; only in the model (removed or renamed in /repo): "
                       f"{sorted(set(mine) - set(real))}")
    source_derived(run)
    # defaults of the dataclasses the model hard-codes
    dflt = {f.name: f.default for f in dataclasses.fields(S.ClientSettings) if f.default is not dataclasses.MISSING}
    want = {"target_package_name": "graphql_client", "client_name": "Client", "client_file_name": "client",
            "enums_module_name": "enums", "input_types_module_name": "input_types", "fragments_module_name": "fragments",
            "convert_to_snake_case": True, "include_all_inputs": True, "include_all_enums": True, "async_client": True,
            "opentelemetry_client": False, "queries_path": "", "base_client_name": "", "base_client_file_path": "",
            "schema_path": "", "remote_schema_url": "", "remote_schema_verify_ssl": True,
            "enable_custom_operations": False}
    for k, v in want.items():
        if dflt.get(k) != v:
            run.broken("K2 default", f"{k}: model {v!r} vs code {dflt.get(k)!r}")
    sd = {f.name: f.default for f in dataclasses.fields(S.GraphQLSchemaSettings) if f.default is not dataclasses.MISSING}
    for k, v in {"target_file_path": "schema.py", "schema_variable_name": "schema", "type_map_variable_name": "type_map"}.items():
        if sd.get(k) != v:
            run.broken("K2 default", f"{k}: model {v!r} vs code {sd.get(k)!r}")
    names = {(True, True): (K.DEFAULT_ASYNC_BASE_CLIENT_OPEN_TELEMETRY_PATH, K.DEFAULT_ASYNC_BASE_CLIENT_OPEN_TELEMETRY_NAME),
             (True, False): (K.DEFAULT_ASYNC_BASE_CLIENT_PATH, K.DEFAULT_ASYNC_BASE_CLIENT_NAME),
             (False, True): (K.DEFAULT_BASE_CLIENT_OPEN_TELEMETRY_PATH, K.DEFAULT_BASE_CLIENT_OPEN_TELEMETRY_NAME),
             (False, False): (K.DEFAULT_BASE_CLIENT_PATH, K.DEFAULT_BASE_CLIENT_NAME)}
    from ariadne_codegen.graphql_schema_generators import constants as GK

    rv = model.call(ENGINE, [Sym("reserved")])
    if sorted(rv) != sorted(GK.RESERVED_VARIABLE_NAMES):
        run.broken("K2 reserved variable names", f"model {sorted(rv)} vs code {sorted(GK.RESERVED_VARIABLE_NAMES)}")
    run.extra["default_clients"] = {str(k): [v[0].name, v[1]] for k, v in names.items()}
    # identifiers / keywords / suffixes: exhaustive over a small alphabet + specials
    from pathlib import Path

    alpha = "aZ_9.- /"
    strs = [""] + ["".join(t) for n in range(1, 5) for t in itertools.product(alpha, repeat=n)]
    strs += list(keyword.kwlist) + ["a.tar.gz", "x/.py", "x/y.", "dir.d/file", "a/b.PY", "..", "a/..", ".hidden.py",
                                    "schema.GraphQL", "a.b/", "a.b//", "/", "//a.py"]
    res = model.batch(ENGINE, [[Sym("identifier"), s] for s in strs] + [[Sym("suffix"), s] for s in strs])
    n = len(strs)
    bad = 0
    for s, r in zip(strs, res[:n]):
        if (b(r[0]), b(r[1])) != (s.isidentifier(), keyword.iskeyword(s)):
            bad += 1
            run.broken("K2 identifier/keyword", f"{s!r}: model {r} vs python {(s.isidentifier(), keyword.iskeyword(s))}")
            break
    skipped = 0
    for s, r in zip(strs, res[n:]):
        # pathlib drops '.' components and treats '..' specially: outside the model's stated path scope
        parts = s.rstrip("/").split("/")
        if s == "" or parts[-1] in (".", "..", "") or "/./" in s or s.startswith("./"):
            skipped += 1
            continue
        real = (Path(s).suffix, Path(s).suffix[1:].lower())
        if (r[0], r[1]) != real:
            bad += 1
            run.broken("K2 pathlib suffix", f"{s!r}: model {r} vs pathlib {real}")
            break
    run.count(2 * n)
    run.extra["k2_strings"] = n
    run.extra["k2_suffix_skipped_dot_components"] = skipped


# ---------------------------------------------------------------- case sets
def build_cases(ctx):
    rng = ctx.rng
    thorough = ctx.thorough
    cases = []
    valid = G.valid_client_variants(rng, 60 if thorough else 18)
    if not thorough:   # quick: half of the option pairs, chosen by the seed (seeds 0/1 together cover all)
        pairs = [c for c in valid if c['id'].startswith('valid/pair/')]
        keep = {c['id'] for k, c in enumerate(pairs) if (k + ctx.seed) % 2 == 0}
        valid = [c for c in valid if not c['id'].startswith('valid/pair/') or c['id'] in keep]
    cases += valid
    viols = G.client_violations()
    # every violation on the base configuration, and on random valid variants
    nvar = 4 if thorough else 1
    for v in viols:
        cases.append(G.violate([], v, f"violation/base/{v[0]}"))
        c = G.violate([G.o_preexisting], v, f"violation/pre/{v[0]}")
        cases.append(c)
        for j in range(nvar):
            opts = rng.sample(G.CLIENT_OPTS, rng.randint(1, 5))
            cases.append(G.violate(opts, v, f"violation/var{j}/{v[0]}"))
    # option x violation: every context option, each constraint violated under it (both schema sources,
    # directories, custom base client, headers, legacy section, relative paths, plugins, ...)
    for v in viols:
        for f in G.CLIENT_OPTS:
            if f.__name__ in v[4] or f is G.o_preexisting:
                continue
            cases.append(G.violate([f], v, f"violation/x-{f.__name__}/{v[0]}"))
    # systematic pairs of violations of different constraints (one representative per constraint; all in thorough)
    reps = {}
    for v in viols:
        reps.setdefault(v[1] or v[0], v)
    plist = viols if thorough else list(reps.values())
    for i, a in enumerate(plist):
        for c2 in plist[i + 1:]:
            if (a[1] or a[0]) == (c2[1] or c2[0]):
                continue
            c = G.base_case()
            a[2](c)
            c2[2](c)
            c.update({"id": f"pair/sys/{a[0]}+{c2[0]}", "expect": "invalid", "names": [], "group": "violation-pair",
                      "kind": "pair", "cls": None, "opts": []})
            cases.append(c)
    # random pairs of violations on random variants: which error is reported first
    for i in range(120 if thorough else 40):
        a, c2 = rng.sample(viols, 2)
        if a[1] == c2[1]:
            continue
        opts = rng.sample(G.CLIENT_OPTS, rng.randint(0, 3))
        opts = [f for f in opts if f.__name__ not in a[4] + c2[4] and f.__name__ not in ("o_relative", "o_legacy", "o_default_target")]
        c = G.apply_opts(G.base_case(), opts)
        a[2](c)
        c2[2](c)
        c.update({"id": f"pair/{i}/{a[0]}+{c2[0]}", "expect": "invalid", "names": [], "group": "violation-pair", "kind": "pair",
                  "cls": a[3] or c2[3]})
        cases.append(c)
    cases += G.schema_valid_variants()
    cases += G.schema_violations()
    cases += G.schema_rule_cases()
    cases += G.operation_rule_cases()
    cases += G.syntax_cases()
    cases += G.duplicate_name_cases()
    cases += G.section_cases()
    cases += G.remote_cases()
    cases += G.plugin_schema_cases()
    cases += G.malformed_cases([tuple(x) for x in model.call(ENGINE, [Sym("field-kinds")])])
    # CLI twins (click command + TOML file on disk) of a cross-section
    twins = []
    for c in cases:
        if c["via"] != "func" or c["config"] is None:
            continue
        g = c["group"]
        pick = (c["id"].startswith(("valid/o_", "valid/base", "violation/base/", "violation-schema/", "valid-schema/",
                                    "syntax/", "section/", "duplicate/", "remote/", "plugin-schema/"))
                or (g in ("invalid-operation", "valid-operation") and c["id"].endswith("/file"))
                or (g == "invalid-schema" and not c["id"].endswith("+pre")))
        if pick and (thorough or rng.random() < 0.45):
            twins.append(G.as_cli(c))
    # unknown-key twins
    ukeys = []
    pool = [c for c in cases if c["via"] == "func" and c["group"] in ("valid", "violation", "valid-schema",
                                                                       "violation-schema", "section")]
    for c in rng.sample(pool, min(len(pool), 150 if thorough else 50)):
        d = G.with_unknown_keys(c, rng)
        if d is not None:
            ukeys.append(d)
    cases += twins + ukeys
    seen = set()
    for c in cases:
        assert c["id"] not in seen, c["id"]
        seen.add(c["id"])
        c.setdefault("cls", None)
        c.setdefault("names", [])
        c.setdefault("constraint", None)
    return cases


# ---------------------------------------------------------------- judging one case
# "the corresponding ariadne-codegen exception", per class of invalid input
CORRESPONDING = {
    "violation": ("InvalidConfiguration", "MissingConfiguration", "PluginImportError"),
    "violation-schema": ("InvalidConfiguration", "MissingConfiguration", "PluginImportError"),
    "violation-pair": ("InvalidConfiguration", "MissingConfiguration", "PluginImportError"),
    "violation-pair-schema": ("InvalidConfiguration", "MissingConfiguration", "PluginImportError"),
    "invalid-operation": ("InvalidOperationForSchema",),
    "plugin-schema": ("InvalidOperationForSchema",),
    "syntax": ("InvalidGraphqlSyntax",),
    "duplicate-names": ("ParsingError",),
}


def k3_problems(case, obs):
    """The property itself, on the real code only."""
    exc = obs["exception"]
    problems = []
    touched = obs["created"] or obs["modified"] or obs["deleted"]
    if not obs["config_unchanged"] or obs.get("settings_config_unchanged") is False:
        problems.append("configuration dict mutated")
    if obs.get("settings_touched_tree"):
        problems.append("reading settings touched the tree")
    if case["expect"] == "malformed":
        if exc is not None and touched:
            problems.append(f"tree changed before failing: created {obs['created'][:4]} modified {obs['modified'][:4]}")
    elif case["expect"] == "valid":
        if exc is not None:
            problems.append(f"valid configuration refused: {exc['type']}: {exc['message'][:120]}")
    elif case["expect"] == "invalid":
        if exc is None:
            problems.append("accepted (no exception)" + (f"; {len(obs['created'])} paths created" if touched else ""))
        else:
            if not exc["codegen"]:
                problems.append(f"untyped error {exc['module']}.{exc['type']}: {exc['message'][:100]}")
            else:
                want = CORRESPONDING.get(case["group"])
                if case.get("kind") == "anonymous":
                    want = ("ParsingError",)
                if want and exc["type"] not in want:
                    problems.append(f"not the corresponding exception: {exc['type']} instead of {'/'.join(want)}: "
                                    f"{exc['message'][:100]}")
                for n in case["names"]:
                    if n not in exc["message"]:
                        problems.append(f"message does not name {n!r}: {exc['message'][:120]}")
            if touched:
                problems.append(f"tree changed before failing: created {obs['created'][:4]} modified {obs['modified'][:4]}")
    return problems


def judge(ctx, case, obs, mres, twin_obs):
    run = ctx.run
    run.count()
    run.dist("group", case["group"])
    run.dist("via", case["via"] + "/" + case["which"])
    if "worker_error" in obs:
        run.broken("worker", obs["worker_error"])
        return
    exc = obs["exception"]
    icls = impl_class(exc)
    run.dist("impl_outcome", icls or "accepted")
    if case["group"] == "malformed":
        run.dist("malformed_stream", (icls or "accepted"))
        if exc is not None and not exc["codegen"]:
            run.extra.setdefault("malformed_untyped", {}).setdefault(case["kind"], []).append(
                f"{json.dumps(_section(obs['config']).get(case['kind'].split(':')[0]))} -> {exc['type']}")
    replay = {"case": {k: case[k] for k in ("id", "which", "via", "files", "dirs", "config", "config_file", "envvars",
                                             "cwd", "expect", "names", "cls")},
              "observed": {k: obs.get(k) for k in ("exception", "created", "modified", "deleted", "config_unchanged",
                                                   "exit_code")}}
    # ---------------- K3
    problems = k3_problems(case, obs)
    if twin_obs is not None:
        te = twin_obs["exception"]
        same = (impl_class(te) == icls and norm_msg((te or {}).get("message", "").replace(twin_obs["root"], ""))
                == norm_msg((exc or {}).get("message", "").replace(obs["root"], ""))
                and [rel(twin_obs["root"], os.path.join(twin_obs["root"], p)) for p in twin_obs["created"]] == obs["created"])
        if not same and case["id"].startswith("unknown-keys:"):
            problems.append(f"unknown keys changed the outcome: {icls} vs {impl_class(te)}")
        if not same and case["id"].startswith("cli:") and impl_class(te) != icls:
            problems.append(f"CLI and function disagree: {icls} vs {impl_class(te)}")
    in_class = case.get("cls")
    # ---------------- K1
    k1 = []
    outcome, effects, nowrites = mres[0]
    if len(mres) > 1 and isinstance(mres[1], list) and len(mres[1]) >= 2 and isinstance(mres[1][1], list) \
            and len(mres[1][1]) == 1 and isinstance(mres[1][1][0], list):
        table = mres[1][1][0]
        violated = [k for k, v in table if v == "f"]
        run.dist("violated_constraints", ",".join(violated) or "none")
        # generator label vs the model's documented-constraint table
        if case["group"] in ("valid", "valid-schema") and violated:
            k1.append(f"generator says valid, model's documented constraints violated: {violated}")
        if case["group"] in ("violation", "violation-schema") and case.get("constraint"):
            if violated != [case["constraint"]]:
                k1.append(f"generator says single violation of {case['constraint']}, model table says {violated}")
    if outcome[0] == "ill":
        run.dist("model", "ill-typed (out of scope)")
        k1 = []
    else:
        mcls = None if outcome[0] == "done" else outcome[2]
        run.dist("model_outcome", (mcls or "accepted") + ("" if outcome[0] == "done" else "@" + outcome[1]))
        if mcls != icls:
            k1.append(f"outcome: model {mcls or 'accepted'}" + (f"@{outcome[1]}" if mcls else "") + f" vs code {icls or 'accepted'}"
                      + (f" ({exc['message'][:100]})" if exc else ""))
        elif mcls is not None and not msg_agrees(mcls, outcome[3], exc["message"]):
            k1.append(f"message: model {outcome[3]!r} not in code's {exc['message']!r}")
        root = obs["root"]
        m_writes = sorted(rel(root, os.path.normpath(os.path.join(obs["cwd"], e[1]))) for e in effects if e[0] == "write")
        m_mkdirs = sorted(rel(root, os.path.normpath(os.path.join(obs["cwd"], e[1]))) for e in effects if e[0] == "mkdir")
        i_files = sorted(p for p in obs["created"] + obs["modified"] if p not in m_mkdirs or p in m_writes)
        i_dirs = [p for p in obs["created"] if p in m_mkdirs]
        if mcls == icls:
            if sorted(set(m_writes)) != sorted(set(i_files) - set(i_dirs)) or m_mkdirs != sorted(i_dirs) or obs["deleted"]:
                mw, iw = set(m_writes), set(i_files) - set(i_dirs)
                k1.append(f"effects: model-only writes {sorted(mw - iw)[:8]} code-only writes {sorted(iw - mw)[:8]} "
                          f"mkdir model {m_mkdirs} code {sorted(i_dirs)} deleted {obs['deleted'][:3]}")
        m_http = sum(1 for e in effects if e[0] == "http")
        if m_http != obs.get("http_hits", 0):
            k1.append(f"requests sent to remote_schema_url: model {m_http} vs code {obs.get('http_hits')}")
        # settings object
        if len(mres) > 1 and case["via"] == "func" and "settings" in obs:
            ms = mres[1][0]
            if ms[0] == "ok":
                if obs["settings"] is None:
                    k1.append(f"settings: model accepts, code raises {obs['settings_exc']['type']}: {obs['settings_exc']['message'][:80]}")
                elif model_settings_py(ms) != obs["settings"]:
                    k1.append(f"settings object differs: model {model_settings_py(ms)} vs code {obs['settings']}")
            elif ms[0] == "err":
                se = obs["settings_exc"]
                if se is None:
                    k1.append(f"settings: model raises {ms[1]} ({ms[2][:60]}), code accepts")
                elif impl_class(se) != ms[1] or ms[2] not in se["message"]:
                    k1.append(f"settings error: model {ms[1]}: {ms[2]!r} vs code {impl_class(se)}: {se['message']!r}")
            # the copy of the section is what keeps the caller's dict intact (model: config_after_client true)
            if sx_json(mres[1][2]) != obs["config"]:
                k1.append("model's configuration-after differs from the configuration")
    # ---------------- verdicts
    nontrivial = exc is not None or bool(case.get("opts"))
    if nontrivial:
        run.nontrivial_case(case["id"].split(":")[-1].split("/var")[0])
    if in_class:
        oracle_invalid = bool((obs.get("oracle") or {}).get("schema_errors"))
        if in_class.startswith("F17") and not oracle_invalid:
            run.broken("generator", f"{case['id']}: labelled invalid schema but graphql-core reports no error")
        if problems:
            run.finding(in_class, f"{case['id']}: " + "; ".join(problems), replay)
            run.dist("finding_" + in_class, problems[0].split(":")[0][:40])
            # K1 inside the class: the model reproduces the defect up to the point where generation starts;
            # crashes inside generation on such inputs are outside the model (C04)
            k1 = [m for m in k1 if not (m.startswith("outcome: model accepted") or m.startswith("effects:"))] \
                if in_class.startswith("F1") else k1
        else:
            run.dist("finding_" + in_class, "property holds (not reproduced)")
            k1 = []      # a repaired tree legitimately departs from the defect-faithful model
    elif problems:
        run.violation(f"{case['id']}: " + "; ".join(problems), replay)
    for m in k1:
        # search: the property oracle already ran on this very input (problems); say which it is
        replay2 = dict(replay, model={"outcome": outcome, "effects": effects[:40]})
        run.violation(f"K1 {case['id']}: {m}" + ("" if problems else "; the property's own oracle holds on this input"),
                      replay2, found_input=bool(problems))
    if len(run.samples) < 10 and (exc is not None) and case["via"] == "func" and case["group"] not in [s.get("group") for s in run.samples]:
        run.sample({"id": case["id"], "group": case["group"], "exception": icls, "message": exc["message"][:100].replace(obs["root"], "<root>"),
                    "created": len(obs["created"]), "model": outcome[:3]})


def run(ctx):
    run = ctx.run
    run.rule = ("cases = valid configuration variants (each option alone + random combinations) + every single-constraint "
                "violation on the base, on a pre-populated target and on random valid variants + pairs of violations + "
                "graphqlschema variants/violations + one invalid schema per graphql-core SDL/type-system rule x "
                "{client, graphqlschema} x {fresh, pre-existing target} + one invalid operation per specified rule x "
                "{file, directory, pre-existing target} + syntax errors + duplicate file names + section lookup + CLI "
                "twins + unknown-key twins; non-trivial = distinct case whose run raised or used a non-default option")
    run.assumptions += [
        "graphql-core 3.2.12 parse/validate/build_ast_schema verdicts are the oracle [world] of the pipeline model "
        "(computed by the worker with graphql-core directly, not through the code under test)",
        "configurations are well-typed TOML for the known keys; names and paths are ASCII; paths have no trailing "
        "'.'/'..' components; plugins are importable classes (import errors come from the oracle)",
        "CPython 3.12 pathlib/str.isidentifier/keyword (K2 each run); click CliRunner + toml for the CLI route",
    ]
    k2(run)
    cases = build_cases(ctx)
    run.extra["cases"] = len(cases)
    obs = run_workers(cases)
    by_id = {c["id"]: o for c, o in zip(cases, obs)}
    cmds, index = [], []
    for c, o in zip(cases, obs):
        if "worker_error" in o:
            index.append((0, 0))
            continue
        cm = model_cmds(c, o)
        index.append((len(cmds), len(cm)))
        cmds += cm
    res = model.batch(ENGINE, cmds, chunk=40)
    for r in res:
        if model.is_error(r):
            run.broken("model", str(r))
            return
    for c, o, (st, n) in zip(cases, obs, index):
        twin = by_id.get(c.get("twin")) if c.get("twin") else None
        judge(ctx, c, o, res[st:st + n], twin)
    run.extra["k3_cases_with_expectation"] = sum(1 for c in cases if c["expect"] in ("valid", "invalid"))
