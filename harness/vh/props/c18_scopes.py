"""C18 K3: two distinct GraphQL names in one scope must both remain usable, or generation must fail.

Five scope kinds (response keys of one selection set, fields of one input, variables of one operation,
operations of one client, values of one enum) x colliding pairs predicted by Model/Names.v (process_name maps
both to one Python name) + non-colliding control pairs, through the REAL generator and the REAL generated
package.  A silent merge inside the predicted-collision class is finding F18-silent-merge; anything else
(control pair unusable, crash at import after a successful generation outside the class) is a violation."""
from __future__ import annotations

import json

from .. import model
from ..impl import scen, workers
from ..gen.scenario import Scenario
from ..sexp import Sym

PAIRS = [
    # (a, b, snake) ; control pairs last
    ("fooBar", "foo_bar", True),
    ("class", "class_", False),
    ("_a", "a", False),
    ("HTTPCode", "httpCode", True),
    ("from", "from_", False),
    ("self", "self_", False),
    ("kwargs", "kwargs_", True),
    ("fooBar", "fooBaz", True),
    ("alpha", "beta", False),
]
# variables only: a variable named like a local of the generated method next to its underscore twin (the local has to
# step aside for BOTH); control pairs - nothing collides after mangling, so both must stay usable
LOCAL_PAIRS = [("query", "_query", False), ("variables", "_variables", False), ("response", "_response", False),
               ("data", "_data", False), ("query", "__query", False), ("_query", "__query", False)]
# response keys that are aliases of one field / of __typename (control: distinct keys, distinct Python names)
ALIAS_CASES = [("__typename", "kind", "__typename"), ("kind", "sort", "__typename"), ("x", "y", "x"), ("first", "second", "x")]
# operations only: the result class of an operation is str_to_pascal_case(name) while its module / method is the
# snake-cased name.  First group: class names merge while the modules stay apart (finding F18-operation-class-merge);
# second group: the modules merge (refused: duplicate file names); third group: controls
OP_PAIRS = [("aB", "AB"), ("iD", "ID"), ("xML", "XML"), ("getX", "get_x"), ("a_b", "a_B"), ("aB", "aC"), ("getUser", "listUsers")]
ENUM_PAIRS = [("class", "class_"), ("None", "None_"), ("RED", "GREEN"), ("_INTERNAL", "INTERNAL"), ("mro", "mro_"), ("_order_", "ok"),
              ("fooBar", "foo_bar"), ("A1", "a1")]


def build(scope, a, b, snake):
    cfg = {"convert_to_snake_case": snake, "async_client": False}
    if scope == "selection":
        sdl = f"type Query {{ t: T }}\ntype T {{ {a}: Int {b}: Int }}\n"
        q = f"query Q {{ t {{ {a} {b} }} }}\n"
    elif scope == "input":
        sdl = f"type Query {{ f(i: In): Int }}\ninput In {{ {a}: Int {b}: Int }}\n"
        q = "query Q($i: In) { f(i: $i) }\n"
    elif scope == "variables":
        sdl = "type Query { f(x: Int, y: Int): Int }\n"
        q = f"query Q(${a}: Int, ${b}: Int) {{ f(x: ${a}, y: ${b}) }}\n"
    elif scope == "operations":
        sdl = "type Query { f: Int g: Int }\n"
        q = f"query {a} {{ f }}\nquery {b} {{ g }}\n"
    elif scope == "enum":
        sdl = f"type Query {{ e: E }}\nenum E {{ {a} {b} }}\n"
        q = "query Q { e }\n"
    elif scope == "aliases":
        field = snake                      # third component: the field both keys select
        cfg = {"convert_to_snake_case": False, "async_client": False}
        sdl = "type Query { t: T }\ntype T { x: String }\n"
        sel = " ".join(k if k == field else f"{k}: {field}" for k in (a, b))
        q = f"query Q {{ t {{ {sel} }} }}\n"
    return Scenario(seed=0, sdl=sdl, queries=q, config=cfg, features=("c18", scope, a, b))


PROBES = {
    "selection": """
import json
m = mods["q"].Q.model_validate({"t": {A: 1, B: 2}})
result = m.model_dump(by_alias=True, exclude_unset=True) == {"t": {A: 1, B: 2}}
""",
    "input": """
In = mods["input_types"].In
m = In.model_validate({A: 1, B: 2})
result = m.model_dump(by_alias=True, exclude_unset=True) == {A: 1, B: 2}
""",
    "enum": """
E = pkg.E
result = sorted(x.value for x in E) == sorted([A, B])
""",
    "aliases": """
m = mods["q"].Q.model_validate({"t": {A: "T", B: "T"}})
d = m.model_dump(by_alias=True, exclude_unset=True)
result = d == {"t": {A: "T", B: "T"}} and len(type(m.t).model_fields) == 2
""",
}


def run(ctx):
    run = ctx.run
    flags = lambda snake, trim, res: [snake, trim, res]
    cases = []
    for scope in ("selection", "input", "variables", "operations"):
        for a, b, snake in PAIRS:
            cases.append((scope, a, b, snake))
    for a, b, snake in LOCAL_PAIRS:
        cases.append(("variables", a, b, snake))
    for a, b in OP_PAIRS:
        cases.append(("operations", a, b, True))
    for a, b in ENUM_PAIRS:
        cases.append(("enum", a, b, False))
    for a, b, field in ALIAS_CASES:
        cases.append(("aliases", a, b, field))
    # model prediction: do the two names collide in this scope?
    scope_flags = {"selection": (True, True), "input": (True, True), "variables": (False, False),
                   "operations": (False, False)}
    cmds = []
    for scope, a, b, snake in cases:
        if scope in ("enum", "aliases"):
            continue
        trim, res = scope_flags[scope]
        sn = True if scope == "operations" else snake
        cmds += [[Sym("process"), [sn, trim, res], a], [Sym("process"), [sn, trim, res], b]]
    outs = model.batch("C18", cmds, jobs=1)
    opnames = sorted({x for c in cases if c[0] == "operations" for x in c[1:3]})
    op_class = dict(zip(opnames, model.batch("C18", [[Sym("pascal"), n] for n in opnames], jobs=1)))
    evals = sorted({x for p in ENUM_PAIRS for x in p})
    enum_model = dict(zip(evals, model.batch("C18", [[Sym("enum_member"), v] for v in evals], jobs=1)))
    pred = {}
    i = 0
    for scope, a, b, snake in cases:
        if scope == "enum":
            pa, pb = enum_model[a], enum_model[b]
        elif scope == "aliases":
            pa, pb = ("typename__" if a == "__typename" else a), ("typename__" if b == "__typename" else b)
        else:
            pa, pb = outs[i], outs[i + 1]
            i += 2
        pred[(scope, a, b, snake)] = (pa == pb, pa, pb)
    # operations whose modules differ but whose result classes (Model/Names.v pascal) coincide
    class_merge = {c for c in cases if c[0] == "operations" and not pred[c][0] and op_class[c[1]] == op_class[c[2]]}
    with workers.Scratch() as sc:
        gens = scen.generate([build(*c) for c in cases], sc)
        for case, g in zip(cases, gens):
            scope, a, b, snake = case
            collide, pa, pb = pred[case]
            run.count()
            run.dist("c18_scopes", f"{scope}:{'collide' if collide else 'control'}")
            rep = {"scope": scope, "names": [a, b], "snake": snake, "python_names": [pa, pb],
                   "schema": g.sc.sdl, "queries": g.sc.queries, "config": g.res.get("config")}
            if not g.ok:
                rep["exception"] = g.res.get("exc")
                if collide:
                    run.dist("c18_scopes_outcome", "collision:generation-fails")  # allowed by the property
                else:
                    run.violation(f"distinct non-colliding names {a!r}/{b!r} in one {scope} scope: generation failed "
                                  f"with {g.res['exc'][0]}", rep)
                continue
            if scope == "enum":
                import ast as _ast
                members = [t.id for node in _ast.parse(g.files()["enums.py"]).body if isinstance(node, _ast.ClassDef)
                           for st in node.body if isinstance(st, _ast.Assign) for t in st.targets]
                if members != [pa, pb]:
                    run.violation(f"K1 enum member names for values {a!r},{b!r}: generated {members} model {[pa, pb]}",
                                  dict(rep, generated=members, model=[pa, pb]), found_input=False)
            usable, detail = both_usable(g, scope, a, b, pa, pb)
            rep["detail"] = detail
            if usable:
                run.dist("c18_scopes_outcome", ("collision" if collide else "control") + ":both-usable")
                continue
            what = (f"names {a!r} and {b!r} of one {scope} scope are silently merged into {pa!r} "
                    f"(generation succeeded; {detail})")
            if collide:
                run.finding("F18-silent-merge", what, rep)
                run.dist("c18_scopes_outcome", "collision:silently-merged")
            elif case in class_merge:
                rep["result_classes"] = [op_class[a], op_class[b]]
                run.finding("F18-operation-class-merge",
                            f"operations {a!r} and {b!r} (modules {pa!r}, {pb!r}) share the result class "
                            f"{op_class[a]!r}: generation succeeded; {detail}", rep)
                run.dist("c18_scopes_outcome", "class-collision:silently-merged")
            else:
                run.violation(what, rep)


def both_usable(g, scope, a, b, pa, pb):
    ld = g.start()
    try:
        if not ld.get("ok"):
            return False, "package does not import: " + json.dumps(ld.get("modules"))[:200]
        if scope in PROBES:
            code = f"A, B = {a!r}, {b!r}\n" + PROBES[scope]
            r = g.driver.ask({"cmd": "eval", "code": code})
            if r.get("exc"):
                return False, f"probe raised {r['exc'][0]}: {r['exc'][1][:120]}"
            return bool(r.get("value")), "round trip by GraphQL names loses a key" if not r.get("value") else "ok"
        if scope == "variables":
            params = [p[0] for p in ld["methods"].get("q", {}).get("params", [])]
            if len([p for p in params if p != "kwargs"]) < 2:
                return False, f"method signature {params}"
            r = g.call(method="q", args={params[0]: 1, params[1]: 2}, response={"f": 1})
            v = (r.get("request") or {}).get("variables")
            return v == {a: 1, b: 2} or v == {a: 2, b: 1}, f"sent variables {v}"
        if scope == "operations":
            ms = [m for m in ld["methods"] if m not in ("execute", "get_data")]
            if len(ms) < 2 or pa not in ms or pb not in ms:
                return False, f"client methods {sorted(ms)}"
            # each method must return the model of ITS operation: the response of `a` selects f, that of `b` selects g
            for meth, key, val in ((pa, "f", 1), (pb, "g", 2)):
                r = g.call(method=meth, args={}, response={key: val})
                if r.get("exc") or (r.get("result") or {}).get("dump") != {key: val}:
                    return False, (f"method {meth} given the response {{{key!r}: {val}}} returned "
                                   f"{r.get('result')!r} {r.get('exc') or ''}".strip())
            return True, f"client methods {sorted(ms)}"
    finally:
        g.stop()
    return False, "unknown scope"
