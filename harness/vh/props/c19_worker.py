"""C19 scenario worker: run in a FRESH interpreter (/venv/bin/python -m vh.props.c19_worker < scenario.json).

Generates the client for one schema from every source (single file, each directory layout,
introspection over a loopback HTTP server running graphql-core on the SDL; real httpx, nothing
patched), canonicalises every generated package with `ast`, prints one JSON object."""
from __future__ import annotations

import ast
import contextlib
import io
import json
import os
import shutil
import sys
import tempfile
import threading
import traceback
from http.server import BaseHTTPRequestHandler, ThreadingHTTPServer


# ---------------------------------------------------------------- canonical package
def _field_info(stmt: ast.AnnAssign):
    name = stmt.target.id
    alias = None
    required = stmt.value is None
    default = None
    v = stmt.value
    if isinstance(v, ast.Call) and isinstance(v.func, ast.Name) and v.func.id == "Field":
        kws = {k.arg: k.value for k in v.keywords}
        if "alias" in kws:
            alias = ast.literal_eval(kws["alias"])
        if "default" in kws:
            default = ast.unparse(kws["default"])
        elif "default_factory" in kws:
            lam = kws["default_factory"]
            default = "factory:" + ast.unparse(lam.body if isinstance(lam, ast.Lambda) else lam)
        else:
            required = True
        extra = sorted(k for k in kws if k not in ("alias", "default", "default_factory"))
        if extra:
            default = (default or "") + " +" + ",".join(f"{k}={ast.unparse(kws[k])}" for k in extra)
    elif v is not None:
        default = ast.unparse(v)
    return {"py": name, "wire": alias or name, "ann": ast.unparse(stmt.annotation), "required": required,
            "default": default}


def canon_module(src: str):
    tree = ast.parse(src)
    classes, imports, other = {}, set(), []
    order = []
    for st in tree.body:
        if isinstance(st, ast.ClassDef):
            order.append(st.name)
            fields, methods, rest = [], {}, []
            for b in st.body:
                if isinstance(b, ast.AnnAssign) and isinstance(b.target, ast.Name):
                    fields.append(_field_info(b))
                elif isinstance(b, (ast.FunctionDef, ast.AsyncFunctionDef)):
                    methods[b.name] = {"async": isinstance(b, ast.AsyncFunctionDef), "args": ast.unparse(b.args),
                                       "returns": ast.unparse(b.returns) if b.returns else None,
                                       "body": ast.dump(ast.Module(body=b.body, type_ignores=[]))}
                elif isinstance(b, ast.Pass) or (isinstance(b, ast.Expr) and isinstance(b.value, ast.Constant)
                                                 and isinstance(b.value.value, str)):
                    pass
                else:
                    rest.append(ast.unparse(b))
            classes[st.name] = {"bases": [ast.unparse(x) for x in st.bases], "fields": fields, "methods": methods,
                                "rest": rest}
        elif isinstance(st, ast.ImportFrom):
            for a in st.names:
                imports.add(f"{'.' * st.level}{st.module or ''}:{a.name}")
        elif isinstance(st, ast.Import):
            for a in st.names:
                imports.add(a.name)
        elif isinstance(st, ast.Assign) and len(st.targets) == 1 and isinstance(st.targets[0], ast.Name) \
                and st.targets[0].id == "__all__":
            other.append("__all__=" + json.dumps(sorted(ast.literal_eval(st.value))))
        elif isinstance(st, ast.Expr) and isinstance(st.value, ast.Constant) and isinstance(st.value.value, str):
            pass
        else:
            other.append(ast.unparse(st))
    return {"classes": classes, "class_order": order, "imports": sorted(imports), "other": sorted(other)}


def canon_package(path: str):
    out = {}
    for f in sorted(os.listdir(path)):
        p = os.path.join(path, f)
        if f.endswith(".py") and os.path.isfile(p):
            out[f] = canon_module(open(p, encoding="utf-8").read())
    return out


# ---------------------------------------------------------------- generation
def generate(section: dict, env=None):
    """ariadne_codegen.main.client(config) with stdout captured; returns None or 'module.Class: msg'."""
    from ariadne_codegen.main import client

    buf = io.StringIO()
    old = dict(os.environ)
    if env:
        os.environ.update(env)
    try:
        with contextlib.redirect_stdout(buf):
            client({"tool": {"ariadne-codegen": section}})
        return None
    except BaseException as e:  # noqa
        return {"type": type(e).__module__ + "." + type(e).__name__, "msg": str(e)[:300],
                "tb": traceback.format_exc()[-1200:]}
    finally:
        os.environ.clear()
        os.environ.update(old)


def serve(schema_sdl: str, log: list, tls=None, omit_descriptions=False):
    from graphql import build_schema, graphql_sync

    schema = build_schema(schema_sdl)

    class H(BaseHTTPRequestHandler):
        protocol_version = "HTTP/1.1"

        def do_POST(self):
            n = int(self.headers.get("content-length") or 0)
            body = self.rfile.read(n)
            rec = {"path": self.path, "headers": [[k, v] for k, v in self.headers.items()]}
            try:
                payload = json.loads(body)
                rec["json_keys"] = sorted(payload)
                rec["query"] = payload.get("query")
                query = payload["query"]
                if omit_descriptions:   # a server that answers without any description
                    from graphql import get_introspection_query
                    query = get_introspection_query(descriptions=False, specified_by_url=True, directive_is_repeatable=True,
                                                    schema_description=False, input_value_deprecation=True)
                res = graphql_sync(schema, query)
                out = {"data": res.data}
                if res.errors:
                    out["errors"] = [{"message": e.message} for e in res.errors]
            except Exception as e:  # noqa
                out = {"errors": [{"message": f"bad request: {e}"}]}
            log.append(rec)
            raw = json.dumps(out).encode()
            self.send_response(200)
            self.send_header("Content-Type", "application/json")
            self.send_header("Content-Length", str(len(raw)))
            self.end_headers()
            self.wfile.write(raw)

        def log_message(self, *a):
            pass

    srv = ThreadingHTTPServer(("127.0.0.1", 0), H)
    if tls:
        import ssl

        ctx = ssl.SSLContext(ssl.PROTOCOL_TLS_SERVER)
        ctx.load_cert_chain(tls[0], tls[1])
        srv.socket = ctx.wrap_socket(srv.socket, server_side=True)
    threading.Thread(target=srv.serve_forever, daemon=True).start()
    return srv


def main():
    sc = json.load(sys.stdin)
    work = tempfile.mkdtemp(prefix="c19w-", dir=sc.get("tmp") or None)
    res = {"seed": sc.get("seed"), "sources": {}, "requests": [], "loaded": {}}
    try:
        os.chdir(work)
        defs = sc["defs"]
        sdl = "\n\n".join(defs)
        with open("ops.graphql", "w", encoding="utf-8") as fh:
            fh.write(sc["ops"])
        base = {"queries_path": "ops.graphql", "include_comments": "none"}
        base.update(sc.get("config") or {})

        def run_source(key, section, env=None):
            pkg = "pk_" + key
            section = dict(base, target_package_name=pkg, **section)
            err = generate(section, env)
            res["sources"][key] = {"error": err, "package": None if err else canon_package(pkg)}

        # 1. one file
        with open("schema.graphql", "w", encoding="utf-8") as fh:
            fh.write(sdl)
        run_source("single", {"schema_path": "schema.graphql"})
        # 2. directory layouts
        from pathlib import Path
        from ariadne_codegen.schema import load_graphql_files_from_path
        from graphql import parse

        for i, layout in enumerate(sc.get("layouts") or []):
            root = f"tree{i}"
            for rel, idxs in layout:
                p = os.path.join(root, rel)
                os.makedirs(os.path.dirname(p), exist_ok=True)
                with open(p, "w", encoding="utf-8") as fh:
                    fh.write("\n".join(defs[j] for j in idxs) + ("\n" if i % 2 else ""))
            for rel in sc.get("noise") or []:
                p = os.path.join(root, rel)
                os.makedirs(os.path.dirname(p), exist_ok=True)
                if not os.path.exists(p):
                    with open(p, "w", encoding="utf-8") as fh:
                        fh.write("this is not graphql {{{")
            run_source(f"split{i}", {"schema_path": root})
            try:
                doc = parse(load_graphql_files_from_path(Path(root)))
                res["loaded"][f"split{i}"] = [
                    [type(d).__name__, getattr(getattr(d, "name", None), "value", None)] for d in doc.definitions]
            except Exception as e:  # noqa
                res["loaded"][f"split{i}"] = {"error": type(e).__name__ + ": " + str(e)[:200]}
        # 3. introspection (plain http, headers with $ENV)
        for j, intro in enumerate(sc.get("introspection") or []):
            log: list = []
            srv = serve(sdl, log, tls=intro.get("tls"), omit_descriptions=bool(intro.get("omit_descriptions")))
            scheme = "https" if intro.get("tls") else "http"
            url = f"{scheme}://127.0.0.1:{srv.server_port}/graphql"
            section = {"remote_schema_url": url}
            if "headers" in intro:
                section["remote_schema_headers"] = intro["headers"]
            if "verify" in intro:
                section["remote_schema_verify_ssl"] = intro["verify"]
            run_source(f"intro{j}", section, env=intro.get("env"))
            srv.shutdown()
            srv.server_close()
            res["requests"].append({"key": f"intro{j}", "log": log, "url": url})
        # 4. a history: several generations in THIS process over the SAME configuration dict object, the
        #    environment changing in between (what a long-lived caller of main.client does)
        hist = sc.get("history")
        if hist:
            from ariadne_codegen.main import client
            import copy

            log: list = []
            srv = serve(sdl, log)
            url = f"http://127.0.0.1:{srv.server_port}/graphql"
            cfg = {"tool": {"ariadne-codegen": dict(base, remote_schema_url=url, remote_schema_headers=dict(hist["headers"]),
                                                     target_package_name="pk_hist")}}
            orig = copy.deepcopy(cfg)
            steps = []
            for env in hist["envs"]:
                for k in [k for k in os.environ if k.startswith("C19_")]:
                    del os.environ[k]
                os.environ.update(env)
                n0 = len(log)
                err = None
                try:
                    with contextlib.redirect_stdout(io.StringIO()):
                        client(cfg)
                except BaseException as e:  # noqa
                    err = {"type": type(e).__module__ + "." + type(e).__name__, "msg": str(e)[:300]}
                steps.append({"error": err, "requests": log[n0:], "config_unchanged": cfg == orig,
                              "package": None if err else canon_package("pk_hist")})
                shutil.rmtree("pk_hist", ignore_errors=True)
            srv.shutdown()
            srv.server_close()
            res["history"] = {"url": url, "steps": steps}
    except BaseException:  # noqa
        res["worker_error"] = traceback.format_exc()[-2000:]
    finally:
        os.chdir("/")
        shutil.rmtree(work, ignore_errors=True)
    json.dump(res, sys.stdout)


if __name__ == "__main__":
    main()
