"""C17 case generators: valid configuration variants, single-constraint violations, pairs of violations,
invalid schemas (one per graphql-core rule), invalid operations (one per specified rule), syntax errors,
CLI twins, unknown-key twins, pre-existing target contents.  Pure data; no repo code is touched here."""
from __future__ import annotations

import copy
import json

SCHEMA = """
schema { query: Query mutation: Mutation subscription: Subscription }
scalar DateTime
enum Color { RED GREEN }
interface Node { id: ID! }
type User implements Node { id: ID! name: String color: Color friends: [User!] born: DateTime }
type Dog { id: ID! bark: String name: String }
type Cat { id: ID! name: Int }
union Pet = Dog | Cat
input In { a: Int b: In c: Color }
type Query { hello(x: Int): String me: User need(a: Int!): Int node: Node pet: Pet inp(i: In): Int }
type Mutation { m(i: In): Int }
type Subscription { s: Int t: Int }
"""
SCHEMA_A = """
schema { query: Query mutation: Mutation subscription: Subscription }
scalar DateTime
enum Color { RED GREEN }
interface Node { id: ID! }
type User implements Node { id: ID! name: String color: Color friends: [User!] born: DateTime }
"""
SCHEMA_B = """
type Dog { id: ID! bark: String name: String }
type Cat { id: ID! name: Int }
union Pet = Dog | Cat
input In { a: Int b: In c: Color }
type Query { hello(x: Int): String me: User need(a: Int!): Int node: Node pet: Pet inp(i: In): Int }
type Mutation { m(i: In): Int }
type Subscription { s: Int t: Int }
"""
QUERIES = """
query GetHello($x: Int) { hello(x: $x) }
query GetMe { me { ...UserBits friends { id } } }
mutation DoM($i: In) { m(i: $i) }
fragment UserBits on User { id name color }
"""
QUERIES_A = "query GetHello($x: Int) { hello(x: $x) }\n"
QUERIES_B = "query GetMe { me { id name } }\n"

OLD_FILES = {"out/pkg/client.py": "# old client\n", "out/pkg/__init__.py": "# old init\n",
             "out/pkg/stray.txt": "keep me\n", "out/other/keep.py": "x = 1\n"}


def base_case():
    return {
        "which": "client", "via": "func",
        "files": {"schema.graphql": SCHEMA, "queries.graphql": QUERIES},
        "dirs": ["out"],
        "config": {"tool": {"ariadne-codegen": {
            "schema_path": "{ROOT}/schema.graphql", "queries_path": "{ROOT}/queries.graphql",
            "target_package_path": "{ROOT}/out", "target_package_name": "pkg"}}},
        "envvars": {}, "cwd": ".", "config_file": "pyproject.toml",
        "opts": [], "expect": "valid", "names": [], "constraint": None, "cls": None, "group": "valid",
    }


def sec(c):
    cfg = c["config"]
    if "tool" in cfg and "ariadne-codegen" in cfg["tool"]:
        return cfg["tool"]["ariadne-codegen"]
    return cfg["ariadne-codegen"]


# ---------------- valid options (client) ----------------
def o_schema_dir(c):
    del c["files"]["schema.graphql"]
    c["files"].update({"schemas/b.graphql": SCHEMA_B, "schemas/sub/a.gql": SCHEMA_A,
                       "schemas/notes.txt": "this is { not graphql", "schemas/z.graphqls": "type Extra { e: Int }\n"})
    sec(c)["schema_path"] = "{ROOT}/schemas"


def o_queries_dir(c):
    del c["files"]["queries.graphql"]
    c["files"].update({"qs/b.graphql": QUERIES_B, "qs/deep/a.graphql": QUERIES_A, "qs/readme.md": "{{{"})
    sec(c)["queries_path"] = "{ROOT}/qs"


def o_custom_ops_only(c):
    sec(c)["enable_custom_operations"] = True
    sec(c).pop("queries_path", None)


def o_custom_ops(c):
    sec(c)["enable_custom_operations"] = True


def o_sync(c):
    sec(c)["async_client"] = False


def o_otel(c):
    sec(c)["opentelemetry_client"] = True


def o_custom_base(c):
    c["files"]["my_base.py"] = "class MyBase:\n    def execute(self, *a, **k):\n        ...\n    def get_data(self, r):\n        ...\n"
    sec(c)["base_client_file_path"] = "{ROOT}/my_base.py"
    sec(c)["base_client_name"] = "MyBase"


def o_files(c):
    c["files"]["extra/mixins.py"] = "class M:\n    pass\n"
    c["files"]["extra/more.py"] = "Y = 2\n"
    sec(c)["files_to_include"] = ["{ROOT}/extra/mixins.py", "{ROOT}/extra/more.py"]


def o_scalars(c):
    sec(c)["scalars"] = {"DateTime": {"type": "datetime.datetime"},
                         "Other": {"type": "str", "parse": "a.b.parse_x", "serialize": "a.b.ser_x", "import": "a.b"}}


def mk_comments(v):
    def f(c):
        sec(c)["include_comments"] = v
    f.__name__ = f"o_comments_{v}"
    return f


def o_names(c):
    sec(c).update({"client_name": "MyClient", "client_file_name": "my_client", "enums_module_name": "my_enums",
                   "input_types_module_name": "my_inputs", "fragments_module_name": "my_fragments",
                   "target_package_name": "my_pkg"})


def o_names_odd(c):  # identifiers that are unusual but usable
    sec(c).update({"client_name": "_C1", "client_file_name": "__c", "enums_module_name": "E_",
                   "input_types_module_name": "matchx", "fragments_module_name": "_f9", "target_package_name": "P"})


def o_headers(c):
    sec(c)["remote_schema_headers"] = {"Authorization": "$C17_TOKEN", "X-Lit": "literal", "Y": "$$C17_TOKEN"}
    c["envvars"]["C17_TOKEN"] = "secret"


def o_url_too(c):
    sec(c)["remote_schema_url"] = "http://127.0.0.1:9/graphql"
    sec(c)["remote_schema_verify_ssl"] = False


def o_unknown(c):
    sec(c).update({"zzz": 1, "nested_unknown": {"a": [1, 2], "b": "x"}, "Schema_Path": "nope", "queries": "x"})
    c["config"]["tool"] = dict(c["config"].get("tool", {}), other_tool={"k": "v"})
    c["config"]["project"] = {"name": "demo"}


def o_legacy(c):
    s = c["config"]["tool"].pop("ariadne-codegen")
    if not c["config"]["tool"]:
        del c["config"]["tool"]
    c["config"]["ariadne-codegen"] = s


def o_flags(c):
    sec(c).update({"convert_to_snake_case": False, "include_all_inputs": False, "include_all_enums": False})


def o_relative(c):
    s = sec(c)
    for k in ("schema_path", "queries_path", "target_package_path", "base_client_file_path"):
        if k in s:
            s[k] = s[k].replace("{ROOT}/", "")
    if "files_to_include" in s:
        s["files_to_include"] = [x.replace("{ROOT}/", "") for x in s["files_to_include"]]


def o_default_target(c):
    sec(c).pop("target_package_path", None)
    c["cwd"] = "out"


def o_preexisting(c):
    name = sec(c).get("target_package_name", "pkg")
    for k, v in OLD_FILES.items():
        c["files"][k.replace("out/pkg/", f"out/{name}/")] = v


def o_empty_pkg_dir(c):
    c["dirs"].append("out/" + sec(c).get("target_package_name", "pkg"))


def o_plugins(c):
    sec(c)["plugins"] = ["ariadne_codegen.contrib.shorter_results.ShorterResultsPlugin"]


CLIENT_OPTS = [o_schema_dir, o_queries_dir, o_custom_ops_only, o_custom_ops, o_sync, o_otel, o_custom_base, o_files,
               o_scalars, mk_comments("none"), mk_comments("stable"), mk_comments("timestamp"), mk_comments(True),
               mk_comments(False), o_names, o_names_odd, o_headers, o_url_too, o_unknown, o_flags, o_plugins,
               o_preexisting, o_empty_pkg_dir, o_legacy, o_relative, o_default_target]
EXCLUSIVE = [{"o_custom_ops_only", "o_custom_ops"}, {"o_custom_ops_only", "o_queries_dir"},
             {"o_names", "o_names_odd"}, {"o_preexisting", "o_empty_pkg_dir"}, {"o_relative", "o_default_target"},
             {"o_comments_none", "o_comments_stable", "o_comments_timestamp", "o_comments_True", "o_comments_False"}]
# order matters: structural options first, then legacy (moves the section), then path rewriting
ORDER = {f.__name__: i for i, f in enumerate(CLIENT_OPTS)}


def apply_opts(c, opts):
    names = []
    for f in sorted(opts, key=lambda f: ORDER[f.__name__]):
        n = f.__name__
        if any(n in ex and any(m in ex for m in names) for ex in EXCLUSIVE):
            continue
        if n == "o_default_target" and "o_relative" in names:
            continue
        f(c)
        names.append(n)
    c["opts"] = names
    return c


def valid_client_variants(rng, n_random):
    out = []
    c = base_case()
    c["id"] = "valid/base"
    out.append(c)
    for f in CLIENT_OPTS:
        c = apply_opts(base_case(), [f])
        c["id"] = f"valid/{f.__name__}"
        out.append(c)
    # every pair of options (interacting settings fields are exercised together, not only alone)
    for i, f in enumerate(CLIENT_OPTS):
        for g in CLIENT_OPTS[i + 1:]:
            c = apply_opts(base_case(), [f, g])
            if len(c["opts"]) == 2:
                c["id"] = f"valid/pair/{f.__name__}+{g.__name__}"
                out.append(c)
    for i in range(n_random):
        k = rng.randint(2, 7)
        opts = rng.sample(CLIENT_OPTS, k)
        c = apply_opts(base_case(), opts)
        c["id"] = f"valid/random{i}"
        out.append(c)
    return out


# ---------------- single-constraint violations (client) ----------------
NON_IDENTS = ["1abc", "a-b", "a b", "", "a.b", "é".encode("ascii", "replace").decode() + "x"]  # last: "?x"
KEYWORDS = ["class", "import", "def", "None", "async"]


def setv(key, value, names=None):
    def f(c):
        sec(c)[key] = value
        return names if names is not None else ([value] if isinstance(value, str) and value else [])
    return f


def delv(*keys):
    def f(c):
        for k in keys:
            sec(c).pop(k, None)
        return []
    return f


def v_queries_missing(c):
    sec(c).pop("queries_path", None)
    sec(c).pop("enable_custom_operations", None)
    return ["queries_path"]


def v_pkg_path_file(c):
    c["files"]["afile.txt"] = "x"
    sec(c)["target_package_path"] = "{ROOT}/afile.txt"
    return ["afile.txt"]


def v_base_class_missing(c):
    c["files"]["my_base.py"] = "class MyBase:\n    pass\n"
    sec(c)["base_client_file_path"] = "{ROOT}/my_base.py"
    sec(c)["base_client_name"] = "Nope"
    return ["Nope", "my_base.py"]


def v_base_path_missing(c):
    sec(c)["base_client_file_path"] = "{ROOT}/no_base.py"
    sec(c)["base_client_name"] = "MyBase"
    return ["no_base.py"]


def v_base_path_dir(c):
    sec(c)["base_client_file_path"] = "{ROOT}/out"
    sec(c)["base_client_name"] = "MyBase"
    return ["out"]


def v_base_name_only(c):
    sec(c)["base_client_name"] = "MyBase"
    sec(c).pop("base_client_file_path", None)
    return []


def v_base_path_only(c):
    c["files"]["my_base.py"] = "class MyBase:\n    pass\n"
    sec(c)["base_client_file_path"] = "{ROOT}/my_base.py"
    sec(c).pop("base_client_name", None)
    return []


def v_files_missing(c):
    sec(c)["files_to_include"] = list(sec(c).get("files_to_include", [])) + ["{ROOT}/nope_inc.py"]
    return ["nope_inc.py"]


def v_files_dir(c):
    sec(c)["files_to_include"] = ["{ROOT}/out"] + list(sec(c).get("files_to_include", []))
    return ["out"]


def v_scalar_no_type(c):
    s = dict(sec(c).get("scalars", {}))
    s["Broken"] = {"parse": "a.b"}
    sec(c)["scalars"] = s
    return ["type"]


def v_header_missing(c):
    h = dict(sec(c).get("remote_schema_headers", {}))
    h["Z"] = "$C17_NOPE"
    sec(c)["remote_schema_headers"] = h
    c["envvars"]["C17_NOPE"] = None
    return ["C17_NOPE"]


def v_header_empty(c):
    h = dict(sec(c).get("remote_schema_headers", {}))
    h["Z"] = "$C17_EMPTY"
    sec(c)["remote_schema_headers"] = h
    c["envvars"]["C17_EMPTY"] = ""
    return ["C17_EMPTY"]


def client_violations():
    """(kind, constraint id in the model's table, mutate -> names, finding class or None, incompatible opts)"""
    v = [
        ("no-schema-source", "schema-source", delv("schema_path", "remote_schema_url"), None, ()),
        ("schema-path-missing", "schema-path-exists", setv("schema_path", "{ROOT}/nope.graphql", ["nope.graphql"]), None, ()),
        ("queries-path-not-given", "queries-path-given", v_queries_missing, None, ("o_custom_ops", "o_custom_ops_only")),
        ("queries-path-missing", "queries-path-exists", setv("queries_path", "{ROOT}/nope_q", ["nope_q"]), None, ("o_custom_ops_only",)),
        ("target-path-missing", "target-package-path-dir", setv("target_package_path", "{ROOT}/nodir", ["nodir"]), None, ("o_default_target",)),
        ("target-path-file", "target-package-path-dir", v_pkg_path_file, None, ("o_default_target",)),
        ("base-class-missing", "base-client-class", v_base_class_missing, None, ()),
        ("base-path-missing", "base-client-file", v_base_path_missing, None, ()),
        ("base-path-dir", "base-client-file", v_base_path_dir, None, ()),
        ("base-name-only", "base-client-file", v_base_name_only, None, ("o_custom_base",)),
        ("files-missing", "files-to-include", v_files_missing, None, ()),
        ("files-dir", "files-to-include", v_files_dir, None, ()),
        ("scalar-no-type", None, v_scalar_no_type, None, ()),
        ("header-var-missing", "headers-resolvable", v_header_missing, None, ()),
        ("header-var-empty", "headers-resolvable", v_header_empty, None, ()),
        ("base-path-only", "base-client-name", v_base_path_only, None, ("o_custom_base",)),
        ("plugin-not-importable", None, v_plugin_bad, None, ()),
        ("plugin-no-dot", None, v_plugin_no_dot, None, ()),
    ]
    for bad in ["foo", "", "STABLE", "Timestamp "]:
        v.append((f"comments-{bad!r}", "include-comments", setv("include_comments", bad, [bad] if bad else []), None, ()))
    # include_comments is a CLOSED set (three strings or a boolean): every other TOML value is an unknown mode.
    # 0/1/0.0/1.0 are not booleans (1 == True in Python!); arrays and tables are unhashable; dates are objects.
    for bad, shown in [(0, "0"), (1, "1"), (2, "2"), (-1, "-1"), (0.0, "0.0"), (1.0, "1.0"), (1.5, "1.5"),
                       (["stable"], "stable"), ([], "[]"), ([True], "True"), ({"mode": "stable"}, "stable"), ({}, "{}"),
                       ({"__date__": "2024-02-29"}, "2024-02-29"), ({"__datetime__": "2024-02-29T10:00:00"}, "2024-02-29")]:
        v.append((f"comments-nonstring-{json.dumps(bad)}", "include-comments",
                  setv("include_comments", bad, [shown, "not a valid choice"]), None, ()))
    fields = [("target_package_name", "target-package-name"), ("client_name", "client-name"),
              ("client_file_name", "client-file-name"), ("enums_module_name", "enums-module-name"),
              ("input_types_module_name", "input-types-module-name"), ("fragments_module_name", "fragments-module-name")]
    for key, cid in fields:
        for bad in NON_IDENTS:
            v.append((f"{key}-nonident-{bad!r}", cid, setv(key, bad), None, ("o_names", "o_names_odd")))
        for kw in KEYWORDS:
            # former finding F16 (fixed: /repo 0631414) — kept in the main stream as regression cases
            v.append((f"{key}-keyword-{kw}", cid, setv(key, kw), None, ("o_names", "o_names_odd")))
    for bad in ["1x", "a-b", ""]:
        def f(c, bad=bad):
            c["files"]["my_base.py"] = f"class {bad}:\n    pass\nclass MyBase: pass\n"
            sec(c)["base_client_file_path"] = "{ROOT}/my_base.py"
            sec(c)["base_client_name"] = bad
            return [bad] if bad else []
        if bad:
            v.append((f"base_client_name-nonident-{bad!r}", "base-client-name", f, None, ("o_custom_base",)))
    return v


def violate(base_opts, viol, ident):
    kind, cid, mut, cls, incompatible = viol
    opts = [f for f in base_opts if f.__name__ not in incompatible]
    c = apply_opts(base_case(), [f for f in opts if f.__name__ not in ("o_relative", "o_legacy", "o_default_target")])
    names = mut(c)
    # section moving / path rewriting after the mutation so that they see the final values
    late = [f for f in opts if f.__name__ in ("o_relative", "o_legacy", "o_default_target")]
    for f in sorted(late, key=lambda f: ORDER[f.__name__]):
        if f.__name__ == "o_default_target" and any(g.__name__ == "o_relative" for g in late):
            continue
        f(c)
        c["opts"].append(f.__name__)
    c.update({"id": ident, "expect": "invalid", "names": [n.replace("{ROOT}/", "") for n in names],
              "constraint": cid, "cls": cls, "group": "violation", "kind": kind})
    return c


# ---------------- graphqlschema strategy ----------------
def schema_base():
    c = base_case()
    c["which"] = "schema"
    s = sec(c)
    for k in ("queries_path", "target_package_path", "target_package_name"):
        s.pop(k)
    del c["files"]["queries.graphql"]
    s["target_file_path"] = "{ROOT}/out/schema.py"
    c["group"] = "valid-schema"
    return c


def schema_valid_variants():
    out = []
    for i, (tf, sv, tv, extra) in enumerate([
        ("{ROOT}/out/schema.py", None, None, {}),
        ("{ROOT}/out/s.graphql", None, None, {}),
        ("{ROOT}/out/s.gql", "my_schema", "my_map", {}),
        ("{ROOT}/out/S.PY", "_s", "T9", {"zzz": 3, "queries_path": "{ROOT}/ignored", "client_name": "class"}),
        ("{ROOT}/out/a.b.Gql", None, None, {"remote_schema_url": "http://127.0.0.1:9/"}),
        ("{ROOT}/out/x.tar.py", None, None, {"plugins": []}),
    ]):
        c = schema_base()
        s = sec(c)
        s["target_file_path"] = tf
        if sv:
            s["schema_variable_name"] = sv
        if tv:
            s["type_map_variable_name"] = tv
        s.update(extra)
        c["id"] = f"valid-schema/{i}"
        out.append(c)
    c = schema_base()
    c["files"]["out/schema.py"] = "# old schema file\n"
    c["id"] = "valid-schema/preexisting"
    out.append(c)
    c = schema_base()
    o_schema_dir(c)
    o_headers(c)
    c["id"] = "valid-schema/dir+headers"
    out.append(c)
    c = schema_base()
    sec(c).pop("target_file_path")
    c["cwd"] = "out"
    c["id"] = "valid-schema/default-target"
    out.append(c)
    c = schema_base()
    o_legacy(c)
    c["id"] = "valid-schema/legacy"
    out.append(c)
    return out


def s_pre(c):
    c["files"]["out/schema.py"] = "# old schema file\n"
    c["files"]["out/schema.txt"] = "old txt\n"


def s_graphql_target(c):
    sec(c)["target_file_path"] = "{ROOT}/out/s.graphql"


def s_custom_vars(c):
    sec(c)["schema_variable_name"] = "my_schema"
    sec(c)["type_map_variable_name"] = "my_map"


SCHEMA_OPTS = [o_url_too, o_headers, o_schema_dir, o_unknown, o_plugins, s_pre, s_graphql_target, s_custom_vars, o_legacy]
SCHEMA_INCOMPATIBLE = {"variable-names-equal-default": ("s_custom_vars",), "variable-names-equal-default2": ("s_custom_vars",)}


def schema_violate(opts, viol, ident):
    kind, cid, mut, cls = viol
    c = schema_base()
    early = [f for f in opts if f is not o_legacy]
    for f in early:
        f(c)
    names = mut(c)
    if o_legacy in opts:
        o_legacy(c)
    c.update({"id": ident, "expect": "invalid", "names": [n.replace("{ROOT}/", "") for n in names], "constraint": cid,
              "cls": cls, "group": "violation-schema", "kind": kind, "opts": [f.__name__ for f in opts]})
    return c


def v_plugin_bad(c):
    sec(c)["plugins"] = list(sec(c).get("plugins", [])) + ["c17_no_such_module.NoPlugin"]
    return ["c17_no_such_module"]


def v_plugin_no_dot(c):
    sec(c)["plugins"] = ["NoDotPlugin"] + list(sec(c).get("plugins", []))
    return ["plugin"]


def schema_violations():
    v = [
        ("no-schema-source", "schema-source", delv("schema_path", "remote_schema_url"), None),
        ("schema-path-missing", "schema-path-exists", setv("schema_path", "{ROOT}/nope.graphql", ["nope.graphql"]), None),
        ("header-var-missing", "headers-resolvable", v_header_missing, None),
        ("target-no-suffix", "target-file-type", setv("target_file_path", "{ROOT}/out/schema", ["schema"]), None),
        ("target-dotfile", "target-file-type", setv("target_file_path", "{ROOT}/out/.py", [".py"]), None),
        ("target-trailing-dot", "target-file-type", setv("target_file_path", "{ROOT}/out/schema.", ["schema."]), None),
        ("target-bad-suffix", "target-file-type", setv("target_file_path", "{ROOT}/out/schema.txt", ["txt"]), None),
        ("target-bad-suffix2", "target-file-type", setv("target_file_path", "{ROOT}/out/schema.py.bak", ["bak"]), None),
    ]
    for key, cid in [("schema_variable_name", "schema-variable-name"), ("type_map_variable_name", "type-map-variable-name")]:
        for bad in ["1a", "a-b", "", "a b"]:
            v.append((f"{key}-nonident-{bad!r}", cid, setv(key, bad), None))
        for kw in ["class", "None", "lambda"]:
            v.append((f"{key}-keyword-{kw}", cid, setv(key, kw), None))   # former F16, regression
    # /repo 18e873d: names bound by the imports of the generated module, and the two names must differ
    for key, cid in [("schema_variable_name", "schema-variable-not-reserved"),
                     ("type_map_variable_name", "type-map-variable-not-reserved")]:
        for bad in ["GraphQLSchema", "TypeMap", "cast", "List", "Undefined", "GraphQLObjectType"]:
            v.append((f"{key}-reserved-{bad}", cid, setv(key, bad), None))
    v.append(("variable-names-equal-default", "variable-names-differ", setv("type_map_variable_name", "schema", ["different"]), None))
    v.append(("variable-names-equal-default2", "variable-names-differ", setv("schema_variable_name", "type_map", ["different"]), None))

    def both_same(c):
        sec(c)["schema_variable_name"] = "same_name"
        sec(c)["type_map_variable_name"] = "same_name"
        return ["different"]
    v.append(("variable-names-equal", "variable-names-differ", both_same, None))
    v.append(("plugin-not-importable", None, v_plugin_bad, None))
    v.append(("plugin-no-dot", None, v_plugin_no_dot, None))
    out = []
    for pre in (False, True):
        for viol in v:
            out.append(schema_violate([s_pre] if pre else [], viol, f"violation-schema/{viol[0]}" + ("+pre" if pre else "")))
    # option x violation: every context option that interacts with the settings, each constraint violated
    for opt in SCHEMA_OPTS:
        for viol in v:
            if opt.__name__ in SCHEMA_INCOMPATIBLE.get(viol[0], ()):
                continue
            out.append(schema_violate([opt], viol, f"violation-schema/x-{opt.__name__}/{viol[0]}"))
    # pairs of violations of different constraints (which is reported first; still typed, tree untouched)
    reps = {}
    for viol in v:
        reps.setdefault(viol[1] or viol[0], viol)
    reps = list(reps.values())
    for i, a in enumerate(reps):
        for b2 in reps[i + 1:]:
            c = schema_base()
            a[2](c)
            b2[2](c)
            c.update({"id": f"violation-schema/pair/{a[0]}+{b2[0]}", "expect": "invalid", "names": [], "constraint": None,
                      "cls": None, "group": "violation-pair-schema", "kind": "pair"})
            out.append(c)
    return out


# ---------------- invalid schemas: one per graphql-core rule ----------------
BQ = "type Query { hello: String }\n"
INVALID_SCHEMAS = {
    "no-query-root": "type Foo { a: String }",
    "query-root-not-object": "schema { query: Q }\ninput Q { a: String }",
    "mutation-root-not-object": BQ + "schema { query: Query mutation: M }\nenum M { A }",
    "subscription-root-not-object": BQ + "schema { query: Query subscription: S }\nscalar S",
    "directive-arg-not-input": BQ + "directive @d(a: Query) on FIELD",
    "directive-required-arg-deprecated": BQ + "directive @d(a: Int! @deprecated) on FIELD",
    "reserved-name-type": BQ + "type __Foo { a: String }",
    "reserved-name-field": "type Query { __a: String }",
    "reserved-name-arg": "type Query { a(__x: Int): String }",
    "reserved-name-directive": BQ + "directive @__d on FIELD",
    "reserved-name-enum-value": BQ + "enum E { __A }",
    "object-no-fields": BQ + "type Foo",
    "interface-no-fields": BQ + "interface I",
    "field-type-not-output": BQ + "input In { a: Int }\ntype Foo { a: In }",
    "arg-type-not-input": "type Query { a(x: Query): String }",
    "required-arg-deprecated": "type Query { a(x: Int! @deprecated): String }",
    "implements-non-interface": BQ + "type A { a: Int }\ntype B implements A { a: Int }",
    "implements-itself": BQ + "interface I implements I { a: Int }",
    "implements-twice": BQ + "interface I { a: Int }\ntype B implements I & I { a: Int }",
    "iface-field-missing": BQ + "interface I { a: Int }\ntype B implements I { b: Int }",
    "iface-field-type-mismatch": BQ + "interface I { a: Int }\ntype B implements I { a: String }",
    "iface-arg-missing": BQ + "interface I { a(x: Int): Int }\ntype B implements I { a: Int }",
    "iface-arg-type-mismatch": BQ + "interface I { a(x: Int): Int }\ntype B implements I { a(x: String): Int }",
    "extra-required-arg": BQ + "interface I { a: Int }\ntype B implements I { a(x: Int!): Int }",
    "ancestor-not-implemented": BQ + "interface I { a: Int }\ninterface J implements I { a: Int }\ntype B implements J { a: Int }",
    "union-no-members": BQ + "union U",
    "union-duplicate-member": BQ + "union U = Query | Query",
    "union-non-object-member": BQ + "scalar S\nunion U = S",
    "enum-no-values": BQ + "enum E",
    "input-no-fields": BQ + "input In",
    "input-field-not-input": BQ + "input In { a: Query }",
    "required-input-field-deprecated": BQ + "input In { a: Int! @deprecated }",
    "input-nonnull-cycle": BQ + "input In { a: In! }",
    "oneof-non-nullable": BQ + "input In @oneOf { a: Int! }",
    "oneof-default": BQ + "input In @oneOf { a: Int = 1 }",
    "sdl-lone-schema-definition": BQ + "schema { query: Query }\nschema { query: Query }",
    "sdl-unique-operation-types": BQ + "schema { query: Query query: Query }",
    "sdl-unique-type-names": BQ + "type A { a: Int }\ntype A { b: Int }",
    "sdl-unique-enum-values": BQ + "enum E { A A }",
    "sdl-unique-field-names": "type Query { hello: Int hello: String }",
    "sdl-unique-arg-def-names": "type Query { hello(x: Int, x: Int): Int }",
    "sdl-unique-directive-names": BQ + "directive @d on FIELD\ndirective @d on FIELD",
    "sdl-known-type-names": "type Query { hello: Nope }",
    "sdl-known-directives": "type Query { hello: Int @nope }",
    "sdl-unique-directives-per-location": "type Query { hello: Int @deprecated @deprecated }",
    "sdl-possible-type-extensions": BQ + "extend type Nope { a: Int }",
    "sdl-known-arg-names-on-directives": "type Query { hello: Int @deprecated(nope: 1) }",
    "sdl-unique-argument-names": 'type Query { hello: Int @deprecated(reason: "a", reason: "b") }',
    "sdl-unique-input-field-names": BQ + "input In { a: Int }\ntype T { f(x: In = {a: 1, a: 2}): Int }",
    "sdl-provided-required-args-on-directives": BQ + "directive @d(a: Int!) on FIELD_DEFINITION\ntype T { f: Int @d }",
}
VALID_SMALL_SCHEMAS = {
    "small": BQ,
    "iface": BQ + "interface I { a: Int }\ntype B implements I { a: Int b: Int }",
    "union": BQ + "type D { a: Int }\nunion U = D | Query",
    "custom-directive": BQ + "directive @d(a: Int) on FIELD_DEFINITION\ntype T { f: Int @d(a: 1) }",
}


def schema_rule_cases():
    out = []
    for table, expect, cls, group in ((INVALID_SCHEMAS, "invalid", "F17-invalid-schema-not-rejected", "invalid-schema"),
                                      (VALID_SMALL_SCHEMAS, "valid", None, "valid-small-schema")):
        for rule, sdl in table.items():
            for which in ("client", "schema"):
                for pre in ((False, True) if expect == "invalid" else (False,)):
                    c = base_case() if which == "client" else schema_base()
                    c["files"]["schema.graphql"] = sdl + "\n"
                    if which == "client":
                        c["files"]["queries.graphql"] = "query Q { __typename }\n"
                        if pre:
                            o_preexisting(c)
                    elif pre:
                        c["files"]["out/schema.py"] = "# old schema file\n"
                    c.update({"id": f"{group}/{rule}/{which}" + ("+pre" if pre else ""), "expect": expect, "names": [],
                              "cls": cls, "group": group, "kind": rule})
                    out.append(c)
    return out


# ---------------- invalid operations: one per specified rule ----------------
INVALID_OPS = {
    "ExecutableDefinitionsRule": "query A { hello }\ntype Foo { a: Int }",
    "UniqueOperationNamesRule": "query A { hello }\nquery A { hello }",
    "LoneAnonymousOperationRule": "{ hello }\nquery A { hello }",
    "SingleFieldSubscriptionsRule": "subscription S { s t }",
    "KnownTypeNamesRule": "query A($x: Nope) { hello(x: $x) }",
    "FragmentsOnCompositeTypesRule": "query A { hello ... on String { x } }",
    "VariablesAreInputTypesRule": "query A($x: User) { hello(x: $x) }",
    "ScalarLeafsRule": "query A { me }",
    "FieldsOnCorrectTypeRule": "query A { nope }",
    "UniqueFragmentNamesRule": "query A { me { ...F } }\nfragment F on User { id }\nfragment F on User { name }",
    "KnownFragmentNamesRule": "query A { me { ...Nope } }",
    "PossibleFragmentSpreadsRule": "query A { me { ... on Dog { bark } } }",
    "NoFragmentCyclesRule": "query A { me { ...F } }\nfragment F on User { friends { ...F } }",
    "UniqueVariableNamesRule": "query A($x: Int, $x: Int) { hello(x: $x) }",
    "NoUndefinedVariablesRule": "query A { hello(x: $x) }",
    "NoUnusedVariablesRule": "query A($x: Int) { hello }",
    "KnownDirectivesRule": "query A { hello @nope }",
    "UniqueDirectivesPerLocationRule": "query A { hello @skip(if: true) @skip(if: false) }",
    "KnownArgumentNamesRule": "query A { hello(nope: 1) }",
    "UniqueArgumentNamesRule": "query A { hello(x: 1, x: 2) }",
    "ValuesOfCorrectTypeRule": 'query A { hello(x: "s") }',
    "ProvidedRequiredArgumentsRule": "query A { need }",
    "VariablesInAllowedPositionRule": "query A($x: Int) { need(a: $x) }",
    "OverlappingFieldsCanBeMergedRule": "query A { a: hello(x: 1) a: hello(x: 2) }",
    "UniqueInputFieldNamesRule": "query A { inp(i: {a: 1, a: 2}) }",
    "MaxIntrospectionDepthRule": "query A { __schema { types { fields { type { fields { type { fields { type { fields { name } } } } } } } } } }",
}
# documents made of fragments only (a supported layout: the operations live elsewhere or are built later): the fragment
# is validated against the schema exactly like one that an operation spreads
INVALID_FRAGMENTS_ONLY = {
    "FieldsOnCorrectTypeRule": "fragment F on User { nickname }",
    "KnownTypeNamesRule": "fragment F on Nope { id }",
    "UniqueFragmentNamesRule": "fragment F on User { id }\nfragment F on User { name }",
    "NoFragmentCyclesRule": "fragment F on User { friends { ...F } }",
    "KnownFragmentNamesRule": "fragment F on User { ...Nope }",
    "KnownDirectivesRule": "fragment F on User { id @nope }",
    "FragmentsOnCompositeTypesRule": "fragment F on DateTime { x }",
    "ScalarLeafsRule": "fragment F on User { friends }",
    "PossibleFragmentSpreadsRule": "fragment F on User { ... on Dog { bark } }",
    "KnownArgumentNamesRule": "fragment F on Query { hello(nope: 1) }",
    "ValuesOfCorrectTypeRule": 'fragment F on Query { hello(x: "s") }',
    "ProvidedRequiredArgumentsRule": "fragment F on Query { need }",
}
VALID_OPS = {
    "unused-fragment": "query A { hello }\nfragment F on User { id }",   # NoUnusedFragmentsRule is deliberately not applied
    "mixin-directive": 'query A { me @mixin(from: ".mixins", import: "M") { id } }',
    "typename-abstract": "query A { pet { __typename ... on Dog { bark } } node { id } }",
    "subscription": "subscription S { s }",
}


def operation_rule_cases():
    out = []
    for table, expect, group in ((INVALID_OPS, "invalid", "invalid-operation"), (VALID_OPS, "valid", "valid-operation")):
        for rule, q in table.items():
            for variant in (("file", "dir", "pre") if expect == "invalid" else ("file",)):
                c = base_case()
                if variant == "dir":
                    del c["files"]["queries.graphql"]
                    c["files"]["qs/a.graphql"] = QUERIES_B
                    c["files"]["qs/b.graphql"] = q + "\n"
                    sec(c)["queries_path"] = "{ROOT}/qs"
                else:
                    c["files"]["queries.graphql"] = q + "\n"
                if variant == "pre":
                    o_preexisting(c)
                if rule == "mixin-directive":
                    o_files(c)
                c.update({"id": f"{group}/{rule}/{variant}", "expect": expect, "names": [], "cls": None,
                          "group": group, "kind": rule})
                out.append(c)
    for rule, q in INVALID_FRAGMENTS_ONLY.items():
        for variant in ("file", "two-files", "pre"):
            c = base_case()
            if variant == "two-files":
                del c["files"]["queries.graphql"]
                c["files"]["qs/a.graphql"] = "fragment Fine on User { id }\n"
                c["files"]["qs/b.graphql"] = q + "\n"
                sec(c)["queries_path"] = "{ROOT}/qs"
            else:
                c["files"]["queries.graphql"] = q + "\n"
            if variant == "pre":
                o_preexisting(c)
            c.update({"id": f"invalid-operation/fragments-only-{rule}/{variant}", "expect": "invalid", "names": [],
                      "cls": None, "group": "invalid-operation", "kind": rule})
            out.append(c)
    # an anonymous operation alone is valid GraphQL but cannot be given a method name: ParsingError, typed
    c = base_case()
    c["files"]["queries.graphql"] = "{ hello }\n"
    c.update({"id": "invalid-operation/anonymous-only", "expect": "invalid", "names": ["name"], "cls": None,
              "group": "invalid-operation", "kind": "anonymous"})
    out.append(c)
    # two operations invalid only together, spread over a directory
    c = base_case()
    del c["files"]["queries.graphql"]
    c["files"]["qs/a.graphql"] = "query A { hello }"
    c["files"]["qs/b.graphql"] = "query A { hello }"
    sec(c)["queries_path"] = "{ROOT}/qs"
    c.update({"id": "invalid-operation/duplicate-across-files", "expect": "invalid", "names": ["A"], "cls": None,
              "group": "invalid-operation", "kind": "UniqueOperationNamesRule"})
    out.append(c)
    return out


# ---------------- syntax errors ----------------
BAD_SYNTAX = ["type Query { hello: ", "query A { hello ", "", "   \n", "type Query { hello: String } }", "\"unterminated"]


def syntax_cases():
    out = []
    i = 0
    for bad in BAD_SYNTAX:
        for where in ("schema-file", "schema-dir", "query-file", "query-dir", "schema-file/schema", "schema-dir/schema"):
            which = "schema" if where.endswith("/schema") else "client"
            c = base_case() if which == "client" else schema_base()
            w = where.split("/")[0]
            if w == "schema-file":
                c["files"]["schema.graphql"] = bad
                names = ["schema.graphql"]
            elif w == "schema-dir":
                o_schema_dir(c)
                c["files"]["schemas/sub/m.graphql"] = bad      # sorted between b.graphql and sub/a.gql? no: after both
                names = ["m.graphql"]
            elif w == "query-file":
                c["files"]["queries.graphql"] = bad
                names = ["queries.graphql"]
            else:
                o_queries_dir(c)
                c["files"]["qs/c.gql"] = bad
                names = ["c.gql"]
            if i % 2:
                (o_preexisting(c) if which == "client" else c["files"].__setitem__("out/schema.py", "# old\n"))
            c.update({"id": f"syntax/{where}/{i}", "expect": "invalid", "names": names, "cls": None, "group": "syntax",
                      "kind": where})
            out.append(c)
            i += 1
    # both a schema file and a query file are broken: the schema error comes first
    c = base_case()
    c["files"]["schema.graphql"] = "type Query {"
    c["files"]["queries.graphql"] = "query {"
    c.update({"id": "syntax/both", "expect": "invalid", "names": ["schema.graphql"], "cls": None, "group": "syntax",
              "kind": "both"})
    out.append(c)
    # two broken files in one directory: the first in sorted order is named
    c = base_case()
    o_schema_dir(c)
    c["files"]["schemas/a_bad.graphql"] = "type {"
    c["files"]["schemas/zz_bad.graphql"] = "type {"
    c.update({"id": "syntax/two-bad", "expect": "invalid", "names": ["a_bad.graphql"], "cls": None, "group": "syntax",
              "kind": "two-bad"})
    out.append(c)
    # a directory without any graphql file (observation: outside the property's list of invalid inputs)
    for which in ("client", "schema"):
        c = base_case() if which == "client" else schema_base()
        del c["files"]["schema.graphql"]
        c["files"]["schemas/readme.txt"] = "nothing here"
        sec(c)["schema_path"] = "{ROOT}/schemas"
        c.update({"id": f"observe/empty-schema-dir/{which}", "expect": "observe", "names": [], "cls": None,
                  "group": "observe", "kind": "empty-dir"})
        out.append(c)
    c = base_case()
    del c["files"]["queries.graphql"]
    c["files"]["qs/readme.txt"] = "nothing here"
    sec(c)["queries_path"] = "{ROOT}/qs"
    c.update({"id": "observe/empty-queries-dir", "expect": "observe", "names": [], "cls": None, "group": "observe",
              "kind": "empty-dir"})
    out.append(c)
    return out


# ---------------- duplicate file names inside generate (rejected before mkdir) ----------------
def duplicate_name_cases():
    out = []
    specs = [
        ("op-named-like-client-file", lambda c: c["files"].__setitem__("queries.graphql", "query Client { hello }\n")),
        ("op-named-like-enums", lambda c: c["files"].__setitem__("queries.graphql", "query Enums { hello }\n")),
        ("op-named-base-model", lambda c: c["files"].__setitem__("queries.graphql", "query BaseModel { hello }\n")),
        ("include-named-like-inputs", lambda c: (c["files"].__setitem__("extra/input_types.py", "x=1\n"),
                                                  sec(c).__setitem__("files_to_include", ["{ROOT}/extra/input_types.py"]))),
        ("enums-equals-inputs", lambda c: sec(c).update({"enums_module_name": "same", "input_types_module_name": "same"})),
        ("client-file-equals-fragments", lambda c: sec(c).update({"client_file_name": "fragments"})),
        ("include-named-exceptions", lambda c: (c["files"].__setitem__("extra/exceptions.py", "x=1\n"),
                                                 sec(c).__setitem__("files_to_include", ["{ROOT}/extra/exceptions.py"]))),
        # /repo d2e37b3: __init__.py and the custom-operation modules are part of the check
        ("include-named-init", lambda c: (c["files"].__setitem__("extra/__init__.py", "x=1\n"),
                                           sec(c).__setitem__("files_to_include", ["{ROOT}/extra/__init__.py"]))),
        ("include-named-custom-fields", lambda c: (c["files"].__setitem__("extra/custom_fields.py", "x=1\n"),
                                                    sec(c).update({"files_to_include": ["{ROOT}/extra/custom_fields.py"],
                                                                   "enable_custom_operations": True}))),
        ("op-named-custom-queries", lambda c: (c["files"].__setitem__("queries.graphql", "query CustomQueries { hello }\n"),
                                                sec(c).__setitem__("enable_custom_operations", True))),
        ("two-includes-same-name", lambda c: (c["files"].__setitem__("extra/m.py", "x=1\n"), c["files"].__setitem__("extra2/m.py", "x=2\n"),
                                               sec(c).__setitem__("files_to_include", ["{ROOT}/extra/m.py", "{ROOT}/extra2/m.py"]))),
    ]
    for name, mut in specs:
        for pre in (False, True):
            c = base_case()
            mut(c)
            if pre:
                o_preexisting(c)
            c.update({"id": f"duplicate/{name}" + ("+pre" if pre else ""), "expect": "invalid", "names": ["Duplicated"],
                      "cls": None, "group": "duplicate-names", "kind": name})
            out.append(c)
    # former observation (two operations mapping to one module overwrote each other silently), fixed in
    # /repo d2e37b3: must be refused, typed, naming the file, before anything is written
    for pre in (False, True):
        c = base_case()
        c["files"]["queries.graphql"] = "query GetA { hello }\nquery getA { me { id } }\n"
        if pre:
            o_preexisting(c)
        c.update({"id": "duplicate/ops-same-module" + ("+pre" if pre else ""), "expect": "invalid",
                  "names": ["Duplicated", "get_a.py"], "cls": None, "group": "duplicate-names", "kind": "ops-same-module"})
        out.append(c)
    c = base_case()      # ... also when the colliding operations live in different files
    del c["files"]["queries.graphql"]
    c["files"]["qs/a.graphql"] = "query GetHTTPData { hello }"
    c["files"]["qs/b.graphql"] = "query get_http_data { me { id } }"
    sec(c)["queries_path"] = "{ROOT}/qs"
    c.update({"id": "duplicate/ops-same-module-two-files", "expect": "invalid", "names": ["Duplicated", "get_http_data.py"],
              "cls": None, "group": "duplicate-names", "kind": "ops-same-module"})
    out.append(c)
    return out


# ---------------- section lookup / config file ----------------
# ---------------- the remote route (remote_schema_url, loopback endpoint) ----------------
REMOTE_ROUTES = [  # (route, expect, names)
    ("ok", "valid", []), ("emptyerrors", "valid", []), ("created201", "valid", []),
    ("status500", "invalid", ["500"]), ("status404", "invalid", ["404"]), ("status301", "invalid", ["301"]),
    ("status400", "invalid", ["400"]),
    ("notjson", "invalid", ["json"]), ("list", "invalid", ["format"]), ("nodata", "invalid", ["format"]),
    ("errors", "invalid", ["boom"]), ("datanull", "invalid", ["data"]), ("datalist", "invalid", ["data"]),
    ("dataempty", "invalid", ["introspection"]), ("schemanull", "invalid", ["introspection"]),
    ("notypes", "invalid", ["introspection"]), ("badtypes", "invalid", ["introspection"]),
]
BAD_URLS = [("noscheme", "not-a-url"), ("noscheme", "ftp://127.0.0.1/graphql"), ("noscheme", "localhost/graphql"),
            ("invalid", "http://[::1/graphql")]


def remote_cases():
    out = []
    for which in ("client", "schema"):
        for route, expect, names in REMOTE_ROUTES:
            for pre in ((False, True) if expect == "invalid" else (False,)):
                c = base_case() if which == "client" else schema_base()
                del c["files"]["schema.graphql"]
                s = sec(c)
                s.pop("schema_path")
                s["remote_schema_url"] = "{URL}"
                s["remote_schema_headers"] = {"X-Test": "1"}
                c["remote"] = {"route": route, "sdl": SCHEMA}
                if pre:
                    (o_preexisting(c) if which == "client" else s_pre(c))
                c.update({"id": f"remote/{route}/{which}" + ("+pre" if pre else ""), "expect": expect, "names": names,
                          "cls": None, "group": "remote", "kind": route, "opts": ["remote"]})
                out.append(c)
        for ucls, url in BAD_URLS:
            c = base_case() if which == "client" else schema_base()
            del c["files"]["schema.graphql"]
            s = sec(c)
            s.pop("schema_path")
            s["remote_schema_url"] = url
            c["remote"] = {"urlclass": ucls}
            c.update({"id": f"remote/badurl-{url}/{which}", "expect": "invalid", "names": [url], "cls": None,
                      "group": "remote", "kind": "badurl", "opts": ["remote"]})
            out.append(c)
        # both sources: schema_path is prioritised, whatever the endpoint would answer; nothing may be sent
        for route in ("status500", "notjson", "dataempty", "ok"):
            c = base_case() if which == "client" else schema_base()
            sec(c)["remote_schema_url"] = "{URL}"
            c["remote"] = {"route": route, "sdl": "type Query { other: Int }"}
            c.update({"id": f"remote/both-sources-{route}/{which}", "expect": "valid", "names": [], "cls": None,
                      "group": "remote", "kind": "both", "opts": ["remote", "both"]})
            out.append(c)
        # both sources, broken local schema: the local error is reported, the endpoint is not asked
        c = base_case() if which == "client" else schema_base()
        c["files"]["schema.graphql"] = "type Query {"
        sec(c)["remote_schema_url"] = "{URL}"
        c["remote"] = {"route": "ok", "sdl": SCHEMA}
        c.update({"id": f"remote/both-sources-local-syntax/{which}", "expect": "invalid", "names": ["schema.graphql"],
                  "cls": None, "group": "remote", "kind": "both", "opts": ["remote", "both"]})
        out.append(c)
    # remote schema + invalid operation / header from the environment
    c = base_case()
    del c["files"]["schema.graphql"]
    sec(c).pop("schema_path")
    sec(c)["remote_schema_url"] = "{URL}"
    c["files"]["queries.graphql"] = "query A { nope }\n"
    c["remote"] = {"route": "ok", "sdl": SCHEMA}
    c.update({"id": "remote/ok-invalid-operation", "expect": "invalid", "names": ["nope"], "cls": None, "group": "remote",
              "kind": "op", "opts": ["remote"]})
    out.append(c)
    c = base_case()
    del c["files"]["schema.graphql"]
    sec(c).pop("schema_path")
    sec(c)["remote_schema_url"] = "{URL}"
    sec(c)["remote_schema_headers"] = {"Authorization": "$C17_NOPE"}
    c["envvars"]["C17_NOPE"] = None
    c["remote"] = {"route": "ok", "sdl": SCHEMA}
    c.update({"id": "remote/header-var-missing", "expect": "invalid", "names": ["C17_NOPE"], "cls": None, "group": "remote",
              "kind": "header", "opts": ["remote"], "constraint": "headers-resolvable"})
    out.append(c)
    return out


# ---------------- malformed stream: known keys with values of the wrong TOML kind ----------------
WRONG = {"str": [5, True, ["a"], {"k": "v"}, 1.5], "bool": ["yes", 0, []], "strlist": ["abc", 7, {"a": 1}, [1, 2]],
         "strdict": ["x", 3, ["a"], {"A": 5}], "comments": [],   # in scope: see client_violations (closed set)
         "scalars": ["x", 3, {"X": "str"}, {"X": {"type": 5}}]}


def malformed_cases(field_kinds):
    """One case per (field, wrong-kind value).  Outside the typed scope of the model (it answers Ill); the
    half of the property that applies to ANY failure is still enforced: nothing written before failing,
    configuration not mutated.  The exception classes are reported in the evidence."""
    out = []
    client_only = None
    for name, kind in field_kinds:
        which = "schema" if name in ("target_file_path", "schema_variable_name", "type_map_variable_name") else "client"
        for i, val in enumerate(WRONG[kind]):
            c = base_case() if which == "client" else schema_base()
            sec(c)[name] = val
            if i % 2:
                (o_preexisting(c) if which == "client" else s_pre(c))
            c.update({"id": f"malformed/{name}/{i}", "expect": "malformed", "names": [], "cls": None,
                      "group": "malformed", "kind": f"{name}:{kind}", "opts": []})
            out.append(c)
    return out


# ---------------- plugins whose process_schema rewrites the schema ----------------
PLUGIN_SCHEMA = """
type Query { user(id: Int): User internalStats: Int hello: String }
type User { id: ID! name: String }
"""
PLUGIN_SRC = {
    "remove_field": """
from ariadne_codegen.plugins.base import Plugin


class P(Plugin):
    def process_schema(self, schema):
        schema.query_type.fields.pop("internalStats", None)
        return schema
""",
    "change_arg_type": """
from graphql import GraphQLArgument, GraphQLID, GraphQLNonNull

from ariadne_codegen.plugins.base import Plugin


class P(Plugin):
    def process_schema(self, schema):
        schema.query_type.fields["user"].args["id"] = GraphQLArgument(GraphQLNonNull(GraphQLID))
        return schema
""",
    "add_field": """
from graphql import GraphQLField, GraphQLInt

from ariadne_codegen.plugins.base import Plugin


class P(Plugin):
    def process_schema(self, schema):
        schema.query_type.fields["extraCount"] = GraphQLField(GraphQLInt)
        return schema
""",
    "identity": """
from ariadne_codegen.plugins.base import Plugin


class P(Plugin):
    def process_schema(self, schema):
        return schema
""",
}
PLUGIN_OPS = {  # name -> (query, valid before process_schema?, names to be mentioned when invalid)
    "select-removed": ("query A { internalStats }", ["internalStats"]),
    "int-variable": ("query A($id: Int) { user(id: $id) { id } }", ["$id"]),
    "id-variable": ("query A($id: ID!) { user(id: $id) { id } }", ["$id"]),
    "select-added": ("query A { extraCount }", ["extraCount"]),
    "plain": ("query A { hello }", []),
}
# (plugin, operation) -> is the operation valid for the schema the generator uses (after process_schema)?
PLUGIN_EXPECT = {
    ("remove_field", "select-removed"): False, ("remove_field", "plain"): True, ("remove_field", "int-variable"): True,
    ("change_arg_type", "int-variable"): False, ("change_arg_type", "id-variable"): True, ("change_arg_type", "plain"): True,
    ("add_field", "select-added"): True, ("add_field", "plain"): True, ("add_field", "select-removed"): True,
    ("identity", "select-removed"): True, ("identity", "int-variable"): True, ("identity", "id-variable"): False,
    ("identity", "select-added"): False,
}
_PLUGIN_COUNTER = [0]


def plugin_schema_cases():
    out = []
    for (plugin, opname), ok in PLUGIN_EXPECT.items():
        for pre in ((False, True) if not ok else (False,)):
            _PLUGIN_COUNTER[0] += 1
            mod = f"c17_plugin_{plugin}_{_PLUGIN_COUNTER[0]}"
            c = base_case()
            c["files"]["schema.graphql"] = PLUGIN_SCHEMA
            c["files"]["queries.graphql"] = PLUGIN_OPS[opname][0] + "\n"
            c["files"][mod + ".py"] = PLUGIN_SRC[plugin]
            sec(c)["plugins"] = [mod + ".P"]
            c["local_plugins"] = True
            if pre:
                o_preexisting(c)
            c.update({"id": f"plugin-schema/{plugin}/{opname}" + ("+pre" if pre else ""),
                      "expect": "valid" if ok else "invalid", "names": [] if ok else PLUGIN_OPS[opname][1], "cls": None,
                      "group": "plugin-schema", "kind": f"{plugin}/{opname}", "opts": ["plugin"]})
            out.append(c)
    # two plugins in order: the first hides the field, the second would need it (order of process_schema)
    _PLUGIN_COUNTER[0] += 1
    m1, m2 = f"c17_plugin_a_{_PLUGIN_COUNTER[0]}", f"c17_plugin_b_{_PLUGIN_COUNTER[0]}"
    c = base_case()
    c["files"]["schema.graphql"] = PLUGIN_SCHEMA
    c["files"]["queries.graphql"] = "query A { internalStats extraCount }\n"
    c["files"][m1 + ".py"] = PLUGIN_SRC["add_field"]
    c["files"][m2 + ".py"] = PLUGIN_SRC["remove_field"]
    sec(c)["plugins"] = [m1 + ".P", m2 + ".P"]
    c["local_plugins"] = True
    o_preexisting(c)
    c.update({"id": "plugin-schema/add-then-remove/select-both", "expect": "invalid", "names": ["internalStats"], "cls": None,
              "group": "plugin-schema", "kind": "two-plugins", "opts": ["plugin"]})
    out.append(c)
    return out


def section_cases():
    out = []
    c = base_case()
    c["config"] = {"tool": {"other": {}}}
    c.update({"id": "section/missing", "expect": "invalid", "names": ["ariadne-codegen"], "group": "section", "kind": "missing"})
    out.append(c)
    c = base_case()
    c["config"] = {}
    c.update({"id": "section/empty-config", "expect": "invalid", "names": ["ariadne-codegen"], "group": "section", "kind": "missing"})
    out.append(c)
    c = base_case()          # tool table without the section, legacy section present: legacy is used
    s = c["config"]["tool"].pop("ariadne-codegen")
    c["config"]["tool"]["black"] = {"line-length": 88}
    c["config"]["ariadne-codegen"] = s
    c.update({"id": "section/legacy-next-to-tool", "expect": "valid", "group": "section", "kind": "legacy"})
    out.append(c)
    c = base_case()          # both: [tool.ariadne-codegen] wins; the legacy one is broken and must not matter
    c["config"]["ariadne-codegen"] = {"schema_path": "{ROOT}/nope"}
    c.update({"id": "section/both", "expect": "valid", "group": "section", "kind": "both"})
    out.append(c)
    for which in ("client", "schema"):
        c = base_case() if which == "client" else schema_base()
        c["via"] = "cli"
        c["config_file"] = None
        c.update({"id": f"section/config-file-not-found/{which}", "expect": "invalid", "names": ["missing.toml"],
                  "group": "section", "kind": "config-not-found"})
        out.append(c)
    return out


def as_cli(c):
    d = copy.deepcopy(c)
    d["via"] = "cli"
    d["id"] = "cli:" + c["id"]
    d["twin"] = c["id"]
    return d


def with_unknown_keys(c, rng):
    d = copy.deepcopy(c)
    cfg = d["config"]
    s = None
    if isinstance(cfg, dict):
        if "tool" in cfg and isinstance(cfg["tool"], dict) and "ariadne-codegen" in cfg["tool"]:
            s = cfg["tool"]["ariadne-codegen"]
        elif "ariadne-codegen" in cfg:
            s = cfg["ariadne-codegen"]
    if s is None:
        return None
    pool = ["zzz", "Schema_path", "queries", "target", "client", "x-y", "scalar", "plugin", "include_comment",
            "schema_path_", "_schema_path", "files", "async", "target_file", "tool"]
    vals = [1, "s", True, [1, "a"], {"k": "v"}, 1.5, [], {}]
    items = list(s.items())
    for _ in range(rng.randint(1, 4)):
        k = rng.choice(pool) + rng.choice(["", "2", "_x"])
        if k in s:
            continue
        items.insert(rng.randint(0, len(items)), (k, rng.choice(vals)))
    s.clear()
    s.update(items)
    d["id"] = "unknown-keys:" + c["id"]
    d["twin"] = c["id"]
    return d
