"""Delta debugging of a failing C04 case with the real generator as the oracle.

A candidate keeps the failure when the K3 verdict of the candidate shows a problem of the same kind with the same
signature (exception class for crashes, error class for import failures).  Passes, greedily, one parallel batch
per round: drop operations, drop selections, drop unused fragments, options back to defaults, drop schema
types, drop schema fields.  Every candidate is validated with graphql-core before it is run."""
from __future__ import annotations

import copy
import re

from graphql import (FieldNode, FragmentDefinitionNode, FragmentSpreadNode, InlineFragmentNode, OperationDefinitionNode,
                     Visitor, parse, print_ast, visit)

from ..gen import c04_streams as S
from ..gen.scenario import Scenario
from ..impl import scen

BATCH = 28


def signature(kind: str, detail: str) -> tuple:
    m = re.search(r"([A-Za-z_.]*(?:Error|Exception|InvalidInput|NotSupported))", detail)
    return (kind, m.group(1).split(".")[-1] if m and kind in ("generation-crash", "import-failed") else "")


def _mk(sc: Scenario, **kw) -> Scenario:
    d = dict(seed=sc.seed, sdl=sc.sdl, queries=sc.queries, config=dict(sc.config), features=sc.features,
             files=dict(sc.files), notes=dict(sc.notes))
    d.update(kw)
    return Scenario(**d)


def _used_fragments(defs) -> set:
    frs = {d.name.value: d for d in defs if isinstance(d, FragmentDefinitionNode)}
    used, todo = set(), [d for d in defs if isinstance(d, OperationDefinitionNode)]

    class V(Visitor):
        def enter_fragment_spread(self, n, *_):
            if n.name.value not in used and n.name.value in frs:
                used.add(n.name.value)
                todo.append(frs[n.name.value])

    while todo:
        visit(todo.pop(), V())
    return used


def _prune_vars(op):
    used = set()

    class V(Visitor):
        def enter_variable(self, n, *_):
            used.add(n.name.value)

    visit(op.selection_set, V())
    for d in op.directives or ():
        visit(d, V())
    op.variable_definitions = tuple(v for v in op.variable_definitions or () if v.variable.name.value in used)


def _selection_sets(d):
    out = []

    def walk(ss):
        out.append(ss)
        for s in ss.selections:
            if isinstance(s, (FieldNode, InlineFragmentNode)) and s.selection_set:
                walk(s.selection_set)

    walk(d.selection_set)
    return out


def candidates(sc: Scenario, which: str) -> list:
    out = []
    if sc.queries is None:
        which = which if which in ("config", "types", "fields") else None
    if which == "ops":
        defs = list(parse(sc.queries, no_location=True).definitions)
        ops = [d for d in defs if isinstance(d, OperationDefinitionNode)]
        if len(ops) > 1:
            for o in ops:
                out.append(_mk(sc, queries=_print([d for d in defs if d is not o])))
    elif which == "fragments":
        defs = list(parse(sc.queries, no_location=True).definitions)
        used = _used_fragments(defs)
        unused = [d for d in defs if isinstance(d, FragmentDefinitionNode) and d.name.value not in used]
        if unused:
            out.append(_mk(sc, queries=_print([d for d in defs if d not in unused])))
            if len(unused) > 1:
                for u in unused:
                    out.append(_mk(sc, queries=_print([d for d in defs if d is not u])))
    elif which == "selections":
        defs = list(parse(sc.queries, no_location=True).definitions)
        for di, d in enumerate(defs):
            for si, ss in enumerate(_selection_sets(d)):
                if len(ss.selections) < 2:
                    continue
                for k in range(len(ss.selections)):
                    nd = copy.deepcopy(defs)
                    target = _selection_sets(nd[di])[si]
                    target.selections = tuple(s for j, s in enumerate(target.selections) if j != k)
                    for x in nd:
                        if isinstance(x, OperationDefinitionNode):
                            _prune_vars(x)
                    out.append(_mk(sc, queries=_print(nd)))
    elif which == "config":
        for k in list(sc.config):
            cfg = {a: b for a, b in sc.config.items() if a != k}
            out.append(_mk(sc, config=cfg))
    elif which in ("types", "fields"):
        sdl_defs = list(parse(sc.sdl, no_location=True).definitions)
        if which == "types":
            for t in sdl_defs:
                if getattr(t, "name", None) and t.name.value not in ("Query",):
                    out.append(_mk(sc, sdl=_print([d for d in sdl_defs if d is not t])))
        else:
            for ti, t in enumerate(sdl_defs):
                fs = getattr(t, "fields", None)
                if fs and len(fs) > 1:
                    for k in range(len(fs)):
                        nd = copy.deepcopy(sdl_defs)
                        nd[ti].fields = tuple(f for j, f in enumerate(nd[ti].fields) if j != k)
                        out.append(_mk(sc, sdl=_print(nd)))
    ok = []
    for c in out:
        if c.queries is None:
            try:
                S.schema_of(c.sdl)
                ok.append(c)
            except Exception:
                pass
        elif S.valid(c.sdl, c.queries):
            ok.append(c)
    return ok


def _print(defs) -> str:
    return "\n\n".join(print_ast(d) for d in defs) + "\n"


def shrink(case, kind: str, detail: str, scratch, rounds: int = 12):
    from . import c04

    sig = signature(kind, detail)
    cur = case.sc
    tests = 0
    passes = ["ops", "selections", "fragments", "config", "types", "fields"]
    pi = 0
    stale = 0
    offset = 0
    for _ in range(rounds):
        if stale >= len(passes):
            break
        cands = candidates(cur, passes[pi])
        batch = cands[offset:offset + BATCH]
        if not batch:
            pi, offset, stale = (pi + 1) % len(passes), 0, stale + 1
            continue
        cs = [c04.Case0(c, case.stream) for c in batch]
        gens, loads = c04.execute(cs, scratch)
        tests += len(batch)
        hit = None
        for c, g, ld in zip(cs, gens, loads):
            v = c04.judge(c, g, ld)
            if any(signature(k, d) == sig for k, d in v["problems"]):
                hit = c.sc
                break
        if hit is not None:
            cur, offset, stale = hit, 0, 0
        elif offset + BATCH < len(cands):
            offset += BATCH
        else:
            pi, offset, stale = (pi + 1) % len(passes), 0, stale + 1
    return c04.Case0(cur, case.stream), tests
