"""Seeded schema + operations generator for C19.

A scenario is a list of self-contained SDL definition texts (so that any partition of them into
files is again a list of parsable documents), an operations document, and feature flags.
Kept away from defects owned by other properties (F2, F5, F7, F23: no condition-less inline
fragments, no quotes in operation literals, no variables called self/kwargs, inline fragments only
on concrete member types)."""
from __future__ import annotations

import random

SCALARS = ["Int", "Float", "String", "Boolean", "ID"]


def _desc(rng, on, what):
    if not on or rng.random() < 0.4:
        return ""
    if rng.random() < 0.5:
        return f'"""{what} description"""\n'
    return f'"{what}"\n'


def lit_for(rng, t, enums, inputs, depth=0):
    """A literal of named type t (no wrappers); returns SDL text."""
    if t == "Int":
        return str(rng.choice([0, 1, 7, -3, 42, 100000]))
    if t == "Float":
        return rng.choice(["1.5", "0.25", "-2.5", "3", "10.75"])
    if t == "String":
        return rng.choice(['"x"', '""', '"hello world"', '"he\\"llo"', '"tab\\there"', '"uni \\u00e9"', '"it\'s"'])
    if t == "Boolean":
        return rng.choice(["true", "false"])
    if t == "ID":
        return rng.choice(['"id-1"', "5"])
    if t in enums:
        return rng.choice(enums[t])
    if t in inputs:
        # object literal over the scalar-typed fields of that input (required ones always)
        parts = []
        for (fname, ftype, base, has_def, _dep) in inputs[t]:
            required = ftype.endswith("!") and not has_def
            if base in SCALARS and "[" not in ftype and (required or rng.random() < 0.6):
                parts.append(f"{fname}: {lit_for(rng, base, enums, inputs, depth + 1)}")
            elif required:
                return None
        return "{" + ", ".join(parts) + "}"
    # custom scalar: any literal
    # custom scalar: any scalar literal (an object/list default of a custom scalar cannot even be served by a
    # graphql-core server: ast_from_value refuses it, so the introspection route would not exist)
    return rng.choice(['"2020-01-01"', "12", "1.5", "true"])


def gen(seed: int, big: bool = False):
    rng = random.Random(seed)
    descriptions = rng.random() < 0.5
    with_ext = rng.random() < 0.3
    custom_roots = rng.random() < 0.3
    defs: list[str] = []
    feat = {"descriptions": descriptions, "extensions": with_ext, "custom_roots": custom_roots}

    customs = [f"Sc{i}" for i in range(rng.randint(0, 2))]
    for s in customs:
        defs.append(_desc(rng, descriptions, s) + f"scalar {s}")

    enums = {}
    for i in range(rng.randint(1, 3)):
        name = f"En{i}"
        vals = rng.sample(["RED", "GREEN", "BLUE", "LOW", "HIGH", "A_1", "none_"], rng.randint(2, 4))
        enums[name] = vals
        body = []
        for k, v in enumerate(vals):
            dep = " @deprecated" if (k > 0 and rng.random() < 0.15) else ""
            body.append("  " + _desc(rng, descriptions, v).replace("\n", " ") + v + dep)
        defs.append(_desc(rng, descriptions, name) + f"enum {name} {{\n" + "\n".join(body) + "\n}")

    # ---- input objects ----
    ninputs = rng.randint(1, 4 if not big else 6)
    input_names = [f"In{i}" for i in range(ninputs)]
    inputs: dict[str, list] = {}
    ndefaults = ndeprecated = nnonnull_default = 0
    kinds = set()
    for idx, name in enumerate(input_names):
        fields = []
        nfields = rng.randint(1, 6)
        for j in range(nfields):
            fname = rng.choice(["a", "b", "count", "name", "flag", "val", "item", "opt", "kind", "data"]) + str(j)
            pool = SCALARS + list(enums) + customs + input_names[:idx]  # earlier inputs only: no cycles in defaults
            if rng.random() < 0.15:
                pool = [name] + input_names  # recursive / forward reference, nullable only
                base = rng.choice(pool)
                ftype = rng.choice([base, f"[{base}!]", f"[{base}]"])
                fields.append((fname, ftype, base, False, False))
                continue
            base = rng.choice(pool)
            shape = rng.choice(["T", "T", "T!", "T!", "[T]", "[T!]", "[T!]!", "[[T]]"])
            ftype = shape.replace("T", base)
            has_def = rng.random() < 0.5
            default = None
            if has_def:
                one = lambda: lit_for(rng, base, enums, inputs)
                if shape.startswith("[["):
                    items = [one() for _ in range(rng.randint(0, 2))]
                    default = None if None in items else "[[" + ", ".join(items) + "]]"
                elif shape.startswith("["):
                    items = [one() for _ in range(rng.randint(0, 3))]
                    default = None if None in items else "[" + ", ".join(items) + "]"
                    if default is not None and items and rng.random() < 0.1:
                        default = items[0]  # single value coerced to a list
                else:
                    default = one()
                    if not ftype.endswith("!") and rng.random() < 0.1:
                        default = "null"
                if default is None:
                    has_def = False
            dep = (not ftype.endswith("!") or has_def) and rng.random() < 0.12
            fields.append((fname, ftype, base, has_def, dep))
            text_default = f" = {default}" if has_def else ""
            if has_def:
                ndefaults += 1
                if ftype.endswith("!"):
                    nnonnull_default += 1
                d = default.lstrip("[")
                kinds.add("null" if default == "null" else "object" if d.startswith("{") else "list" if default.startswith("[")
                          else "string" if d.startswith('"') else "bool" if d in ("true", "false")
                          else "enum" if d[:1].isalpha() else "float" if "." in d else "int")
            if dep:
                ndeprecated += 1
            fields[-1] = (fname, ftype, base, has_def, dep, text_default)
        inputs[name] = [f[:5] for f in fields]
        lines = []
        for f in fields:
            text_default = f[5] if len(f) > 5 else ""
            dep = ' @deprecated(reason: "old")' if f[4] else ""
            lines.append("  " + _desc(rng, descriptions, f[0]).replace("\n", " ") + f"{f[0]}: {f[1]}{text_default}{dep}")
        if with_ext and len(lines) > 1 and rng.random() < 0.6:
            cut = rng.randint(1, len(lines) - 1)
            defs.append(_desc(rng, descriptions, name) + f"input {name} {{\n" + "\n".join(lines[:cut]) + "\n}")
            defs.append(f"extend input {name} {{\n" + "\n".join(lines[cut:]) + "\n}")
        else:
            defs.append(_desc(rng, descriptions, name) + f"input {name} {{\n" + "\n".join(lines) + "\n}")
    feat.update(input_defaults=ndefaults, input_deprecated=ndeprecated, nonnull_defaults=nnonnull_default,
                default_kinds=sorted(kinds))

    # ---- output types ----
    ifaces = [f"Iface{i}" for i in range(rng.randint(0, 2))]
    for n in ifaces:
        defs.append(_desc(rng, descriptions, n) + f"interface {n} {{\n  id: ID!\n  label{n[-1]}: String\n}}")
    objs = [f"Obj{i}" for i in range(rng.randint(2, 4))]
    obj_ifaces = {}
    obj_fields = {}
    for n in objs:
        impl = [i for i in ifaces if rng.random() < 0.6]
        obj_ifaces[n] = impl
        fl = [("id", "ID!")] + [(f"label{i[-1]}", "String") for i in impl]
        for j in range(rng.randint(1, 4)):
            base = rng.choice(SCALARS + list(enums) + customs)
            shape = rng.choice(["T", "T!", "[T!]", "[T]!"])
            fl.append((f"f{j}{n[-1]}", shape.replace("T", base)))  # unique per object: no merge conflicts
        if rng.random() < 0.5:
            fl.append(("other", rng.choice(objs)))
        obj_fields[n] = fl
        head = f"type {n}" + (" implements " + " & ".join(impl) if impl else "")
        lines = ["  " + _desc(rng, descriptions, a).replace("\n", " ") + f"{a}: {b}" +
                 (" @deprecated" if a.startswith("f") and rng.random() < 0.1 else "") for a, b in fl]
        if with_ext and len(lines) > 2 and rng.random() < 0.5:
            cut = rng.randint(1, len(lines) - 1)
            defs.append(_desc(rng, descriptions, n) + head + " {\n" + "\n".join(lines[:cut]) + "\n}")
            defs.append(f"extend type {n} {{\n" + "\n".join(lines[cut:]) + "\n}")
        else:
            defs.append(_desc(rng, descriptions, n) + head + " {\n" + "\n".join(lines) + "\n}")
    unions = []
    if rng.random() < 0.6:
        members = rng.sample(objs, rng.randint(1, len(objs)))
        unions.append(("Un0", members))
        defs.append(_desc(rng, descriptions, "Un0") + "union Un0 = " + " | ".join(members))

    # ---- roots ----
    qname = "RootQ" if custom_roots else "Query"
    mname = "RootM" if custom_roots else "Mutation"
    root_fields = []
    ops = []
    targets = [(o, "obj") for o in objs] + [(i, "iface") for i in ifaces] + [(u, "union") for u, _ in unions]
    for k in range(rng.randint(2, 5)):
        tname, tk = rng.choice(targets)
        args = []
        for a in range(rng.randint(0, 3)):
            base = rng.choice(input_names + input_names + list(enums) + SCALARS + customs)
            shape = rng.choice(["T", "T!", "[T!]", "[T!]!"])
            aname = f"arg{a}"
            args.append((aname, shape.replace("T", base), base))
        rshape = rng.choice(["T", "T!", "[T!]!", "[T]"])
        root_fields.append((f"get{k}", args, rshape.replace("T", tname), tname, tk))
    has_mut = rng.random() < 0.6
    mut_fields = []
    if has_mut:
        for k in range(rng.randint(1, 2)):
            tname = rng.choice(objs)
            base = rng.choice(input_names)
            mut_fields.append((f"put{k}", [("input", base + "!", base)], tname, tname, "obj"))

    def field_line(f):
        a = ", ".join(f"{n}: {t}" for n, t, _ in f[1])
        return f"  {f[0]}" + (f"({a})" if a else "") + f": {f[2]}"

    defs.append(_desc(rng, descriptions, qname) + f"type {qname} {{\n" + "\n".join(field_line(f) for f in root_fields) + "\n}")
    if has_mut:
        defs.append(f"type {mname} {{\n" + "\n".join(field_line(f) for f in mut_fields) + "\n}")
    if custom_roots:
        defs.append(_desc(rng, descriptions, "schema") + "schema {\n  query: " + qname + ("\n  mutation: " + mname if has_mut else "") + "\n}")
    if rng.random() < 0.3:
        defs.append('directive @tag(name: String = "x") on FIELD_DEFINITION | OBJECT')

    # ---- operations ----
    def sel_for(tname, tk, depth=0):
        if tk == "obj":
            names = [a for a, b in obj_fields[tname] if a != "other"]
            pick = [n for n in names if rng.random() < 0.7] or ["id"]
            s = " ".join(pick)
            if depth == 0 and any(a == "other" for a, _ in obj_fields[tname]) and rng.random() < 0.5:
                other = dict(obj_fields[tname])["other"]
                s += " other { " + sel_for(other, "obj", 1) + " }"
            return s
        if tk == "iface":
            impls = [o for o in objs if tname in obj_ifaces[o]]
            s = "__typename id"
            for o in impls:
                if rng.random() < 0.7:
                    s += f" ... on {o} {{ " + sel_for(o, "obj", 1) + " }"
            return s
        members = dict(unions)[tname]
        s = "__typename"
        for o in members:
            if rng.random() < 0.8:
                s += f" ... on {o} {{ " + sel_for(o, "obj", 1) + " }"
        return s

    for kind, fs in (("query", root_fields), ("mutation", mut_fields)):
        for f in fs:
            if kind == "query" and rng.random() < 0.25:
                continue
            vars_ = ", ".join(f"${n}: {t}" for n, t, _ in f[1])
            call = ", ".join(f"{n}: ${n}" for n, _, _ in f[1])
            opname = f[0][0].upper() + f[0][1:] + "Op"
            ops.append(f"{kind} {opname}" + (f"({vars_})" if vars_ else "") + " {\n  " + f[0] +
                       (f"({call})" if call else "") + " { " + sel_for(f[3], f[4]) + " }\n}")
    if not ops:
        f = root_fields[0]
        vars_ = ", ".join(f"${n}: {t}" for n, t, _ in f[1])
        call = ", ".join(f"{n}: ${n}" for n, _, _ in f[1])
        ops.append("query Fallback" + (f"({vars_})" if vars_ else "") + " { " + f[0] + (f"({call})" if call else "") +
                   " { " + sel_for(f[3], f[4]) + " } }")
    feat.update(definitions=len(defs), inputs=len(input_names), enums=len(enums), customs=len(customs),
                interfaces=len(ifaces), objects=len(objs), unions=len(unions), operations=len(ops),
                mutation=has_mut)
    return {"seed": seed, "defs": defs, "ops": "\n\n".join(ops), "features": feat, "customs": customs}


def layouts(rng: random.Random, ndefs: int, k: int):
    """k different partitions of range(ndefs) into files with shuffled names in nested dirs.
    Returns a list of layouts; a layout is a list of (relative path, [definition indices])."""
    exts = [".graphql", ".graphqls", ".gql"]
    out = []
    for li in range(k):
        idx = list(range(ndefs))
        rng.shuffle(idx)
        nfiles = 1 if ndefs == 1 else rng.randint(2, min(ndefs, 6)) if li else ndefs  # first: one def per file
        cuts = sorted(rng.sample(range(1, ndefs), nfiles - 1)) if nfiles > 1 else []
        groups = [idx[a:b] for a, b in zip([0] + cuts, cuts + [ndefs])]
        names = set()
        files = []
        for g in groups:
            while True:
                depth = rng.choice([0, 0, 1, 1, 2, 3])
                comps = [rng.choice(["a", "b", "sub", "types", "x.y", "a-b", "Z", "in puts", ".hidden", "a0"]) for _ in range(depth)]
                stem = rng.choice(["schema", "a", "b", "zz", "A", "0", "types.v2", "x-1", "_", "é"]) + str(rng.randint(0, 99))
                p = "/".join(comps + [stem + rng.choice(exts)])
                # a path must not be both a file and a directory prefix of another
                if p not in names and not any(n.startswith(p + "/") or p.startswith(n + "/") for n in names):
                    names.add(p)
                    break
            files.append((p, g))
        out.append(files)
    return out
