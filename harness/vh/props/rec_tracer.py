"""A minimal RECORDING OpenTelemetry tracer (opentelemetry-sdk is not installed): spans are real
opentelemetry.trace.Span subclasses with is_recording() == True and a sampled SpanContext, they accept
set_attribute(s)/add_event/record_exception/set_status/update_name/end and become the current span inside
start_as_current_span, as an SDK tracer's would.  Falls back to duck-typed classes without opentelemetry-api."""
from __future__ import annotations

import contextlib
import itertools

_ids = itertools.count(1)

try:
    from opentelemetry import trace as _t

    class RecSpan(_t.Span):
        def __init__(self, name, log):
            self.name, self.attrs, self.events, self.exceptions, self.status, self.ended = name, {}, [], [], None, False
            n = next(_ids)
            self._ctx = _t.SpanContext(trace_id=0x1000 + n, span_id=n, is_remote=False,
                                       trace_flags=_t.TraceFlags(_t.TraceFlags.SAMPLED))
            log.append(self)

        def end(self, end_time=None):
            self.ended = True

        def get_span_context(self):
            return self._ctx

        def set_attributes(self, attributes):
            self.attrs.update(attributes)

        def set_attribute(self, key, value):
            self.attrs[key] = value

        def add_event(self, name, attributes=None, timestamp=None):
            self.events.append((name, dict(attributes or {})))

        def add_link(self, context, attributes=None):
            pass

        def update_name(self, name):
            self.name = name

        def is_recording(self):
            return True

        def set_status(self, status, description=None):
            self.status = (status, description)

        def record_exception(self, exception, attributes=None, timestamp=None, escaped=False):
            self.exceptions.append(type(exception).__name__)

    class RecTracer(_t.Tracer):
        def __init__(self):
            self.spans = []

        def start_span(self, name, context=None, kind=None, attributes=None, links=None, start_time=None,
                       record_exception=True, set_status_on_exception=True):
            s = RecSpan(name, self.spans)
            if attributes:
                s.set_attributes(attributes)
            return s

        @contextlib.contextmanager
        def start_as_current_span(self, name, context=None, kind=None, attributes=None, links=None, start_time=None,
                                  record_exception=True, set_status_on_exception=True, end_on_exit=True):
            span = self.start_span(name, context=context, attributes=attributes)
            with _t.use_span(span, end_on_exit=end_on_exit, record_exception=record_exception,
                             set_status_on_exception=set_status_on_exception) as s:
                yield s

except ImportError:  # pragma: no cover
    class RecSpan:  # type: ignore[no-redef]
        def __init__(self, name, log):
            self.name, self.attrs, self.events, self.exceptions = name, {}, [], []
            log.append(self)

        def __enter__(self):
            return self

        def __exit__(self, *a):
            return False

        def is_recording(self):
            return True

        def set_attribute(self, k, v):
            self.attrs[k] = v

        def set_attributes(self, d):
            self.attrs.update(d)

        def add_event(self, name, attributes=None, timestamp=None):
            self.events.append((name, dict(attributes or {})))

        def record_exception(self, exception, *a, **k):
            self.exceptions.append(type(exception).__name__)

        def set_status(self, *a, **k):
            pass

        def update_name(self, name):
            self.name = name

        def end(self, *a):
            pass

    class RecTracer:  # type: ignore[no-redef]
        def __init__(self):
            self.spans = []

        def start_as_current_span(self, name, context=None, **kw):
            return RecSpan(name, self.spans)
