"""C16 — The graphqlschema strategy reproduces the schema.

K1: the generated module (file on disk after ast.unparse / autoflake / isort / black), parsed with
    Python `ast` and canonicalised to the abstract pymod, vs Model/SchemaGen.v `gen_module` on the same
    schema; and the model's `eval_module` applied to the REAL module vs the source schema.
K2: Model/PyRepr.v `py_repr` / `py_literal_eval` vs CPython `repr` / `ast.literal_eval` /
    `ast.unparse(ast.Constant)` on the generated constants, random values and a malformed stream;
    the model's constant tables vs graphql_schema_generators/constants.py.
K3: exec the generated module in a fresh interpreter and compare the resulting GraphQLSchema with the
    source structurally and by print_schema (and with the model's prediction); .graphql/.gql targets
    parsed back; local SDL (file, directory) and introspected sources (loopback HTTP server, real httpx.post).
"""
from __future__ import annotations

import ast
import json
import os
import random
import shutil
import subprocess
import sys
import tempfile
import threading
from concurrent.futures import ThreadPoolExecutor
from http.server import BaseHTTPRequestHandler, ThreadingHTTPServer

from .. import model
from ..sexp import Sym
from . import c16_enc as enc
from . import c16_gen

PY = "/venv/bin/python"
JOBS = 16

TM_NAMES = ["type_map", "type_map", "tmap", "_t", "TYPES", "typeMap2", "values", "name", "fields", "t"]
SN_NAMES = ["schema", "schema", "my_schema", "_s", "SCHEMA", "match", "type", "Schema2", "s"]
# configurations the settings must refuse (import of the generated module, keyword, not an identifier, equal names)
BAD_NAMES = ["cast", "GraphQLObjectType", "GraphQLField", "GraphQLNonNull", "Undefined", "List", "GraphQLString",
             "GraphQLSchema", "TypeMap", "DirectiveLocation", "GraphQLArgument", "GraphQLID", "GraphQLNamedType",
             "class", "None", "lambda", "1x", "a-b", "", "a b"]
SHADOW_TM = ["cast", "GraphQLObjectType", "GraphQLField", "GraphQLNonNull", "Undefined", "List",
             "GraphQLString", "GraphQLSchema", "TypeMap", "DirectiveLocation", "GraphQLArgument", "GraphQLID"]


# ---------------------------------------------------------------- loopback introspection server
class _Server:
    def __init__(self):
        self.schemas = {}
        self.received = {}
        outer = self

        class H(BaseHTTPRequestHandler):
            def log_message(self, *a):
                pass

            def do_POST(self):
                from graphql import graphql_sync

                try:
                    key = self.path.rsplit("/", 1)[-1]
                    n = int(self.headers.get("content-length") or 0)
                    body = json.loads(self.rfile.read(n) or b"{}")
                    outer.received[key] = {"query": body.get("query"),
                                           "headers": {k.lower(): v for k, v in self.headers.items()}}
                    res = graphql_sync(outer.schemas[key], body.get("query") or "")
                    payload = json.dumps(res.formatted).encode()
                    self.send_response(200)
                except Exception as e:  # noqa: BLE001
                    payload = json.dumps({"errors": [{"message": f"server: {e}"}]}).encode()
                    self.send_response(500)
                self.send_header("content-type", "application/json")
                self.send_header("content-length", str(len(payload)))
                self.end_headers()
                self.wfile.write(payload)

        self.httpd = ThreadingHTTPServer(("127.0.0.1", 0), H)
        self.port = self.httpd.server_address[1]
        self.thread = threading.Thread(target=self.httpd.serve_forever, daemon=True)
        self.thread.start()

    def stop(self):
        self.httpd.shutdown()
        self.httpd.server_close()


# ---------------------------------------------------------------- workers
def _run_workers(mode, jobs, env_extra=None):
    if not jobs:
        return []
    chunks = [jobs[i::JOBS] for i in range(JOBS)]
    env = dict(os.environ)
    if env_extra:
        for k in ("LANG", "LANGUAGE", "LC_CTYPE"):
            env.pop(k, None)
        env.update(env_extra)

    def one(chunk):
        if not chunk:
            return []
        p = subprocess.run([PY, "-m", "vh.props.c16_worker", mode], input=json.dumps(chunk).encode(),
                           stdout=subprocess.PIPE, stderr=subprocess.PIPE, env=env, timeout=1500)
        if p.returncode != 0:
            return [{"ok": False, "error": f"worker exit {p.returncode}: {p.stderr.decode(errors='replace')[-600:]}"}
                    for _ in chunk]
        try:
            return json.loads(p.stdout)
        except ValueError:
            return [{"ok": False, "error": f"worker output unreadable: {p.stdout[-300:]!r}"} for _ in chunk]

    with ThreadPoolExecutor(max_workers=JOBS) as ex:
        parts = list(ex.map(one, chunks))
    out = [None] * len(jobs)
    for i, part in enumerate(parts):
        for k, r in enumerate(part):
            out[i + k * JOBS] = r
    return out


# ---------------------------------------------------------------- scenarios
# regression cases: the minimised witnesses of the findings (fixed ones must now pass like any other input)
CORPUS = [
    {"name": "fixed:C16-nonfinite-float-nested", "source": "local", "target": "py", "tm": "type_map", "sn": "schema",
     "sdl": "scalar J\n\ntype Query {\n  f(a: J = [1e999], b: J = {k: [-1e999, 1.5]}, c: J = 1e999): Int\n}\n"
            "\ninput I {\n  x: J = [[1e400]]\n}\n"},
    {"name": "fixed:C16-introspection-lossy", "source": "remote", "target": "py", "tm": "type_map", "sn": "schema",
     "sdl": '"""the schema"""\nschema {\n  query: Query\n}\n\ndirective @tag("why" name: String = "x" '
            '@deprecated(reason: "gone")) repeatable on FIELD_DEFINITION | OBJECT\n\n"dt" scalar DateTime '
            '@specifiedBy(url: "https://example.com/dt")\n\ninput In {\n  "keep" a: Int\n  old: Int = 1 @deprecated(reason: "r")\n}\n\n'
            '"root" type Query {\n  "field" f("arg" old: Int @deprecated(reason: "r"), new: In): DateTime\n}\n'
            '\nenum E {\n  "val" A\n  B @deprecated\n}\n'},
    {"name": "fixed:C16-introspection-lossy/sdl-target", "source": "remote", "target": "graphql", "tm": "type_map",
     "sn": "schema",
     "sdl": 'directive @tag repeatable on FIELD_DEFINITION\n\n"dt" scalar DateTime @specifiedBy(url: "https://example.com/dt")\n\n'
            'type Query {\n  f(old: Int @deprecated(reason: "r"), new: Int): DateTime\n}\n'},
    {"name": "fixed:C16-typemap-name-shadows-import", "source": "local", "target": "py", "tm": "cast", "sn": "schema",
     "sdl": "type Query {\n  f: Query\n}\n"},
]


def make_scenarios(ctx, n):
    rng = ctx.rng
    scen = []
    for idx, c in enumerate(CORPUS):
        sc = {"idx": idx, "seed": -1 - idx, "source": c["source"], "target": c["target"], "layout": "file", "classes": [],
              "plain": False, "nonprintable": False, "nonfinite": None, "tm": c["tm"], "sn": c["sn"], "sdl": c["sdl"],
              "parts": [c["sdl"]], "features": {"corpus:" + c["name"]: 1}, "corpus": c["name"]}
        scen.append(sc)
    for idx in range(len(CORPUS), n):
        u = rng.random()
        sc = {"idx": idx, "seed": rng.randrange(1 << 30), "source": "local", "target": "py", "layout": "file",
              "classes": [], "plain": False, "nonprintable": False, "nonfinite": None}
        if u < 0.52:
            pass
        elif u < 0.58:
            sc["layout"] = "dir"
        elif u < 0.68:
            sc["target"] = rng.choice(["graphql", "gql", "GraphQL"])
        elif u < 0.78:
            sc["source"], sc["plain"] = "remote", True
            if rng.random() < 0.25:
                sc["target"] = rng.choice(["graphql", "gql"])
        elif u < 0.84:
            sc["source"] = "remote"                 # full-featured schema through introspection
        elif u < 0.88:
            sc["nonfinite"] = "nested"
        elif u < 0.90:
            sc["nonfinite"] = "top"
        elif u < 0.94:
            sc["nonprintable"] = True
        else:
            sc["shadow"] = True
        sc["tm"] = rng.choice(TM_NAMES)
        sc["sn"] = rng.choice([s for s in SN_NAMES if s != sc["tm"]])
        if sc.get("shadow"):
            k = rng.randint(0, 2)
            if k == 0:
                sc["tm"] = rng.choice(BAD_NAMES)
            elif k == 1:
                sc["sn"] = rng.choice(BAD_NAMES)
            else:
                sc["sn"] = sc["tm"]
        g = c16_gen.Gen(random.Random(sc["seed"]), plain=sc["plain"], size=1.0 if not ctx.thorough else 1.4,
                        nonprintable=sc["nonprintable"], nonfinite=sc["nonfinite"],
                        printable=(sc["source"] == "remote" or sc["target"] != "py"))
        sc["sdl"] = g.schema()
        sc["parts"] = g.parts
        sc["features"] = g.feat
        scen.append(sc)
    return scen


def _replay(sc, **kw):
    r = {"scenario": {k: sc.get(k) for k in ("idx", "seed", "source", "target", "layout", "tm", "sn", "plain",
                                              "nonfinite", "nonprintable")},
         "config": sc.get("config"), "sdl": sc["sdl"]}
    r.update(kw)
    return r


def run(ctx):
    tmp = tempfile.mkdtemp(prefix="c16-")
    server = _Server()
    try:
        _run(ctx, tmp, server)
    finally:
        server.stop()
        shutil.rmtree(tmp, ignore_errors=True)


def _run(ctx, tmp, server):
    from graphql import (assert_valid_schema, build_ast_schema, build_client_schema, build_schema, graphql_sync,
                         parse, print_schema)

    run = ctx.run
    run.rule = ("seeded random valid schemas (every kind of named type, interface chains, custom roots, defaults of "
                "every literal kind, descriptions, deprecations, directives) x variable names x target format x "
                "source (SDL file / SDL directory / introspection over loopback HTTP); non-trivial = scenario whose "
                "generated module defines at least one thunked field map and one cast() lookup; distinct by seed")
    run.assumptions += [
        "graphql-core 3.2.12 (parse, build_ast_schema, build_client_schema, introspection, print_schema, "
        "GraphQLSchema constructor incl. type-map order and eager thunk resolution) — modelled, not verified; K3 runs it",
        "CPython 3.12 repr / ast.unparse / literal evaluation — modelled in Model/PyRepr.v for None/bool/int/float-lexeme/"
        "str/list/dict; fidelity domain ASCII + printable non-ASCII strings (K2 each run)",
        "black / isort / autoflake are meaning-preserving: inside K1 (files on disk are what is canonicalised)",
        "floats are opaque lexemes (repr text); +-inf are values, written 1e309 / -1e309; nan cannot arise",
        "variable names are ASCII (str.isidentifier on non-ASCII identifiers is outside settings_ok)",
    ]
    # ---------------- K2a: constant tables ----------------
    from ariadne_codegen.graphql_schema_generators import constants as C

    tables = model.call("C16", [Sym("tables")])
    if list(tables[0]) != list(C.STANDARD_TYPES):
        run.broken("K2 STANDARD_TYPES", f"model {tables[0]} vs repo {C.STANDARD_TYPES}")
    if [tuple(x) for x in tables[1]] != list(C.STANDARD_SCALARS.items()):
        run.broken("K2 STANDARD_SCALARS", f"model {tables[1]} vs repo {C.STANDARD_SCALARS}")

    # model DATA derived from the source of /repo on every run; fail closed when the derivation no longer applies
    try:
        repo_imports = [("graphql", list(C.GRAPHQL_IMPORTS)), ("graphql.type.schema", list(C.TYPE_MAP_IMPORTS)),
                        ("typing", list(C.TYPING_IMPORTS))]
        reserved = set(C.RESERVED_VARIABLE_NAMES)
    except AttributeError as e:
        repo_imports, reserved = None, None
        run.broken("K2 import tables", f"constants.py no longer exposes the import tables: {e}")
    model_imports = [(m_, list(ns)) for m_, ns in tables[2]]
    if repo_imports is not None:
        if model_imports != repo_imports:
            run.broken("K2 IMPORTS", f"model {model_imports} vs repo {repo_imports}")
        if reserved != {n for _m, ns in model_imports for n in ns}:
            run.broken("K2 RESERVED_VARIABLE_NAMES", f"repo {sorted(reserved)} vs model BUILTIN_NAMES")
        _check_schema_py_uses_tables(run)
    _check_constructor_defaults(run)
    _settings_tie(ctx, run, tmp)
    import_names = {n for _m, ns in tables[2] for n in ns}
    # ---------------- scenarios ----------------
    n = 1600 if ctx.thorough else 220
    scen = make_scenarios(ctx, n)
    gen_jobs = []
    for sc in scen:
        d = os.path.join(tmp, f"s{sc['idx']}")
        os.makedirs(d)
        sc["dir"] = d
        try:
            src = build_schema(sc["sdl"])
            assert_valid_schema(src)
        except Exception as e:  # noqa: BLE001
            sc["invalid"] = f"{type(e).__name__}: {str(e)[:300]}"
            run.dist("generator", "rejected-by-graphql-core")
            continue
        run.dist("generator", "valid")
        sc["server_schema"] = src
        section = {"target_file_path": "out/gen_schema." + sc["target"] if sc["target"] != "py" else "gen_schema.py",
                   "schema_variable_name": sc["sn"], "type_map_variable_name": sc["tm"]}
        if sc["target"] != "py":
            os.makedirs(os.path.join(d, "out"))
        if sc["source"] == "local":
            if sc["layout"] == "file":
                open(os.path.join(d, "schema.graphql"), "w", encoding="utf-8").write(sc["sdl"])
                section["schema_path"] = "schema.graphql"
                sc["source_text"] = sc["sdl"]
            else:
                os.makedirs(os.path.join(d, "schemas", "sub"))
                k = max(1, len(sc["parts"]) // 2)
                a, b = "\n\n".join(sc["parts"][:k]) + "\n", "\n\n".join(sc["parts"][k:]) + "\n"
                open(os.path.join(d, "schemas", "b_second.graphql"), "w", encoding="utf-8").write(b)
                open(os.path.join(d, "schemas", "sub", "a_first.gql"), "w", encoding="utf-8").write(a)
                section["schema_path"] = "schemas"
                # the repo reads sorted(path.glob('**/*')) : schemas/b_second.graphql < schemas/sub/a_first.gql
                sc["source_text"] = b + "\n" + a
            sc["loaded"] = build_ast_schema(parse(sc["source_text"]), assume_valid=True)
        else:
            key = str(sc["idx"])
            server.schemas[key] = src
            section["remote_schema_url"] = f"http://127.0.0.1:{server.port}/s/{key}"
            section["remote_schema_headers"] = {"X-Verif": "c16"}
        sc["config"] = {"tool": {"ariadne-codegen": section}}
        sc["out"] = os.path.join(d, section["target_file_path"])
        gen_jobs.append((sc, {"dir": d, "config": sc["config"]}))
        for k, v in sc["features"].items():
            run.dist("features", k, v)
        run.dist("source", sc["source"] + ("/plain" if sc["plain"] else "") + ("/dir" if sc["layout"] == "dir" else ""))
        run.dist("target", sc["target"].lower())
        run.dist("names", f"{sc['tm']}/{sc['sn']}")
    results = _run_workers("gen", [j for _s, j in gen_jobs])
    for (sc, _j), r in zip(gen_jobs, results):
        sc["gen"] = r

    # what the strategy loaded, for introspected sources: replay the query it actually sent
    for sc in scen:
        if sc.get("invalid") or sc["source"] != "remote":
            continue
        rec = server.received.get(str(sc["idx"]))
        if rec is None or not rec.get("query"):
            sc["loaded"] = None
            continue
        sc["received"] = rec
        data = graphql_sync(sc["server_schema"], rec["query"]).data
        sc["loaded"] = build_client_schema(data, assume_valid=True)

    # ---------------- model: gen_module / eval_module on what was loaded ----------------
    live = [sc for sc in scen if not sc.get("invalid") and sc.get("loaded") is not None]
    for sc in live:
        try:
            sc["p_loaded_all"] = enc.p_schema(sc["loaded"], with_standard=True)
            sc["p_loaded"] = enc.p_schema(sc["loaded"], with_standard=False)
            sc["p_server"] = enc.p_schema(sc["server_schema"], with_standard=False)
        except TypeError as e:
            sc["unencodable"] = str(e)
    live = [sc for sc in live if not sc.get("unencodable")]
    answers = model.batch("C16", [[Sym("gen"), enc.x_schema(sc["p_loaded_all"]), sc["tm"], sc["sn"]] for sc in live],
                          chunk=8)
    for sc, a in zip(live, answers):
        if model.is_error(a):
            run.broken("model gen", f"{a} on scenario seed {sc['seed']}")
            sc["model"] = None
            continue
        wf, mod, ev, stripped = a
        sc["model"] = {"wf": wf == "t", "module": enc.model_module(mod),
                       "eval": None if ev == "none" else enc.u_schema(ev[1]), "stripped": enc.u_schema(stripped)}

    # the model's verdict on the two names of every scenario (strategy_py = None iff not settings_ok)
    sett = model.batch("C16", [[Sym("settings"), sc["tm"], sc["sn"]] for sc in scen], chunk=500)
    for sc, a in zip(scen, sett):
        sc["settings_ok"] = (a[0] == "t") if not model.is_error(a) else None

    # ---------------- K1 on .py targets ----------------
    eval_cmds = []
    for sc in live:
        m = sc.get("model")
        if m is None:
            continue
        values = list(enc.schema_values(sc["p_loaded"]))
        sc["nonfinite_any"] = any(enc.has_nonfinite(v) for v in values)
        sc["in_domain"] = all(enc.in_fidelity_domain(s) for s in enc.schema_strings(sc["p_loaded"]))
        run.dist("model-domain", ("in" if sc["in_domain"] else "nonprintable-unicode") +
                 ("+nonfinite" if sc["nonfinite_any"] else ""))
        # theorem instance, run through the extracted code (cross-checks extraction):
        if m["wf"] and sc["settings_ok"] and m["eval"] != m["stripped"]:
            run.broken("model self-check", f"wf_fschema holds but eval_module (gen_module S) <> strip_std S, seed {sc['seed']}")
        if m["stripped"] != sc["p_loaded"]:
            run.broken("codec", f"strip_std through the model differs from the Python-side filter, seed {sc['seed']}")
        # the hypothesis of the theorem must not be narrower than the property's quantifier
        if not m["wf"]:
            run.broken("wf_fschema rejects a valid schema", json.dumps(_replay(sc))[:2500])
        run.dist("wf_gen", "true" if m["wf"] else "false")
        if sc["target"] != "py" or not sc["gen"]["ok"] or not os.path.exists(sc["out"]):
            continue
        text = open(sc["out"], encoding="utf-8").read()
        sc["text"] = text
        try:
            imps, body = enc.canon_module(text)
        except (enc.CanonError, SyntaxError) as e:
            sc["canon_error"] = f"{type(e).__name__}: {e}"
            continue
        sc["canon"] = (imps, enc.strip_syms(body))
        if sc["in_domain"]:
            eval_cmds.append((sc, [Sym("eval"), [[[mname, ns] for mname, ns in imps.items()],
                                                 [[t, an, ex] for t, an, ex in body]]]))
    evals = model.batch("C16", [c for _s, c in eval_cmds], chunk=8)
    for (sc, _c), a in zip(eval_cmds, evals):
        if model.is_error(a):
            sc["real_eval"] = ("error", a)
        else:
            sc["real_eval"] = ("ok", None if a[0] == "none" else enc.u_schema(a[0][1]), list(a[1]))

    # ---------------- K3: load what was written ----------------
    load_jobs = []
    for sc in live:
        if sc["gen"]["ok"] and os.path.exists(sc["out"]):
            load_jobs.append((sc, {"file": sc["out"], "tm": sc["tm"], "sn": sc["sn"]}))
    loads = _run_workers("load", [j for _s, j in load_jobs])
    for (sc, _j), r in zip(load_jobs, loads):
        sc["load"] = r

    # ---------------- verdicts ----------------
    k1_checked = k1_bad = 0
    for sc in scen:
        if sc.get("invalid"):
            continue
        run.count()
        if sc.get("unencodable"):
            run.broken("encoder", f"{sc['unencodable']} seed {sc['seed']}")
            continue
        # a variable name equal to an import of the generated module may be refused up front
        # (fixes/C16-reserved-variable-names.diff): a typed rejection before anything is written is not a failure
        g = sc.get("gen") or {}
        refused = (not g.get("ok")) and str(g.get("error", "")).startswith("InvalidConfiguration")
        if sc.get("settings_ok") is False:
            # strategy_py = None: the real strategy must refuse with the typed error before writing anything
            if not refused:
                run.violation(f"settings_ok is false for names {sc['tm']!r}/{sc['sn']!r} but the strategy did not refuse: "
                              f"{g.get('error', 'generated')}", _replay(sc, gen=g))
            elif os.path.exists(sc["out"]) or (sc["source"] == "remote" and str(sc["idx"]) in server.received):
                run.violation("configuration refused but a file was written / the server was contacted", _replay(sc, gen=g))
            run.dist("names-refused-up-front", f"{sc['tm']}/{sc['sn']}")
            continue
        if refused:
            run.violation(f"settings_ok holds for names {sc['tm']!r}/{sc['sn']!r} but the strategy refused: {g.get('error')}",
                          _replay(sc, gen=g))
            continue
        if sc["source"] == "remote" and sc.get("loaded") is None:
            run.violation(f"no introspection request reached the loopback server: {sc['gen'].get('error')}",
                          _replay(sc, gen=sc["gen"]), found_input=False)
            continue
        m = sc.get("model")
        if m is None:
            continue
        problems = []          # failures of the property on the real code (K3)
        # -- generation itself
        if not sc["gen"]["ok"]:
            problems.append(f"generation failed: {sc['gen']['error']}")
        elif not os.path.exists(sc["out"]):
            problems.append("no file at target_file_path")
        ld = sc.get("load")
        ref = sc["p_loaded"]
        try:
            ref_print = print_schema(sc["loaded"])
        except Exception as e:  # noqa: BLE001
            ref_print = None
            sc["ref_print_error"] = f"{type(e).__name__}: {e}"
        if ld is not None:
            if not ld["ok"]:
                problems.append(f"generated file does not load: {ld['error']}")
            else:
                got = ld["struct"]
                if sc["target"] != "py":
                    got, ref = _sdl_numbers(_user_part(got)), _sdl_numbers(_user_part(ref))
                if got != ref:
                    problems.append("schema differs structurally: " + str(_first_diff(got, ref)))
                if ref_print is not None and ld.get("printed") != ref_print:
                    problems.append("print_schema differs" + (f" ({ld.get('print_error')})" if ld.get("print_error") else ""))
                if sc["target"] == "py" and ld.get("tm_ok") is False:
                    problems.append("type-map variable is not the map of the schema's own type objects")
                if sc["target"] != "py" and ref_print is not None and sc["gen"]["ok"]:
                    if open(sc["out"], encoding="utf-8").read() != ref_print:
                        problems.append("SDL file is not print_schema of the source")
        # -- model prediction vs real outcome (K3 as correspondence)
        predicted_ok = m["eval"] is not None
        if sc["target"] == "py" and ld is not None and sc["in_domain"]:
            if predicted_ok and ld["ok"] and ld["struct"] != m["eval"]:
                run.broken("K3 model prediction", f"exec gives a schema different from eval_module's, seed {sc['seed']}: "
                           + str(_first_diff(ld["struct"], m["eval"])))
            if not predicted_ok and ld["ok"] and not problems:
                run.broken("K3 model prediction", f"model predicts the module cannot be evaluated but it loads and matches "
                           f"(seed {sc['seed']}, tm={sc['tm']})")
        # -- K1 structural
        k1_fail = None
        if sc["target"] == "py" and sc["gen"]["ok"]:
            if sc.get("canon_error"):
                k1_fail = "canonicaliser: " + sc["canon_error"]
            elif "canon" in sc and sc["in_domain"]:
                k1_checked += 1
                imps, body = sc["canon"]
                mimps, mbody = m["module"]
                if imps != mimps:
                    k1_fail = f"imports differ: file {imps} model {mimps}"
                elif body != mbody:
                    k1_fail = "module body differs: " + str(_first_diff(body, mbody))
                re_ = sc.get("real_eval")
                if re_ is not None:
                    if re_[0] == "error":
                        k1_fail = k1_fail or f"model cannot decode the real module: {re_[1]}"
                    else:
                        if re_[2] != [sc["tm"], sc["sn"]]:
                            problems.append(f"assignment targets {re_[2]} are not the configured names")
                        if True:
                            if re_[1] != ref:
                                k1_fail = k1_fail or ("eval_module on the REAL module does not give the source schema: "
                                                      + str(_first_diff(re_[1], ref)))
        # -- classes
        cls = None
        if sc.get("settings_ok") and not predicted_ok:
            run.broken("model", f"settings_ok and wf_gen hold but eval_module (gen_module S) = None, seed {sc['seed']}")
        if problems:
            what = "; ".join(problems)[:600]
            if cls:
                run.finding(cls, what, _replay(sc, problems=problems))
                run.dist("finding_inputs", cls)
            else:
                run.violation(f"C16 fails (seed {sc['seed']}, {sc['source']}->{sc['target']}): {what}",
                              _replay(sc, problems=problems, generated=sc.get("text", "")[:6000]))
        elif cls:
            # a listed class that no longer fails is fine (fixed); say so
            run.dist("finding_inputs", cls + ":no-failure")
        if k1_fail and cls and not problems and run.open_classes.get(cls):
            # inside a listed finding class the model DESCRIBES the defect; if the real module now differs from
            # the model there and the property holds on it, the class has been repaired (the guard can go)
            run.dist("finding_inputs", cls + ":model-predicts-failure-but-repo-ok(fixed?)")
            k1_fail = None
        if k1_fail:
            k1_bad += 1
            run.violation(f"K1 model/code disagree (seed {sc['seed']}): {k1_fail[:500]}; "
                          + ("property also fails on this input" if problems else "no property failure on this input"),
                          _replay(sc, k1=k1_fail, generated=sc.get("text", "")[:6000]), found_input=bool(problems))
        # -- introspected source vs the server's schema (what the property calls the source)
        if sc["source"] == "remote" and not problems:
            # integral floats of custom scalars come back as ints through graphql-core's own printing
            # (ast_from_value) on the server side: not the repo's doing, compared numerically
            srv, got_ = _sdl_numbers(_user_part(sc["p_server"])), _sdl_numbers(_user_part(sc["p_loaded"]))
            if got_ != srv:
                lost = _lost_features(srv, got_)
                run.finding("C16-introspection-lossy",
                            f"remote schema not reproduced: {', '.join(lost)}; first difference "
                            f"{_first_diff(got_, srv)}",
                            _replay(sc, lost=lost, query=sc["received"]["query"]))
                run.dist("finding_inputs", "C16-introspection-lossy")
                for l in lost:
                    run.dist("introspection-lost", l)
            if sc["received"]["headers"].get("x-verif") != "c16":
                run.violation("remote_schema_headers not sent with the introspection request", _replay(sc))
        # -- counting
        t = sc.get("text", "")
        if "lambda" in t and "cast(" in t:
            run.nontrivial_case(sc["seed"])
        elif sc["target"] != "py" and not problems:
            run.nontrivial_case(sc["seed"])
        if len(run.samples) < 6 and sc["target"] == "py" and t:
            run.sample({"seed": sc["seed"], "source": sc["source"], "names": [sc["tm"], sc["sn"]],
                        "types": [x[0] for x in sc["p_loaded"][0]][:8], "module_lines": t.count("\n"),
                        "features": sorted(sc["features"])[:12]})
    run.extra["k1_modules_compared"] = k1_checked
    run.extra["k1_disagreements"] = k1_bad

    # ---------------- histories: runs into the same target ----------------
    _histories(ctx, run, tmp)
    _locale_runs(ctx, run, tmp)

    # ---------------- K2b: repr / literal_eval ----------------
    _k2_values(ctx, run, live)


def _histories(ctx, run, tmp):
    """Sequences of strategy runs in ONE project directory and ONE process: graphql_schema() into the same target
    path(s) with changing settings (variable names, target suffix) and changing schema content whose files are OLDER
    or newer than the target (os.utime), interleaved with main.client() runs over the same or another schema path.
    Model (Model/SchemaGen.v run_process / run_history; C16_process_ignores_clients, C16_history_is_last_step,
    C16_history_refused_keeps): after each graphql_schema step the target holds the fresh output of that step's
    inputs if the settings accept the names, and is untouched otherwise - never a function of what it held before
    or of what ran before in the process.  The fresh outputs come from OTHER processes, one directory each."""
    import time

    rng = random.Random(ctx.seed * 7919 + 13)
    n_hist = 96 if ctx.thorough else 16
    now = time.time()
    jobs, metas, fresh_jobs = [], [], []
    targets = {"py": "out/gen_schema.py", "graphql": "out/gen_schema.graphql", "gql": "out/gen_schema.gql"}
    for h in range(n_hist):
        d = os.path.join(tmp, f"hist{h}")
        os.makedirs(os.path.join(d, "out"))
        layout = rng.choice(["file", "file", "dir"])
        schema_path = "schema_src/schema.graphql" if layout == "file" else "schema_src"
        steps, meta = [], []
        tm, sn, fmt = "type_map", "schema", "py"
        sdl = c16_gen.Gen(random.Random(rng.randrange(1 << 30)), size=0.7, printable=True).schema()
        n_steps = rng.randint(3, 6)
        with_clients = h % 2 == 0
        for k in range(n_steps):
            change = "first" if k == 0 else rng.choice(
                ["names", "names", "tm", "sn", "schema-older", "schema-older", "schema-newer", "suffix", "bad-names",
                 "nothing", "nothing", "names+schema-older"])
            mtime = None
            if "names" in change:
                tm, sn = rng.choice(TM_NAMES) + str(k), rng.choice([x for x in SN_NAMES]) + str(k)
            if change == "tm":
                tm = rng.choice(TM_NAMES) + "_" + str(k)
            if change == "sn":
                sn = rng.choice(SN_NAMES) + "_" + str(k)
            if "schema" in change:
                sdl = c16_gen.Gen(random.Random(rng.randrange(1 << 30)), size=0.7, printable=True).schema()
            if "older" in change:
                mtime = now - 86400 * rng.randint(1, 400)      # e.g. cp -p / mv / archive extraction
            if change == "suffix":
                fmt = rng.choice([f for f in targets if f != fmt])
            stm, ssn = tm, sn
            if change == "bad-names":
                stm, ssn = rng.choice([(rng.choice(BAD_NAMES), sn), (tm, rng.choice(BAD_NAMES)), (tm, tm)])
            files = {"schema.graphql": sdl} if layout == "file" else \
                {"a.graphql": sdl, "sub/extra.gql": "scalar ExtraFromSecondFile\n"}
            # a client() run in the same process before this step (always at least once per such history)
            if with_clients and (k == 1 or rng.random() < 0.4):
                same = k == 1 or rng.random() < 0.6
                root = _query_root(sdl) if same else "Query"
                csection = {"schema_path": schema_path if same else "other_src/other.graphql",
                            "target_package_name": "c16_client_pkg", "include_comments": "none"}
                extra = {"other_src/other.graphql": "type Query {\n  other: Int\n}\n"}
                csection["queries_path"] = "queries.graphql"          # required by the client settings
                extra["queries.graphql"] = rng.choice(["query C16Probe {\n  __typename\n}\n",
                                                        "query A {\n  __typename\n}\n\nquery B {\n  t: __typename\n}\n"])
                # the client step comes AFTER the schema of this step is in place (written now, untouched by the
                # graphql_schema step that follows)
                steps.append({"kind": "client", "files": files, "mtime": mtime, "extra": extra,
                              "config": {"tool": {"ariadne-codegen": csection}}})
                meta.append({"kind": "client", "change": "client-same-schema" if same else "client-other-schema"})
                run.dist("history-steps", meta[-1]["change"])
                mtime_for_gen = None
            else:
                mtime_for_gen = mtime
            section = {"schema_path": schema_path, "target_file_path": targets[fmt], "schema_variable_name": ssn,
                       "type_map_variable_name": stm}
            cfg = {"tool": {"ariadne-codegen": section}}
            steps.append({"kind": "gen", "files": files, "mtime": mtime_for_gen, "config": cfg})
            meta.append({"kind": "gen", "change": change, "tm": stm, "sn": ssn, "target": targets[fmt],
                         "older": mtime is not None, "fresh": len(fresh_jobs)})
            fresh_jobs.append({"dir": os.path.join(d, f"fresh{len(steps)}"), "files": files, "config": cfg})
            run.dist("history-steps", change)
        jobs.append({"dir": d, "steps": steps, "targets": sorted(targets.values())})
        metas.append(meta)
    results = _run_workers("history", jobs)
    fresh = _run_workers("fresh", fresh_jobs)
    gens = [m for meta in metas for m in meta if m["kind"] == "gen"]
    oks = model.batch("C16", [[Sym("settings"), m["tm"], m["sn"]] for m in gens], chunk=500)
    for m, a in zip(gens, oks):
        m["accepted"] = a[0] == "t"
    for h, (job, meta, res) in enumerate(zip(jobs, metas, results)):
        if not isinstance(res, list):
            run.broken("history worker", str(res)[:400])
            continue
        held = {}                       # model of the directory: target path -> content
        broken = False
        for k, (st, m, r) in enumerate(zip(job["steps"], meta, res)):
            run.count()
            trail = [{kk: mm.get(kk) for kk in ("kind", "change", "tm", "sn", "target", "older")} for mm in meta[: k + 1]]
            replay = {"history": trail, "layout": "dir" if len(st["files"]) > 1 else "file",
                      "steps": [{"kind": s_["kind"], "config": s_["config"], "files": s_["files"], "mtime": s_["mtime"],
                                 "extra": s_.get("extra")} for s_ in job["steps"][: k + 1]]}
            if m["kind"] == "client":
                run.dist("history-client-runs", "ok" if r["client"]["ok"] else "failed: " + r["client"]["error"].split(":")[0])
            else:
                f = fresh[m["fresh"]]
                if m["accepted"]:
                    if not f["run"]["ok"] or f["text"] is None:
                        run.violation(f"history {h} step {k}: fresh generation failed: {f['run'].get('error')}", replay)
                        broken = True
                        break
                    expected = f["text"]
                    if not r["run"]["ok"]:
                        run.violation(f"history {h} step {k} ({m['change']}): run in the used directory failed: "
                                      f"{r['run'].get('error')}", replay)
                        broken = True
                        break
                else:
                    expected = held.get(m["target"])
                    if r["run"]["ok"] or not str(r["run"].get("error", "")).startswith("InvalidConfiguration"):
                        run.violation(f"history {h} step {k}: names {m['tm']!r}/{m['sn']!r} not refused", replay)
                        broken = True
                        break
                if r["text"] != expected:
                    stale = next((j for j in range(k - 1, -1, -1) if meta[j]["kind"] == "gen" and res[j]["text"] == r["text"]
                                  and meta[j]["target"] == m["target"]), None)
                    before = [mm["change"] for mm in meta[:k] if mm["kind"] == "client"]
                    run.violation(
                        f"history {h} step {k} ({m['change']}; names {m['tm']}/{m['sn']}; schema files "
                        f"{'older' if m['older'] else 'newer'} than the target; client() runs earlier in the process: "
                        f"{before or 'none'}): {m['target']} is not the fresh generation of this step's inputs"
                        + (f" - it still holds the output of step {stale}" if stale is not None else
                           " - first difference: " + _text_diff(r["text"], expected)
                           + (" (the target defines the codegen-only directive @mixin, which is not in the schema source)"
                              if "mixin" in (r["text"] or "") and "mixin" not in (expected or "") else ""))
                        + f"; strategy said: {r['run'].get('stdout', '')[-120:]!r}",
                        dict(replay, observed=(r["text"] or "")[:3000], expected=(expected or "")[:3000]))
                    broken = True
                    break
                held[m["target"]] = r["text"]
            # the (other) schema targets of the directory are not touched by this step
            for t, exists in r["others"].items():
                if exists != (held.get(t) is not None):
                    run.violation(f"history {h} step {k} ({m['change']}): schema target {t} appeared/disappeared", replay)
                    broken = True
        if not broken:
            run.nontrivial_case(f"history-{h}-{ctx.seed}")
    run.extra["histories"] = {"histories": n_hist, "steps": sum(len(m) for m in metas),
                              "graphql_schema_steps": len(gens)}


def _query_root(sdl):
    return "Query"


def _text_diff(a, b):
    if a is None or b is None:
        return f"{'missing' if a is None else 'present'} vs {'missing' if b is None else 'present'}"
    al, bl = a.splitlines(), b.splitlines()
    for i, (x, y) in enumerate(zip(al, bl)):
        if x != y:
            return f"line {i + 1}: {x.strip()[:120]!r} vs {y.strip()[:120]!r}"
    return f"length {len(al)} vs {len(bl)} lines"


def _locale_runs(ctx, run, tmp):
    """The strategy under a non-UTF-8 locale (LC_ALL=C, PYTHONUTF8=0, PYTHONCOERCECLOCALE=0: open() defaults to
    ASCII) on schemas with non-ASCII text in every string position, both targets: the target must be the same bytes
    as under UTF-8 (it is written with an explicit encoding) and nothing else may be left next to it."""
    rng = random.Random(ctx.seed * 104729 + 7)
    n = 48 if ctx.thorough else 10
    jobs = []
    for i in range(n):
        sdl = c16_gen.Gen(random.Random(rng.randrange(1 << 30)), size=0.6, printable=True, unicode_all=True).schema()
        for fmt in ("py", "graphql"):
            section = {"schema_path": "schema_src/schema.graphql", "target_file_path": f"out/gen_schema.{fmt}",
                       "schema_variable_name": "schema", "type_map_variable_name": "type_map"}
            jobs.append({"files": {"schema.graphql": sdl}, "config": {"tool": {"ariadne-codegen": section}}, "fmt": fmt})
    ref = _run_workers("fresh", [dict(j, dir=os.path.join(tmp, f"loc_utf8_{i}")) for i, j in enumerate(jobs)],
                       env_extra={"PYTHONUTF8": "1"})
    loc = _run_workers("fresh", [dict(j, dir=os.path.join(tmp, f"loc_c_{i}")) for i, j in enumerate(jobs)],
                       env_extra={"LC_ALL": "C", "PYTHONUTF8": "0", "PYTHONCOERCECLOCALE": "0"})
    for j, a, b in zip(jobs, ref, loc):
        run.count()
        sdl = j["files"]["schema.graphql"]
        nonascii = sum(1 for ch in sdl if ord(ch) > 127)
        replay = {"environment": "LC_ALL=C PYTHONUTF8=0 PYTHONCOERCECLOCALE=0", "config": j["config"], "sdl": sdl}
        enc_ = b.get("encoding")
        run.dist("locale-runs", f"{j['fmt']}/preferred-encoding={enc_}")
        if enc_ and enc_.lower().replace("-", "") in ("utf8",):
            run.broken("locale run", f"the C-locale worker still reports preferred encoding {enc_}")
            continue
        if not a.get("run", {}).get("ok") or a.get("text") is None:
            run.violation(f"UTF-8 reference run failed: {a.get('run', a).get('error')}", replay)
            continue
        want_listing = [os.path.basename(j["config"]["tool"]["ariadne-codegen"]["target_file_path"])]
        problems = []
        if not b.get("run", {}).get("ok"):
            problems.append(f"the strategy fails: {b.get('run', b).get('error')}")
        elif b.get("text") != a["text"]:
            problems.append("the target differs from the one written under UTF-8: " + _text_diff(b.get("text"), a["text"]))
        if b.get("listing") is not None and b["listing"] != want_listing:
            problems.append(f"files left next to the target: {b['listing']}")
        if a.get("listing") != want_listing:
            problems.append(f"(UTF-8 run) files left next to the target: {a.get('listing')}")
        if problems:
            run.violation(f"C16 fails under a non-UTF-8 locale ({j['fmt']} target, {nonascii} non-ASCII characters in the "
                          f"schema): " + "; ".join(problems)[:500], replay)
        else:
            run.nontrivial_case(f"locale-{ctx.seed}-{len(run.nontrivial)}")
    run.extra["locale_runs"] = len(jobs)


def _settings_tie(ctx, run, tmp):
    """settings_ok (Model/SchemaGen.v) vs GraphQLSchemaSettings.__post_init__ on all ordered pairs of a name pool"""
    import keyword

    from ariadne_codegen.exceptions import InvalidConfiguration
    from ariadne_codegen.graphql_schema_generators import constants as C
    from ariadne_codegen.settings import GraphQLSchemaSettings

    pool = list(dict.fromkeys(
        TM_NAMES + SN_NAMES + BAD_NAMES + list(getattr(C, "RESERVED_VARIABLE_NAMES", ())) + keyword.kwlist
        + keyword.softkwlist + ["_", "__", "a1", "A", "cast_", "list", "typing", "graphql", "x y", "9", "a.b", "é"[:0] + "e"]))
    if not ctx.thorough:
        rng = random.Random(ctx.seed)
        keep = set(TM_NAMES + SN_NAMES + BAD_NAMES)
        pool = [n for n in pool if n in keep or rng.random() < 0.45]
    path = os.path.join(tmp, "settings_probe.graphql")
    open(path, "w").write("type Query { f: Int }\n")
    pairs = [(a, b) for a in pool for b in pool]
    ans = model.batch("C16", [[Sym("settings"), a, b] for a, b in pairs], chunk=2000)
    bad = 0
    for (tm, sn), a in zip(pairs, ans):
        run.count()
        try:
            GraphQLSchemaSettings(schema_path=path, target_file_path="x.py", schema_variable_name=sn,
                                  type_map_variable_name=tm)
            real = True
        except InvalidConfiguration:
            real = False
        mod = a[0] == "t"
        run.dist("settings", "accepted" if real else "refused")
        if real != mod:
            bad += 1
            if bad <= 5:
                run.broken("K1 settings_ok vs GraphQLSchemaSettings",
                           f"type_map_variable_name={tm!r} schema_variable_name={sn!r}: repo "
                           f"{'accepts' if real else 'refuses'}, model {'accepts' if mod else 'refuses'}")
    run.extra["settings_pairs"] = len(pairs)


def _check_schema_py_uses_tables(run):
    """the imports written by generate_schema_module must BE the tables of constants.py (the settings refuse exactly
    those names): every generate_import_from(names=...) in it is list(<table>)"""
    import inspect

    from ariadne_codegen.graphql_schema_generators import schema as M

    try:
        tree = ast.parse(inspect.getsource(M.generate_schema_module))
    except (OSError, TypeError, AttributeError) as e:
        run.broken("K2 schema.py import tables", f"cannot read generate_schema_module: {e}")
        return
    seen = []
    for n in ast.walk(tree):
        if isinstance(n, ast.Call) and isinstance(n.func, ast.Name) and n.func.id == "generate_import_from":
            kw = {k.arg: k.value for k in n.keywords}
            v = kw.get("names")
            ok = isinstance(v, ast.Call) and isinstance(v.func, ast.Name) and v.func.id in ("list", "tuple") \
                and len(v.args) == 1 and isinstance(v.args[0], ast.Name)
            if not ok:
                run.broken("K2 schema.py import tables", "generate_import_from(names=...) is not list(<constants table>): "
                           + ast.unparse(n)[:200])
                return
            seen.append((v.args[0].id, ast.literal_eval(kw["from_"]) if isinstance(kw.get("from_"), ast.Constant) else None))
    want = [("GRAPHQL_IMPORTS", "graphql"), ("TYPE_MAP_IMPORTS", "graphql.type.schema"), ("TYPING_IMPORTS", "typing")]
    if seen != want:
        run.broken("K2 schema.py import tables", f"imports written {seen}, expected {want}")


def _check_constructor_defaults(run):
    """eval_module gives an absent keyword the constructor's default: check those defaults in the installed graphql-core"""
    import inspect

    import graphql
    from graphql import Undefined

    want = {
        "GraphQLField": {"args": None, "description": None, "deprecation_reason": None},
        "GraphQLArgument": {"default_value": Undefined, "description": None, "deprecation_reason": None},
        "GraphQLInputField": {"default_value": Undefined, "description": None, "deprecation_reason": None},
        "GraphQLEnumValue": {"value": None, "description": None, "deprecation_reason": None},
        "GraphQLDirective": {"is_repeatable": False, "args": None, "description": None},
        "GraphQLScalarType": {"description": None, "specified_by_url": None},
        "GraphQLObjectType": {"interfaces": None, "description": None},
        "GraphQLInterfaceType": {"interfaces": None, "description": None},
        "GraphQLUnionType": {"description": None},
        "GraphQLEnumType": {"description": None},
        "GraphQLInputObjectType": {"description": None},
        "GraphQLSchema": {"query": None, "mutation": None, "subscription": None, "description": None},
    }
    for cls, kws in want.items():
        sig = inspect.signature(getattr(graphql, cls).__init__)
        for k, dflt in kws.items():
            p = sig.parameters.get(k)
            if p is None or p.default is not dflt:
                run.broken("K2 constructor defaults", f"{cls}({k}=...) default is {getattr(p, 'default', 'absent')!r}, "
                           f"eval_module assumes {dflt!r}")


SPECIFIED = ("include", "skip", "deprecated", "specifiedBy", "oneOf")


def _user_part(p):
    """schema structure without the specified directives (SDL does not carry them; their descriptions are
    graphql-core's own text, which the repo's introspection query does not ask for)"""
    return p[:4] + [[d for d in p[4] if d[0] not in SPECIFIED]] + p[5:]


def _sdl_numbers(x):
    """print_schema writes an integral float default of a custom scalar as an integer literal (ast_from_value),
    so the SDL round trip of graphql-core itself turns 1e16 into 10000000000000000: compare numerically"""
    if isinstance(x, list):
        if len(x) == 2 and x[0] == "f" and isinstance(x[1], str):
            try:
                v = float(x[1])
                if v.is_integer():
                    return ["i", int(v)]
            except (ValueError, OverflowError):
                pass
            return x
        return [_sdl_numbers(y) for y in x]
    return x


def _first_diff(a, b, path="$"):
    if type(a) is not type(b):
        return f"{path}: {a!r} != {b!r}"[:400]
    if isinstance(a, (list, tuple)):
        if len(a) != len(b):
            return f"{path}: length {len(a)} != {len(b)}: {str(a)[:150]} / {str(b)[:150]}"
        for i, (x, y) in enumerate(zip(a, b)):
            d = _first_diff(x, y, f"{path}[{i}]")
            if d:
                return d
        return None
    if isinstance(a, dict):
        if sorted(a) != sorted(b):
            return f"{path}: keys {sorted(a)} != {sorted(b)}"
        for k in a:
            d = _first_diff(a[k], b[k], f"{path}.{k}")
            if d:
                return d
        return None
    return None if a == b else f"{path}: {a!r} != {b!r}"[:400]


def _lost_features(server, loaded):
    """name what differs between the server's schema and what the strategy loaded"""
    lost = set()
    st = {t[0]: t for t in server[0]}
    for t in loaded[0]:
        s = st.get(t[0])
        if s is None:
            lost.add("type-set")
            continue
        if s[1] != t[1]:
            lost.add("type-description")
        ds, dl = s[2], t[2]
        if ds[0] == "scalar" and ds[1] != dl[1]:
            lost.add("specifiedBy")
        if ds[0] in ("object", "interface"):
            for fs, fl in zip(ds[2], dl[2]):
                if fs[3] != fl[3]:
                    lost.add("field-description")
                if [a[0] for a in fs[2]] != [a[0] for a in fl[2]]:
                    lost.add("deprecated-argument-dropped")
                else:
                    for a, b in zip(fs[2], fl[2]):
                        if a[3] != b[3]:
                            lost.add("argument-description")
                        if a[2] != b[2]:
                            lost.add("argument-default")
        if ds[0] == "input":
            if [a[0] for a in ds[1]] != [a[0] for a in dl[1]]:
                lost.add("deprecated-input-field-dropped")
            elif any(a[3] != b[3] for a, b in zip(ds[1], dl[1])):
                lost.add("input-field-description")
        if ds[0] == "enum" and any(a[2] != b[2] for a, b in zip(ds[1], dl[1])):
            lost.add("enum-value-description")
    if len(st) != len(loaded[0]):
        lost.add("type-set")
    sd = {d[0]: d for d in server[4]}
    for d in loaded[4]:
        s = sd.get(d[0])
        if s is None:
            continue
        if s[2] != d[2]:
            lost.add("directive-repeatable")
        if s[1] != d[1]:
            lost.add("directive-description")
        if [a[0] for a in s[4]] != [a[0] for a in d[4]]:
            lost.add("deprecated-directive-argument-dropped")
    if server[5] != loaded[5]:
        lost.add("schema-description")
    return sorted(lost) or ["other"]


# ---------------------------------------------------------------- K2 repr / literal_eval
def _py_of_p(v):
    tag = v[0]
    if tag == "n":
        return None
    if tag in ("b", "i", "s"):
        return v[1]
    if tag == "f":
        return float(v[1])
    if tag == "l":
        return [_py_of_p(x) for x in v[1:]]
    return {k: _py_of_p(x) for k, x in v[1:]}


def _rand_value(rng, depth=0):
    k = rng.randint(0, 8 if depth < 3 else 5)
    if k == 0:
        return None
    if k == 1:
        return rng.choice([True, False])
    if k == 2:
        return rng.choice([0, 1, -1, 7, -42, 10 ** 12, -(10 ** 30), 2 ** 63, 255])
    if k == 3:
        return rng.choice([0.0, -0.0, 1.5, 1e300, 1e-7, 5e-324, 1.7976931348623157e308, 1e16, 123456.789, -2.5e-10, 1e22, 1e21,
                           float("inf"), float("-inf")])
    if k in (4, 5):
        pool = "ab'\"\\ \n\t\r\x00\x01\x1f\x7f{}[]:,é日😀xN"
        return "".join(rng.choice(pool) for _ in range(rng.randint(0, 6)))
    if k in (6, 7):
        return [_rand_value(rng, depth + 1) for _ in range(rng.randint(0, 3))]
    return {("k%d" % i if rng.random() < 0.5 else rng.choice(["a", "it's", 'q"', "b\\", "é"]) + str(i)): _rand_value(rng, depth + 1)
            for i in range(rng.randint(0, 3))}


def _k2_values(ctx, run, live):
    import warnings

    with warnings.catch_warnings():
        warnings.simplefilter("ignore")        # SyntaxWarning from literal_eval on the malformed stream
        _k2_values_(ctx, run, live)


def _k2_values_(ctx, run, live):
    rng = ctx.rng
    values = []
    seen = set()
    for sc in live:
        for v in enc.schema_values(sc["p_loaded"]):
            key = json.dumps(v)
            if key not in seen:
                seen.add(key)
                values.append(v)
        for s in enc.schema_strings(sc["p_loaded"]):
            key = json.dumps(["s", s])
            if key not in seen:
                seen.add(key)
                values.append(["s", s])
    for _ in range(6000 if ctx.thorough else 1500):
        v = enc.p_val(_rand_value(rng))
        key = json.dumps(v)
        if key not in seen:
            seen.add(key)
            values.append(v)
    answers = model.batch("C16", [[Sym("repr"), enc.x_val(v)] for v in values], chunk=500)
    try:
        from ariadne_codegen.graphql_schema_generators.fields import generate_default_value as gdv
    except ImportError:           # a rename is not a violation: K1 still covers the route end to end
        gdv = None
        run.extra["k2_default_displays"] = "generate_default_value not importable: covered by K1 only"
    bad = 0
    texts = []
    for v, a in zip(values, answers):
        run.count()
        if model.is_error(a):
            run.broken("K2 repr", f"model error {a} on {v}")
            continue
        m_repr, m_wf, m_pyval, m_back, m_unparse, m_dv, m_tree, m_ev = a
        pv = _py_of_p(v)
        strings = [s for s in _strings_of(v)]
        in_dom = all(enc.in_fidelity_domain(s) for s in strings)
        nonfin = enc.has_nonfinite(v)
        run.dist("k2-values", v[0] + ("" if in_dom else ":nonprintable-unicode") + (":nonfinite" if nonfin else ""))
        if not in_dom:
            continue
        r = repr(pv)
        if m_repr != r:
            bad += 1
            run.broken("K2 py_repr vs repr", f"value {pv!r}: model {m_repr!r} python {r!r}")
        if m_unparse != ast.unparse(ast.Constant(pv)):
            bad += 1
            run.broken("K2 unparse_const vs ast.unparse", f"value {pv!r}: model {m_unparse!r} python {ast.unparse(ast.Constant(pv))!r}")
        try:
            back = ast.literal_eval(r)
            py_ok = enc.p_val(back) == v
        except (ValueError, SyntaxError):
            py_ok = False
        m_ok = m_back != "none" and enc.u_val(m_back[1]) == v
        if (m_wf == "t") != (not nonfin):
            run.broken("K2 wf_val", f"value {pv!r}: wf_val {m_wf} but non-finite={nonfin}")
        if m_ok != py_ok:
            bad += 1
            run.broken("K2 literal_eval(repr)", f"value {pv!r}: model round trip {m_ok}, python {py_ok}")
        texts.append(r)
        # defaults as displays: the repo's generate_default_value vs gen_dv, and their values
        if gdv is not None:
            src = ast.unparse(gdv(pv))
            try:
                tree = enc.strip_syms(enc.canon_expr(ast.parse(src, mode="eval").body))
            except (enc.CanonError, SyntaxError) as e:
                tree = f"canonicaliser: {type(e).__name__}: {e}"
            if tree != m_tree:
                bad += 1
                run.broken("K2 gen_dv vs generate_default_value", f"value {pv!r}: model {m_tree} repo {tree} ({src!r})")
            try:
                py_back = enc.p_val(eval(src, {"__builtins__": {}}))  # noqa: S307 - text produced two lines above
            except Exception as e:  # noqa: BLE001
                py_back = f"{type(e).__name__}"
            m_val = None if m_ev == "none" else enc.u_val(m_ev[1])
            if (m_dv == "t") and not (m_val == v and py_back == v):
                bad += 1
                run.broken("K2 ev_val(gen_dv)", f"value {pv!r}: dv_val holds, model gives {m_val}, python {py_back}")
            if (m_val == v) != (py_back == v):
                bad += 1
                run.broken("K2 ev_val(gen_dv)", f"value {pv!r}: model round trip {m_val == v}, python {py_back == v}")
            run.dist("k2-default-displays", "dv_val" if m_dv == "t" else "outside dv_val")
        if bad > 10:
            break
    # malformed / foreign stream: the model may refuse (outside its fragment) but must never disagree when it answers,
    # and must refuse what CPython refuses
    muts = []
    pool = "'\"\\[]{},: -0e.xnNTF1a\n"
    for t in texts[: (4000 if ctx.thorough else 1200)]:
        if not t:
            continue
        i = rng.randrange(len(t))
        k = rng.randint(0, 2)
        muts.append(t[:i] + t[i + 1:] if k == 0 else t[:i] + rng.choice(pool) + (t[i:] if k == 1 else t[i + 1:]))
    muts += ["[1,2]", "[1,  2]", "{'a':1}", "{'a': 1, 'a': 2}", "'\\x41'", '"\\x4g"', "[1, ]", "[,]", "--1", "1e5", "1.", ".5",
             "1e", "True", "None ", " None", "Nonee", "'a' 'b'", "[[[[[[]]]]]]", "{}", "{'a': {}}", "'\\u00e9'", "1_0", "00", "-0", "0x10"]
    res = model.batch("C16", [[Sym("leval"), t] for t in muts], chunk=500)
    agree = refused = 0
    for t, a in zip(muts, res):
        run.count()
        try:
            py = ("ok", enc.p_val(ast.literal_eval(t)))
        except (ValueError, SyntaxError, TypeError, MemoryError, RecursionError) as e:
            py = ("err", str(e))
        if a == "none":
            refused += 1
            run.dist("k2-malformed", "model-refuses/" + ("python-accepts(outside fragment)" if py[0] == "ok" else "python-refuses"))
            continue
        mv = enc.u_val(a[1])
        if py[0] == "ok" and py[1] == mv:
            agree += 1
            run.dist("k2-malformed", "both-accept-equal")
        elif py[0] == "err" and "leading zeros" in py[1]:
            run.dist("k2-malformed", "leading-zeros(int lexeme: documented model liberality)")
        elif py[0] == "ok" and _float_eq(py[1], mv):
            agree += 1
            run.dist("k2-malformed", "both-accept-equal(float lexeme differs)")
        else:
            run.broken("K2 py_literal_eval vs ast.literal_eval", f"text {t!r}: model {mv} python {py}")
    run.extra["k2_values"] = len(values)
    run.extra["k2_malformed"] = {"texts": len(muts), "both_accept": agree, "model_refuses": refused}


def _float_eq(a, b):
    """equal up to the spelling of float lexemes ('1e5' vs '100000.0')"""
    if a[0] != b[0]:
        return False
    if a[0] == "f":
        try:
            return float(a[1]) == float(b[1])
        except ValueError:
            return False
    if a[0] == "l":
        return len(a) == len(b) and all(_float_eq(x, y) for x, y in zip(a[1:], b[1:]))
    if a[0] == "d":
        return len(a) == len(b) and all(x[0] == y[0] and _float_eq(x[1], y[1]) for x, y in zip(a[1:], b[1:]))
    return a == b


def _strings_of(v):
    if v[0] == "s":
        yield v[1]
    elif v[0] == "l":
        for x in v[1:]:
            yield from _strings_of(x)
    elif v[0] == "d":
        for k, x in v[1:]:
            yield k
            yield from _strings_of(x)
