"""C13 through the GENERATED subscription methods (anchor client.py _generate_subscription_method_def /
_generate_async_generator_loop): packages are generated from $VERIF_REPO for a schema whose
subscriptions take variables NAMED LIKE THE METHOD'S OWN LOCALS AND PARAMETERS (query, variables, data,
response, kwargs, self, operationName, and spellings that snake-case onto them), with the plain and the
OpenTelemetry async base client; every generated method is RUN against a scripted fake connection and
the subscribe frame is compared with the AUTHORED document, the operation name and the caller's values
keyed by the GraphQL variable names; yielded models must dump back to the frames' data.
"""
from __future__ import annotations

import json
import os
import shutil
import subprocess
import tempfile

SCHEMA = '''
type Query { ok: Boolean }
input Filter { queryText: String, limit: Int }
type Hit { id: ID!, score: Int }
type Subscription {
  search(query: String!, limit: Int, variables: [String!], data: Filter, response: Boolean, kwargs: Int,
         self: String, operationName: String, json: String, message: String): Hit!
  count(a: Int): Int!
}
'''

# name -> (document, [(graphql variable, value given when "all", required?)], data of the next frames)
HIT2 = [{"search": {"id": "1", "score": 2}}, {"search": {"id": "2", "score": None}}]
HIT1 = [{"search": {"id": "1"}}, {"search": {"id": "2"}}]
FILTER = {"__input__": "Filter", "fields": {"queryText": "q", "limit": 1}}
FILTER_JSON = {"queryText": "q", "limit": 1}
OPS = {
    "Search": ("subscription Search($query: String!, $limit: Int) { search(query: $query, limit: $limit) { id score } }",
               [("query", "needle", True), ("limit", 3, False)], HIT2),
    "Watch": ("subscription Watch($query: String!, $variables: [String!], $data: Filter, $response: Boolean) "
              "{ search(query: $query, variables: $variables, data: $data, response: $response) { id } }",
              [("query", "needle", True), ("variables", ["x", "y"], False), ("data", FILTER, False), ("response", True, False)], HIT1),
    "Awkward": ("subscription Awkward($Query: String!, $kwargs: Int, $self: String, $operationName: String) "
                "{ search(query: $Query, kwargs: $kwargs, self: $self, operationName: $operationName) { id score } }",
                [("Query", "needle", True), ("kwargs", 7, False), ("self", "me", False), ("operationName", "op", False)], HIT2),
    "Camel": ("subscription Camel($queryStr: String!, $Variables: [String!], $Data: Filter, $_response: Boolean) "
              "{ search(query: $queryStr, variables: $Variables, data: $Data, response: $_response) { id } }",
              [("queryStr", "needle", True), ("Variables", ["x"], False), ("Data", FILTER, False), ("_response", False, False)], HIT1),
    "Wire": ("subscription Wire($json: String, $message: String, $data: Filter, $query: String!) "
             "{ search(query: $query, json: $json, message: $message, data: $data) { id } }",
             [("json", "j", False), ("message", "m", False), ("data", FILTER, False), ("query", "needle", True)], HIT1),
    "Plain": ("subscription Plain($a: Int) { count(a: $a) }", [("a", 5, False)], [{"count": 1}, {"count": 2}]),
}

DRIVER = r'''
import asyncio, importlib, inspect, json, sys

pkg_name, tracer_mode = sys.argv[1], sys.argv[2]
cases = json.load(open(sys.argv[3]))
pkg = importlib.import_module(pkg_name)
Client = pkg.Client
base_mod = sys.modules[Client.__mro__[1].__module__]


class Span:
    def __init__(self, name, log): self.name = name; log.append(name)
    def set_attribute(self, k, v): pass
    def __enter__(self): return self
    def __exit__(self, *a): return False


class Tracer:
    def __init__(self): self.spans = []
    def start_as_current_span(self, name, context=None, **kw): return Span(name, self.spans)


class Conn:
    def __init__(self, frames, log): self.frames, self.pos, self.log = frames, 0, log
    async def recv(self):
        self.pos += 1; return self.frames[self.pos - 1]
    def __aiter__(self): return self
    async def __anext__(self):
        if self.pos >= len(self.frames): raise StopAsyncIteration
        self.pos += 1; return self.frames[self.pos - 1]
    async def send(self, m): self.log.append(m)
    async def close(self, *a, **k): self.log.append("<close>")


class Connect:
    def __init__(self, frames): self.frames, self.log, self.calls = frames, [], []
    def __call__(self, *a, **k): self.calls.append([list(a), {x: (y if isinstance(y, (dict, list, str, int, float, bool, type(None))) else str(y)) for x, y in k.items()}]); return self
    async def __aenter__(self): return Conn(self.frames, self.log)
    async def __aexit__(self, *a): return False


def build(v):
    if isinstance(v, dict) and "__input__" in v:
        return getattr(pkg, v["__input__"])(**v["fields"])
    return v


async def one(case):
    kw = {"ws_url": "ws://gen.test/g"}
    if tracer_mode == "rec":
        kw["tracer"] = Tracer()
    client = Client(**kw)
    method = getattr(client, case["method"])
    params = [p for p in inspect.signature(method).parameters.values()]
    names = [p.name for p in params if p.kind is not p.VAR_KEYWORD]
    conn = Connect(case["frames"])
    base_mod.ws_connect = conn
    out = {"params": names, "yields": [], "fin": "finished"}
    try:
        async for item in method(*[build(a) for a in case["args"]], **case.get("kwargs", {})):
            out["yields"].append({"type": type(item).__name__, "dump": item.model_dump(by_alias=True, mode="json")})
    except BaseException as e:
        out["fin"] = type(e).__name__
    out["sent"] = conn.log
    out["connect"] = conn.calls
    await client.http_client.aclose()
    return out


async def main():
    return [await one(c) for c in cases]

print(json.dumps(asyncio.run(main())))
'''


def _norm_doc(text):
    from graphql import parse, print_ast

    return print_ast(parse(text))


def build_cases():
    cases = []
    for name, (doc, vars_, datas) in OPS.items():
        frames = [json.dumps({"type": "connection_ack"})] + \
                 [json.dumps({"type": "next", "id": "1", "payload": {"data": d}}) for d in datas] + \
                 [json.dumps({"type": "complete", "id": "1"})]
        # positional order of the generated signature: required variables first (Python needs parameters without
        # default before those with one), each group in declared order
        vars_ = [v for v in vars_ if v[2]] + [v for v in vars_ if not v[2]]
        for mode in ("all", "required-only"):
            given = vars_ if mode == "all" else [v for v in vars_ if v[2]]
            args = [v[1] for v in given]
            # positions before the last required one that are optional stay given (positional call)
            expected_vars = {v[0]: (FILTER_JSON if v[1] is FILTER else v[1]) for v in given}
            cases.append({"op": name, "mode": mode, "method": name.lower(), "args": args, "frames": frames,
                          "kwargs": {"extra_headers": {"X-Gen": name}} if mode == "all" else {},
                          "expect": {"doc": doc, "opname": name, "variables": expected_vars, "datas": datas,
                                     "n_params": len(vars_)}})
        # an error frame must come out of the generated method as the package's multi-error
        cases.append({"op": name, "mode": "error", "method": name.lower(), "args": [v[1] for v in vars_],
                      "frames": frames[:2] + [json.dumps({"type": "error", "id": "1", "payload": [{"message": "boom"}]})],
                      "kwargs": {}, "expect": {"doc": doc, "opname": name,
                                               "variables": {v[0]: (FILTER_JSON if v[1] is FILTER else v[1]) for v in vars_},
                                               "datas": datas[:1], "n_params": len(vars_), "fin": "GraphQLClientGraphQLMultiError"}})
    return cases


def run(ctx):
    run = ctx.run
    repo = os.environ.get("VERIF_REPO", "/repo")
    tmp = tempfile.mkdtemp(prefix="c13gen_")
    info = {"packages": 0, "method_runs": 0, "failing": 0,
            "what": "generated async packages (plain / OpenTelemetry base client, the latter with and without a tracer) for 6 "
                    "subscriptions whose variables are named like the generated method's locals and parameters; every method run "
                    "(all arguments / required only / error frame) on a scripted connection; subscribe frame vs authored document, "
                    "operation name and caller's values; yielded models vs frame data"}
    run.extra["generated_methods"] = info
    try:
        with open(os.path.join(tmp, "schema.graphql"), "w") as f:
            f.write(SCHEMA)
        with open(os.path.join(tmp, "queries.graphql"), "w") as f:
            f.write("\n".join(d for d, _, _ in OPS.values()) + "\n")
        with open(os.path.join(tmp, "driver.py"), "w") as f:
            f.write(DRIVER)
        cases = build_cases()
        with open(os.path.join(tmp, "cases.json"), "w") as f:
            json.dump([{k: c[k] for k in ("method", "args", "frames", "kwargs")} for c in cases], f)
        env = dict(os.environ, PYTHONPATH=f"{repo}:{tmp}", PYTHONDONTWRITEBYTECODE="1")
        shown = 0
        for otel in (False, True):
            name = "c13pkg_" + ("o" if otel else "p")
            cfg = os.path.join(tmp, name + ".toml")
            with open(cfg, "w") as f:
                f.write('[tool.ariadne-codegen]\nschema_path = "schema.graphql"\nqueries_path = "queries.graphql"\n'
                        f'target_package_name = "{name}"\nasync_client = true\n'
                        f'opentelemetry_client = {str(otel).lower()}\ninclude_comments = "none"\n')
            g = subprocess.run(["/venv/bin/python", "-m", "ariadne_codegen", "client", "--config", cfg], cwd=tmp, env=env,
                               stdout=subprocess.PIPE, stderr=subprocess.STDOUT, timeout=300)
            if g.returncode != 0 or not os.path.isdir(os.path.join(tmp, name)):
                run.violation("generated subscriptions: generation FAILED for subscriptions whose variables are named like method "
                              "locals: " + g.stdout.decode(errors="replace")[-600:],
                              {"schema": SCHEMA, "operations": {k: v[0] for k, v in OPS.items()}, "opentelemetry_client": otel,
                               "output": g.stdout.decode(errors="replace")[-3000:]}, found_input=True)
                info["failing"] += 1
                continue
            info["packages"] += 1
            for tracer in (["none", "rec"] if otel else ["none"]):
                p = subprocess.run(["/venv/bin/python", "driver.py", name, tracer, "cases.json"], cwd=tmp, env=env,
                                   stdout=subprocess.PIPE, stderr=subprocess.PIPE, timeout=600)
                if p.returncode != 0:
                    run.violation("generated subscriptions: the generated package cannot be imported / driven: "
                                  + p.stderr.decode(errors="replace")[-600:],
                                  {"schema": SCHEMA, "operations": {k: v[0] for k, v in OPS.items()}, "opentelemetry_client": otel,
                                   "stderr": p.stderr.decode(errors="replace")[-3000:]}, found_input=True)
                    info["failing"] += 1
                    continue
                results = json.loads(p.stdout)
                variant = ("otel-tracer" if tracer == "rec" else "otel") if otel else "plain"
                for c, r in zip(cases, results):
                    info["method_runs"] += 1
                    run.count()
                    run.dist("generated_methods", f"{variant}:{c['op']}:{c['mode']}")
                    e = c["expect"]
                    problems = []
                    if len(r["params"]) != e["n_params"]:
                        problems.append(f"method has parameters {r['params']} for {e['n_params']} variables")
                    sent = [json.loads(m) for m in r["sent"] if m != "<close>"]
                    if not sent or sent[0] != {"type": "connection_init"}:
                        problems.append(f"first message is not connection_init: {sent[:1]}")
                    subs = [m for m in sent if m.get("type") == "subscribe"]
                    if len(subs) != 1 or len(sent) != 2 or sent[1:] != subs:
                        problems.append(f"messages sent are not [init, subscribe]: {[m.get('type') for m in sent]}")
                    if subs:
                        pl = subs[0].get("payload", {})
                        q = pl.get("query")
                        try:
                            same = isinstance(q, str) and _norm_doc(q) == _norm_doc(e["doc"])
                        except Exception:  # noqa: BLE001
                            same = False
                        if not same:
                            problems.append(f"subscribe carries query {q!r} instead of the authored document")
                        if pl.get("operationName") != e["opname"]:
                            problems.append(f"operationName {pl.get('operationName')!r} != {e['opname']!r}")
                        if json.dumps(pl.get("variables", {}), sort_keys=True) != json.dumps(e["variables"], sort_keys=True):
                            problems.append(f"variables {pl.get('variables')!r} != the caller's values {e['variables']!r}")
                    if r["fin"] != e.get("fin", "finished"):
                        problems.append(f"outcome {r['fin']} instead of {e.get('fin', 'finished')}")
                    if [y["dump"] for y in r["yields"]] != e["datas"]:
                        problems.append(f"yielded {[y['dump'] for y in r['yields']]} instead of the frames' data {e['datas']}")
                    if any(y["type"] != e["opname"] for y in r["yields"]):
                        problems.append(f"yielded objects are {[y['type'] for y in r['yields']]}, not {e['opname']} models")
                    if c["kwargs"] and (not r["connect"] or c["kwargs"]["extra_headers"].items() > (
                            r["connect"][0][1].get("extra_headers") or r["connect"][0][1].get("additional_headers") or {}).items()):
                        problems.append(f"**kwargs of the generated method did not reach ws_connect: {r['connect']}")
                    if problems:
                        info["failing"] += 1
                        if info["failing"] <= 3:
                            run.violation(
                                "generated method %s(%s) of the %s client, operation %s: %s" % (
                                    c["method"], c["mode"], variant, json.dumps(e["doc"]), "; ".join(problems)),
                                {"variant": variant, "schema": SCHEMA, "operation": e["doc"], "method": c["method"],
                                 "arguments": c["args"], "frames": c["frames"], "observed": r, "expected": e}, found_input=True)
                    elif shown < 1 and c["op"] == "Watch" and c["mode"] == "all":
                        shown += 1
                        run.sample({"generated_method": "watch", "variant": variant, "operation": e["doc"],
                                    "subscribe_variables": subs[0]["payload"].get("variables"), "yielded": r["yields"]}, limit=14)
    finally:
        shutil.rmtree(tmp, ignore_errors=True)
