"""C06 — Input models accept exactly the schema's input values, with its defaults.

K1  generated input_types.py (parsed with `ast`, canonicalised: class order, field name, alias, annotation,
    default expression, model_rebuild calls, enum imports) vs Model/Inputs.v + Model/Defaults.v; real
    pydantic `model_fields` (alias, required) vs the model's reading of the emitted right-hand sides.
K2  Gql/InCoerce.v coerce_input / coerced_default vs graphql-core coerce_input_value / the schema's
    default_value (value_from_ast); Py/PyEval.v validate vs pydantic model_validate on the real classes
    (canonical values and labelled mutations, lax conversions included).
K3  direct oracle on the real generated classes in a fresh interpreter: every canonical value graphql-core
    accepts builds the model by alias and by Python field name; a value lacking a required field is refused;
    defaults read back equal to graphql-core's coerced defaults; an instance sent through a generated client
    method reaches the resolver (graphql-core executing the captured request) equal to the coerced value,
    defaults included.
"""
from __future__ import annotations

import json
import keyword
import random

from graphql import (EnumValueNode, GraphQLEnumType, GraphQLInputObjectType, GraphQLList, GraphQLNonNull,
                     IntValueNode, ListValueNode, NullValueNode, ObjectValueNode, StringValueNode, Undefined,
                     build_client_schema, build_schema, coerce_input_value, get_named_type,
                     introspection_from_schema)

from .. import model
from ..canon import inputs as ci
from ..gen import input_values as iv
from ..gen import inputs_schema
from ..impl import scen, workers
from ..sexp import Sym, json_sx, sx_json

# streams of inputs_schema that are open finding classes; "kw_enum_default" (former F9c, fixed by a742038) stays a
# generated stream as a regression case: a failure there is a VIOLATION.  The former F21 witnesses (null items under
# a non-null list) are part of every "nulls"/"rand" value: a refusal there is a VIOLATION too.
REGRESSION_STREAMS = ["kw_enum_default", "obj_enum_default", "list_obj_default",   # F9c, F9a, F9b: fixed
                      "coerced_default",                                          # F9d: fixed (e1f804e)
                      "colliding_names",                                          # F18/F18b: fixed (bec4417, a4347c6)
                      "enum_positions", "falsy_defaults"]   # systematic positions / falsy values (main class)
STREAM_CLASS = {

}
F18 = "F18-duplicate-graphql-field-names"   # never open: names_ok_fields is only GraphQL-name uniqueness now (F18/F18b fixed)
CANONICAL = ("min", "full", "nulls", "rand", "corpus")


# ------------------------------------------------------------------ helpers
def eq_json(a, b) -> bool:
    """Python equality with bool kept apart from numbers"""
    if isinstance(a, bool) or isinstance(b, bool):
        return isinstance(a, bool) and isinstance(b, bool) and a == b
    if isinstance(a, dict) and isinstance(b, dict):
        return a.keys() == b.keys() and all(eq_json(a[k], b[k]) for k in a)
    if isinstance(a, list) and isinstance(b, list):
        return len(a) == len(b) and all(eq_json(x, y) for x, y in zip(a, b))
    if isinstance(a, (dict, list)) or isinstance(b, (dict, list)):
        return False
    return a == b


def eq_default(py, coerced) -> bool:
    """read-back value vs coerced schema default: an absent key and an explicit null are the same thing for a
    nullable field without default (the instance always carries the attribute)"""
    if isinstance(py, dict) and isinstance(coerced, dict):
        return all(eq_default(py.get(k), coerced.get(k)) for k in set(py) | set(coerced))
    if isinstance(py, list) and isinstance(coerced, list):
        return len(py) == len(coerced) and all(eq_default(x, y) for x, y in zip(py, coerced))
    return eq_json(py, coerced)


def lit_has_obj_with_enum(node, inside_obj=False):
    if isinstance(node, EnumValueNode):
        return inside_obj
    if isinstance(node, ListValueNode):
        return any(lit_has_obj_with_enum(v, inside_obj) for v in node.values)
    if isinstance(node, ObjectValueNode):
        return any(lit_has_obj_with_enum(f.value, True) for f in node.fields)
    return False


def lit_has_list_with_obj(node, inside_list=False, inside_obj=False):
    """an object directly reachable through list nesting only (not below another object)"""
    if isinstance(node, ObjectValueNode):
        return inside_list and not inside_obj
    if isinstance(node, ListValueNode):
        return any(lit_has_list_with_obj(v, True, inside_obj) for v in node.values)
    return False


def lit_has_kw_enum(node):
    if isinstance(node, EnumValueNode):
        return keyword.iskeyword(node.value)
    if isinstance(node, ListValueNode):
        return any(lit_has_kw_enum(v) for v in node.values)
    if isinstance(node, ObjectValueNode):
        return any(lit_has_kw_enum(f.value) for f in node.fields)
    return False


def lit_relies_on_coercion(t, node):
    """scalar literal for a list type, or Int literal for ID, anywhere in the literal"""
    if isinstance(t, GraphQLNonNull):
        return lit_relies_on_coercion(t.of_type, node)
    if isinstance(node, NullValueNode):
        return False
    if isinstance(t, GraphQLList):
        if not isinstance(node, ListValueNode):
            return True
        return any(lit_relies_on_coercion(t.of_type, v) for v in node.values)
    if isinstance(t, GraphQLInputObjectType) and isinstance(node, ObjectValueNode):
        return any(lit_relies_on_coercion(t.fields[f.name.value].type, f.value)
                   for f in node.fields if f.name.value in t.fields)
    if getattr(t, "name", "") == "ID" and isinstance(node, IntValueNode):
        return True
    return False


def default_class(t, node):
    return None


def lit_shape(node) -> str:
    if isinstance(node, ListValueNode):
        inner = sorted({lit_shape(v) for v in node.values}) or ["empty"]
        return "list(" + "|".join(inner) + ")"
    if isinstance(node, ObjectValueNode):
        inner = sorted({lit_shape(f.value) for f in node.fields}) or ["empty"]
        return "obj(" + "|".join(inner) + ")"
    return type(node).__name__.replace("ValueNode", "").lower()


def wrapper_shape(t) -> str:
    if isinstance(t, GraphQLNonNull):
        return wrapper_shape(t.of_type) + "!"
    if isinstance(t, GraphQLList):
        return "[" + wrapper_shape(t.of_type) + "]"
    nt = t
    if isinstance(nt, GraphQLEnumType):
        return "E"
    if isinstance(nt, GraphQLInputObjectType):
        return "I"
    return "S" if nt.name in ("Int", "Float", "String", "Boolean", "ID") else "C"


def schema_reach(gs, t, acc=None):
    """input object types reachable from named type t through input fields"""
    acc = set() if acc is None else acc
    if isinstance(t, GraphQLInputObjectType) and t.name not in acc:
        acc.add(t.name)
        for f in t.fields.values():
            schema_reach(gs, get_named_type(f.type), acc)
    return acc


def model_err_to_exc(e):
    return {"ValidationError": "ValidationError", "AttributeError": "AttributeError", "NameError": "NameError",
            "SyntaxError": "SyntaxError"}.get(e, e)


# ------------------------------------------------------------------ one scenario
class Case:
    """everything computed for one generated scenario; verdicts are appended to self.out as
    (kind, class_or_None, what, replay) and counters to self.cnt / self.dist"""

    def __init__(self, g, thorough):
        self.g, self.thorough = g, thorough
        self.out, self.cnt, self.dist, self.samples = [], {}, {}, []
        self.nontrivial = set()

    def c(self, k, n=1):
        self.cnt[k] = self.cnt.get(k, 0) + n

    def d(self, key, sub, n=1):
        self.dist.setdefault(key, {})
        self.dist[key][sub] = self.dist[key].get(sub, 0) + n

    def rep(self, **kw):
        g = self.g
        r = {"seed": g.sc.seed, "features": list(g.sc.features), "schema": g.sc.sdl, "queries": g.sc.queries,
             "config": g.res.get("config"),
             "schema_source": "introspection (loopback server)" if getattr(g, "introspected", False) else "sdl"}
        r.update(kw)
        return r

    def violation(self, what, **kw):
        self.out.append(("violation", None, what, self.rep(**kw)))

    def finding(self, cls, what, **kw):
        self.out.append(("finding", cls, what, self.rep(**kw)))

    def broken(self, stage, detail):
        if len(detail) > 3000:
            detail = detail[:1800] + "\n[...]\n" + detail[-1000:]
        self.out.append(("broken", None, stage, {"detail": detail, "seed": self.g.sc.seed,
                                                 "features": list(self.g.sc.features), "schema": self.g.sc.sdl}))

    def stream_class(self):
        for f in self.g.sc.features:
            if f in STREAM_CLASS:
                return STREAM_CLASS[f]
        return None


def run_case(g, thorough: bool) -> Case:
    cs = Case(g, thorough)
    rng = random.Random(g.sc.seed * 7919 + 1)
    gs = g.gs_harness          # built and fully resolved in the main thread by run()
    cfg = g.res.get("config", {}) or g.sc.config
    snake = cfg.get("convert_to_snake_case", True)
    scalars_cfg = cfg.get("scalars")
    # the schema object the generator works on: built from SDL, or (introspected variant) from the introspection
    # result, where fields have no SDL node and the default literal is re-rendered from the coerced default
    introspected = getattr(g, "introspected", False)
    gsm = g.gsm_harness if introspected else gs
    cs.d("schema_source", "introspection" if introspected else "sdl")
    cs.d("config", f"snake={'on' if snake else 'off'},custom_scalar={'configured' if scalars_cfg else 'plain'}")
    ssx, csx = ci.schema_sx(gsm), ci.customs_sx(scalars_cfg)

    def emitted_literal(tn_, fn_):
        """the default literal the generator sees for field tn_.fn_ (SDL node, or re-rendered when introspected)"""
        f_ = gsm.type_map[tn_].fields[fn_]
        return f_.ast_node.default_value if f_.ast_node is not None else ci.rebuilt_default(f_)

    def classes_behind(tnames):
        """finding classes of the defaults of the input types reachable (through fields) from the given types"""
        out = set()
        for n0 in tnames:
            for n1 in schema_reach(gs, gs.type_map[n0]):
                for fn_, f_ in gs.type_map[n1].fields.items():
                    node_ = emitted_literal(n1, fn_)
                    if node_ is not None:
                        c_ = default_class(f_.type, node_)
                        if c_:
                            out.add(c_)
        return out
    enums = {n for n, t in gs.type_map.items() if isinstance(t, GraphQLEnumType) and not n.startswith("__")}
    in_types = [t for n, t in gs.type_map.items() if isinstance(t, GraphQLInputObjectType)]
    feats = "+".join(g.sc.features) or "main"
    cs.d("scenarios", feats)
    for t in in_types:
        for fn, f in t.fields.items():
            cs.d("field_type_shape", wrapper_shape(f.type))
            if f.ast_node.default_value is not None:
                cs.d("default_literal_shape", lit_shape(f.ast_node.default_value))
            pn = fn
            cs.d("field_name_kind", "keyword" if keyword.iskeyword(fn) else "leading_underscore" if fn.startswith("_")
                 else "camel" if any(c.isupper() for c in fn) else "plain")
    # ---------------- model side, one batch
    cmds = [[Sym("module"), ssx, csx, snake], [Sym("guards"), ssx, csx, snake]]
    dflt_idx = {}
    for t in in_types:
        for fn, f in t.fields.items():
            if f.ast_node.default_value is not None:
                dflt_idx[(t.name, fn)] = len(cmds)
                cmds.append([Sym("default"), ssx, ci.type_sx(f.type), ci.lit_sx(f.ast_node.default_value)])
    fd_idx = {}
    for t in in_types:
        fd_idx[t.name] = len(cmds)
        cmds.append([Sym("field_defaults"), ssx, csx, snake, t.name])
    # values
    vg = iv.VGen(gs, rng)
    values = {}  # type -> [(label, canonical?, value)]
    n_rand = 3 if not thorough else 8
    for t in in_types:
        rows = []
        for mode in ["min", "full", "nulls"] + ["rand"] * n_rand:
            rows.append((mode, vg.value(GraphQLNonNull(t), mode)))
        base = vg.value(GraphQLNonNull(t), "full")
        muts = vg.mutations(t, base)
        for label, w in muts[: (10 if not thorough else 40)]:
            rows.append((label, w))
        # always keep the drop_required mutations (K3 b)
        for label, w in muts[10:] if not thorough else []:
            if label == "drop_required":
                rows.append((label, w))
        for acc in (g.sc.notes.get("accept") or []):
            if acc["type"] == t.name:
                rows.append(("corpus", acc["value"]))
        values[t.name] = rows
    val_idx = {}
    for t in in_types:
        for i, (label, v) in enumerate(values[t.name]):
            tsx = ci.type_sx(GraphQLNonNull(t))
            val_idx[(t.name, i)] = len(cmds)
            cmds.append([Sym("coerce"), ssx, tsx, json_sx(v)])
            cmds.append([Sym("validate"), ssx, csx, snake, tsx, json_sx(v)])
            cmds.append([Sym("rename"), ssx, snake, tsx, json_sx(v)])
            cmds.append([Sym("canon"), ssx, tsx, json_sx(v)])
    res = model.batch("C06", cmds, jobs=1)
    for r in res:
        if model.is_error(r):
            cs.broken("model-command", repr(r))
            return cs
    m_module, m_guards = res[0], res[1]
    guards = {row[0]: {"names_ok": row[1] == "t"} for row in m_guards}
    collide = {tn for tn, gd in guards.items() if not gd["names_ok"]}
    for tn, gd in guards.items():
        cs.d("guards", "names_collide" if not gd["names_ok"] else "names_ok")

    # ---------------- generation outcome
    model_syntax = any("SyntaxError" in json.dumps(res[i]) for i in fd_idx.values())
    if not g.ok:
        cs.c("evaluations")
        what = f"generation fails: {g.res.get('exc')}"
        if model_syntax:
            cs.violation(what + " (model predicts a syntax error in a default expression)", observed=g.res.get("exc"))
        else:
            cs.violation(what + " (model predicts a loadable module: K1 broken too)", observed=g.res.get("exc"))
        return cs
    files = g.files()
    text = files.get("input_types.py")
    if text is None:
        cs.violation("no input_types.py generated", files=sorted(files))
        return cs
    # ---------------- K1
    cs.c("evaluations")
    k1_ok = True
    try:
        real = ci.canon_module(text, enums)
    except SyntaxError as exc:
        cs.violation(f"generated input_types.py is not valid Python: {exc}", observed=str(exc), file=text)
        return cs
    except ci.CanonError as exc:
        cs.broken("K1 canonicaliser cannot read input_types.py", f"{exc}\n{text[:1500]}")
        return cs
    mm = [ci.norm_model_expr([[c[0], [f[:4] for f in c[1]]] for c in m_module[0]]), m_module[1],
          sorted(set(m_module[2]))]
    if mm != real:
        k1_ok = False
        diff = []
        if [c[0] for c in mm[0]] != [c[0] for c in real[0]]:
            diff.append({"class_order": {"model": [c[0] for c in mm[0]], "real": [c[0] for c in real[0]]}})
        for a, b in zip(mm[0], real[0]):
            if a != b:
                for fa, fb in zip(a[1], b[1]):
                    if fa != fb:
                        diff.append({"class": a[0], "model": fa, "real": fb})
                if len(a[1]) != len(b[1]):
                    diff.append({"class": a[0], "model_fields": len(a[1]), "real_fields": len(b[1])})
        if mm[1:] != real[1:]:
            diff.append({"rebuilds_enums": {"model": mm[1:], "real": real[1:]}})
        cs.k1_diff = diff[:6]
    # K1d: member names in the generated enums.py vs the model's member_name (what default expressions refer to)
    etext = files.get("enums.py")
    if etext is not None:
        import ast as pyast

        real_members = {}
        for st in pyast.parse(etext).body:
            if isinstance(st, pyast.ClassDef):
                for b in st.body:
                    if isinstance(b, pyast.Assign) and isinstance(b.value, pyast.Constant):
                        real_members[(st.name, b.value.value)] = b.targets[0].id
        keys = sorted(real_members)
        mm_names = model.batch("C06", [[Sym("member_name"), v] for _e, v in keys], jobs=1)
        for (en, v), mn in zip(keys, mm_names):
            cs.c("evaluations")
            if real_members[(en, v)] != mn:
                k1_ok = False
                cs.k1_diff = getattr(cs, "k1_diff", []) + [{"enum": en, "value": v, "model_member": mn,
                                                             "real_member": real_members[(en, v)]}]
    n_fields = sum(len(c[1]) for c in real[0])
    cs.c("k1_fields", n_fields)
    # ---------------- load the real package
    drv = workers.Worker("c06_driver.py", env=workers.child_env())
    try:
        ld = drv.ask({"cmd": "load", "parent": g.dir if False else __import__("os").path.dirname(g.res["target"]),
                      "pkg": __import__("os").path.basename(g.res["target"]), "sdl": g.sc.sdl,
                      "client_name": cfg.get("client_name", "Client")})
        if not ld.get("ok") or ld.get("incomplete"):
            what = f"generated package does not load: {ld.get('modules')} incomplete={ld.get('incomplete')}"
            cs.violation(what, observed=ld)
            return cs
        # K1b: real pydantic fields vs the model's reading of the right-hand sides
        real_classes = drv.ask({"cmd": "classes"}).get("classes", {})
        for c in m_module[0]:
            eff = {}
            for f in c[1]:
                present, alias = ci.optv(f[3])
                eff[f[0]] = {"alias": alias if present else None, "required": f[4] == "t"}
            got = {n: {"alias": d["alias"], "required": d["required"]} for n, d in real_classes.get(c[0], {}).items()}
            cs.c("evaluations")
            if eff != got:
                k1_ok = False
                cs.k1_diff = getattr(cs, "k1_diff", []) + [{"class": c[0], "model_fields": eff, "pydantic_fields": got}]
        # ---------------- K2a: coerced defaults
        for (tn, fn), i in dflt_idx.items():
            f = gs.type_map[tn].fields[fn]
            present, payload = ci.optv(res[i])
            cs.c("evaluations")
            cs.c("k2_defaults")
            lib = f.default_value
            if (lib is Undefined) != (not present) or (present and not eq_json(ci.cvalue_py(payload), lib)):
                cs.broken("K2 coerced_default vs graphql-core value_from_ast",
                          f"{tn}.{fn}: model {res[i]!r} library {lib!r}")
        # ---------------- per value: K2b, K2c, K3a, K3b
        for t in in_types:
            tn = t.name
            vals = values[tn]
            probe = drv.ask({"cmd": "probe", "type": tn, "values": [v for _l, v in vals]})
            rows = probe.get("rows")
            if rows is None:
                cs.broken("driver probe", json.dumps(probe)[:1500])
                continue
            for i, ((label, v), row) in enumerate(zip(vals, rows)):
                base = val_idx[(tn, i)]
                m_co, m_va = res[base], res[base + 1]
                # K2d: the by-name form of the theorem (Model/Inputs.v rename) vs the key renaming done with the real
                # classes' alias tables (only where names do not collide and the value is schema-valid)
                if "renamed" in row and label in CANONICAL and \
                        not (iv.reachable_inputs(t, v) & collide):
                    if not eq_json(sx_json(res[base + 2]), row["renamed"]):
                        cs.broken("K2 rename (by Python name) vs real classes",
                                  f"{tn} {v!r}: model {sx_json(res[base + 2])!r} real {row['renamed']!r}")
                cs.c("evaluations")
                cs.d("value_kind", label)
                if label in ("nulls", "rand") and iv.f21_null(t, v):
                    cs.d("regression_cases", "null item under a non-null list (former F21)")
                cs.nontrivial.add(hash((g.sc.seed, tn, json.dumps(v, sort_keys=True, default=str))))
                # library coercion
                try:
                    lib_v = coerce_input_value(v, GraphQLNonNull(t))
                    lib_ok = True
                except Exception as exc:  # GraphQLError
                    lib_ok, lib_v = False, str(exc)[:200]
                m_present, m_payload = ci.optv(m_co)
                # K2b
                if m_present:
                    if not lib_ok or not eq_json(ci.cvalue_py(m_payload), lib_v):
                        cs.broken("K2 coerce_input vs graphql-core coerce_input_value",
                                  f"{tn} {label} {v!r}: model {m_co!r} library {lib_v!r}")
                elif lib_ok and label not in iv.NONCANONICAL:
                    cs.broken("K2 coerce_input refuses what graphql-core accepts",
                              f"{tn} {label} {v!r}: library {lib_v!r}")
                # K2c: model validate vs pydantic (by alias)
                ra = row["alias"]
                mres, macc = m_va
                touches = iv.reachable_inputs(t, v)
                configured = bool(scalars_cfg)
                if configured:
                    cs.d("skipped", "K2-validate-with-configured-custom-scalar")
                elif mres[0] == "ok":
                    if not ra["ok"]:
                        cs.broken("K2 validate vs pydantic", f"{tn} {label} {v!r}: model ok, pydantic {ra['exc']}")
                    else:
                        dp, dpl = ci.optv(mres[1])
                        if dp and not eq_json(sx_json(dpl), ra.get("dump")):
                            cs.broken("K2 validate dump vs pydantic model_dump",
                                      f"{tn} {label} {v!r}: model {sx_json(dpl)!r} pydantic {ra.get('dump')!r}")
                else:
                    want = model_err_to_exc(mres[1])
                    if ra["ok"] or ra["exc"][0] != want:
                        cs.broken("K2 validate vs pydantic",
                                  f"{tn} {label} {v!r}: model {mres!r}, pydantic {ra.get('exc') or 'ok'}")
                # K3e: the converse on the real code, on values in canonical form (Gql/InCoerce.v canon): what the real
                # pydantic class accepts, graphql-core's coercion accepts too
                if res[base + 3] == "t" and not scalars_cfg:
                    cs.d("canon_values", label)
                    if row["alias"]["ok"] and not lib_ok and not (iv.reachable_inputs(t, v) & collide):
                        cs.violation(f"canonical-form value accepted by the generated model but refused by the schema: "
                                     f"input {tn} ({label}): {lib_v}", input_type=tn, value=v, observed=row["alias"].get("dump"))
                # K3a / K3b: the property itself, on the real classes, against the library's verdict
                canonical = label in CANONICAL
                for how in ("alias", "name"):
                    rr = row.get(how)
                    if rr is None:
                        continue
                    if canonical and lib_ok and not rr["ok"]:
                        what = (f"schema-valid value refused when built by {how}: input {tn}, "
                                f"{rr['exc'][0]}: {rr['exc'][1][:200]}")
                        kw = dict(input_type=tn, value=v, by=how, observed=rr["exc"], coerced=lib_v)
                        # an uncoerced default (F9d) surfacing from a default factory has this signature
                        sig = rr["exc"][0] == "ValidationError" and (
                            ("type=string_type" in rr["exc"][1] and "input_type=int" in rr["exc"][1])
                            or "type=list_type" in rr["exc"][1])
                        behind = classes_behind(touches) if sig else set()
                        if touches & collide:
                            cs.finding(F18, what, **kw)
                        elif cs.stream_class() and cs.stream_class() != F18:
                            cs.finding(cs.stream_class(), what, **kw)
                        elif behind:
                            # the failure comes out of a default factory of a class carrying a default of that class
                            cs.finding(sorted(behind)[0], what, **kw)
                        else:
                            cs.violation(what, **kw)
                    if label == "drop_required" and rr["ok"]:
                        what = f"value lacking a required field accepted when built by {how}: input {tn}"
                        kw = dict(input_type=tn, value=v, by=how, observed=rr.get("dump"))
                        if tn in collide:
                            cs.finding(F18, what, **kw)
                        else:
                            cs.violation(what, **kw)
                if canonical and len(cs.samples) < 1 and v:
                    cs.samples.append({"input": tn, "value": v, "by_alias": row["alias"].get("unset_dump")})
            # ---------------- K3c: defaults read back; K1c: model's prediction of each default
            minv = vals[0][1]
            dd = drv.ask({"cmd": "defaults", "type": tn, "value": minv})
            m_fd = {row[1]: row for row in res[fd_idx[tn]]}
            cs.c("evaluations")
            if not dd.get("ok"):
                what = f"instance of {tn} with only its required fields cannot be created: {dd.get('exc')}"
                kw = dict(input_type=tn, value=minv, observed=dd.get("exc"))
                # which defaulted field is to blame, by literal shape
                blame = None
                for fn, f in t.fields.items():
                    if f.ast_node.default_value is not None and fn not in minv:
                        blame = blame or default_class(f.type, emitted_literal(tn, fn))
                for other in iv.reachable_inputs(GraphQLNonNull(t), minv) - {tn}:
                    for fn, f in gs.type_map[other].fields.items():
                        if f.ast_node.default_value is not None:
                            blame = blame or default_class(f.type, emitted_literal(other, fn))
                if not blame and cs.stream_class() and cs.stream_class() != F18:
                    blame = cs.stream_class()   # an object default instantiates the class that carries the bad default
                if not blame:
                    behind = classes_behind([tn])
                    blame = sorted(behind)[0] if behind else None
                if blame:
                    cs.finding(blame, what, **kw)
                elif (iv.reachable_inputs(GraphQLNonNull(t), minv) & collide):
                    cs.finding(F18, what, **kw)
                else:
                    cs.violation(what, **kw)
                # the model must predict a failing default
                if not any(r[2] != "required" and r[2][1][0] == "err" for r in m_fd.values()) and not blame is None:
                    cs.broken("K1 default evaluation", f"{tn}: real {dd.get('exc')}, model predicts all defaults fine")
                continue
            for fn, f in t.fields.items():
                if f.default_value is Undefined or fn in minv:
                    continue
                got = dd["fields"].get(fn)
                cs.c("evaluations")
                cs.c("k3_defaults_read")
                node = f.ast_node.default_value
                cls = default_class(f.type, emitted_literal(tn, fn) or node)
                if cls is None and isinstance(get_named_type(f.type), GraphQLInputObjectType):
                    behind = classes_behind([get_named_type(f.type).name])
                    cls = sorted(behind)[0] if behind else None
                if tn in collide or (schema_reach(gs, get_named_type(f.type)) & collide):
                    cls = cls or F18   # the default instantiates a class with colliding field names
                if cls is None and isinstance(get_named_type(f.type), GraphQLInputObjectType) \
                        and cs.stream_class() and cs.stream_class() != F18:
                    cls = cs.stream_class()   # object default whose class carries the stream's bad default
                if got is None or "exc" in got:
                    what = f"default of {tn}.{fn} cannot be read back: {got}"
                    (cs.finding(cls, what, input_type=tn, field=fn, observed=got) if cls
                     else cs.violation(what, input_type=tn, field=fn, observed=got))
                    continue
                if not eq_default(got["value"], f.default_value):
                    what = (f"default of {tn}.{fn} reads back {got['value']!r}, coerced schema default is "
                            f"{f.default_value!r}")
                    kw = dict(input_type=tn, field=fn, observed=got["value"], expected=f.default_value)
                    (cs.finding(cls, what, **kw) if cls else cs.violation(what, **kw))
                # model prediction of the default (K1c), when the default is not in a configured-scalar position
                mrow = m_fd.get(fn)
                if mrow is not None and mrow[2] != "required" and not (tn in collide):
                    mres = mrow[2][1]
                    if mres[0] == "ok":
                        dp, dpl = ci.optv(mres[1])
                        if dp and not eq_default(got["value"], sx_json(dpl)):
                            cs.broken("K1 default evaluation",
                                      f"{tn}.{fn}: model {sx_json(dpl)!r} real {got['value']!r}")
                        if not dp and "$unserialisable" not in json.dumps(got["value"]):
                            cs.broken("K1 default evaluation", f"{tn}.{fn}: model unserialisable, real {got['value']!r}")
                    else:
                        cs.broken("K1 default evaluation", f"{tn}.{fn}: model {mres!r} real {got['value']!r}")
            # ---------------- K3d: round trip through a generated client method
            method = scen.method_name("Need" + tn)
            for (label, v), how in [(vals[0], "alias"), (vals[1], "name"), (vals[3], "alias")]:
                try:
                    expected = coerce_input_value(v, GraphQLNonNull(t))
                except Exception:
                    continue
                rt = drv.ask({"cmd": "roundtrip", "method": method, "param": "arg", "type": tn, "value": v, "by": how})
                cs.c("evaluations")
                cs.c("k3_roundtrips")
                if rt.get("exc") and str(rt["exc"][0]).startswith("build:"):
                    continue  # reported by K3a
                if rt.get("exc") or rt.get("exec_errors") or not eq_json(rt.get("received"), json.loads(json.dumps(expected, default=str))):
                    what = (f"value sent through client.{method} does not arrive as the coerced value: "
                            f"received {rt.get('received')!r} expected {expected!r} errors {rt.get('exec_errors') or rt.get('exc')}")
                    kw = dict(input_type=tn, value=v, sent=rt.get("sent"), observed=rt.get("received"), expected=expected)
                    if iv.reachable_inputs(GraphQLNonNull(t), v) & collide:
                        cs.finding(F18, what, **kw)
                    elif cs.stream_class() and cs.stream_class() != F18:
                        cs.finding(cs.stream_class(), what, **kw)
                    else:
                        cs.violation(what, **kw)
    finally:
        drv.close()
    if not k1_ok:
        # search: is there a property failure on this scenario?  (K3 verdicts above are the direct oracle)
        found = any(k == "violation" for k, *_ in cs.out)
        cs.out.append(("k1", None, "K1 generated input_types.py differs from the model",
                       cs.rep(diff=getattr(cs, "k1_diff", None), property_failure_found=found)))
    return cs


def tie_constants(run):
    """K2e: the constants hard-wired in the model vs /repo's constants.py and base_model.py, derived from source on
    every run; fails closed when the derivation no longer applies"""
    import ast as pyast
    import os

    try:
        from ariadne_codegen.client_generators import constants as C

        t = model.call("C06", [Sym("tables")])
        m_map = {row[0]: (row[1] if isinstance(row[1], str) else row[1][0]) for row in t[0]}
        if m_map != dict(C.INPUT_SCALARS_MAP):
            run.broken("K2 scalar table", f"model {m_map} vs constants.INPUT_SCALARS_MAP {dict(C.INPUT_SCALARS_MAP)}")
        if t[1] != [C.OPTIONAL, [C.LIST, C.ANY]]:
            run.broken("K2 annotation names", f"model {t[1]} vs {C.OPTIONAL}/{C.LIST}/{C.ANY}")
        want = [C.FIELD_CLASS, ["default_factory", ["lambda", ["validate", "T", ["dict"]]]]]
        if t[2] != want or C.MODEL_VALIDATE_METHOD != "model_validate":
            run.broken("K2 default_factory / model_validate names", f"model {t[2]} vs {want} / {C.MODEL_VALIDATE_METHOD}")
        if t[3] != [C.FIELD_CLASS, [C.ALIAS_KEYWORD, ["str", "a"]], ["default", "None"]]:
            run.broken("K2 Field(alias=, default=) names", f"model {t[3]} vs {C.FIELD_CLASS}/{C.ALIAS_KEYWORD}")
        if C.BASE_MODEL_CLASS_NAME != "BaseModel" or C.MODEL_REBUILD_METHOD != "model_rebuild":
            run.broken("K2 class names", f"{C.BASE_MODEL_CLASS_NAME} {C.MODEL_REBUILD_METHOD}")
        # bundled BaseModel configuration, read from the source file
        path = os.path.join(os.path.dirname(C.__file__), "dependencies", "base_model.py")
        cfg = None
        for node in pyast.walk(pyast.parse(open(path).read())):
            if isinstance(node, pyast.Call) and getattr(node.func, "id", "") == "ConfigDict":
                cfg = {k.arg: pyast.literal_eval(k.value) for k in node.keywords}
        if cfg is None:
            run.broken("K2 base_model.py", "no ConfigDict(...) found: cannot derive the model configuration")
        else:
            run.extra["base_model_config"] = cfg
            if cfg.get("populate_by_name") is not True or cfg.get("extra", "ignore") != "ignore" \
                    or cfg.get("strict", False) or cfg.get("validate_default", False):
                run.broken("K2 base_model.py configuration",
                           f"model assumes populate_by_name, extra ignored, lax mode, defaults not validated; source has {cfg}")
        run.count(6)
    except Exception as exc:  # noqa
        import traceback

        run.broken("K2 constants derivation", traceback.format_exc()[-1500:])


def corpus_scenarios(run):
    """corpus/C06/*.json: the witnesses of the `_refuted` theorems and the regression Examples of Properties/C06.v
    as schemas + values; they go through the same K1/K2/K3 pipeline (SDL and introspected), snake case on and off"""
    import glob
    import os

    from ..report import VERIF

    out = []
    for i, path in enumerate(sorted(glob.glob(os.path.join(VERIF, "corpus", "C06", "*.json")))):
        e = json.load(open(path))
        name = os.path.basename(path)[:-5]
        for k, snake in enumerate((True, False) if e.get("both_cases") else (True,)):
            out.append(inputs_schema.from_types(name, e["types"], 900000 + 2 * i + k, snake,
                                                notes={"accept": e.get("accept"), "expect_finding": e.get("expect_finding")}))
        run.dist("corpus", name)
    if not out:
        run.broken("corpus", "corpus/C06 is empty or unreadable")
    return out


def resolve_all(gs):
    """force graphql-core's lazy field maps (and the default coercion they perform) now"""
    for t in gs.type_map.values():
        fs = getattr(t, "fields", None)
        if fs and isinstance(t, GraphQLInputObjectType):
            for f in fs.values():
                f.default_value  # noqa: B018


def serve_schemas(sdls):
    """loopback HTTP server: POST /<i> executes the received (introspection) query on schema i"""
    import threading
    from http.server import BaseHTTPRequestHandler, ThreadingHTTPServer

    from graphql import graphql_sync

    schemas = [build_schema(x) for x in sdls]

    class H(BaseHTTPRequestHandler):
        protocol_version = "HTTP/1.1"

        def do_POST(self):
            n = int(self.headers.get("content-length") or 0)
            body = self.rfile.read(n)
            try:
                i = int(self.path.strip("/"))
                res = graphql_sync(schemas[i], json.loads(body)["query"])
                out = {"data": res.data}
                if res.errors:
                    out["errors"] = [{"message": e.message} for e in res.errors]
            except Exception as e:  # noqa
                out = {"errors": [{"message": f"bad request: {e}"}]}
            raw = json.dumps(out).encode()
            self.send_response(200)
            self.send_header("Content-Type", "application/json")
            self.send_header("Content-Length", str(len(raw)))
            self.end_headers()
            self.wfile.write(raw)

        def log_message(self, *a):
            pass

    srv = ThreadingHTTPServer(("127.0.0.1", 0), H)
    threading.Thread(target=srv.serve_forever, daemon=True).start()
    port = srv.server_address[1]
    return srv, [f"http://127.0.0.1:{port}/{i}" for i in range(len(sdls))]


def run(ctx):
    run = ctx.run
    run.rule = ("seeded schemas of 2-4 input types (10 wrapper shapes, enums incl. keyword-named values, nested and "
                "recursive inputs, custom scalars configured/unconfigured, camelCase/keyword/pydantic-reserved names, "
                "default literals of every shape) x snake-case on/off; per input type: canonical values (min, full, "
                "nulls, random) and labelled single-point mutations; non-trivial = distinct (scenario, input type, value)")
    run.assumptions += [
        "graphql-core 3.2 coerce_input_value / value_from_ast and pydantic 2 validation are modelled (Gql/InCoerce.v, "
        "Py/PyEval.v) and compared with the installed libraries on every run (K2)",
        "configured custom scalar types (user Python types) are outside the theorems; exercised by K3 only",
        "canonical form: Int as integers, Float as numbers, String/ID as strings, enum values by name, lists as lists",
    ]
    n_main = 40 if not ctx.thorough else 400
    n_feat = 3 if not ctx.thorough else 25
    base = ctx.seed * 100000
    tie_constants(run)
    scs = corpus_scenarios(run)      # corpus first: the Coq witnesses / regression Examples on the real code
    for i in range(n_main):
        try:
            scs.append(inputs_schema.make(base + i))
        except RuntimeError:
            run.dist("scenarios", "generator-gave-up")
    for si, feat in enumerate(REGRESSION_STREAMS + list(STREAM_CLASS)):
        for i in range(n_feat):
            try:
                scs.append(inputs_schema.make(base + 10000 * (si + 1) + i, (feat,)))
            except RuntimeError:
                run.dist("scenarios", "generator-gave-up")
    # introspected variants: the same scenarios generated from a loopback HTTP server answering the generator's
    # introspection query with graphql-core (real httpx, nothing patched): all systematic streams + some main ones
    n_intro_main = 8 if not ctx.thorough else 60
    intro = [s for s in scs if s.features][:] + [s for s in scs if not s.features][:n_intro_main]
    srv, urls = serve_schemas([s.sdl for s in intro])
    with workers.Scratch() as sc:
        gens = scen.generate(scs, sc)
        reqs = [s.request(sc.new(), config={"remote_schema_url": u}) for s, u in zip(intro, urls)]
        ires = workers.generate_many(reqs, jobs=12)
        srv.shutdown()
        for s, q, r in zip(intro, reqs, ires):
            gi = scen.Generated(s, q, r)
            gi.introspected = True
            gens.append(gi)

        # harness-side schema objects are built here, in the main thread, fully resolved; a scenario whose schema
        # the harness itself cannot build is a generator problem: it is dropped and counted, never a violation
        usable = []
        for g in gens:
            try:
                if not inputs_schema.valid_sdl(g.sc.sdl):
                    raise ValueError("generator produced an invalid schema")
                g.gs_harness = build_schema(g.sc.sdl)
                resolve_all(g.gs_harness)
                if getattr(g, "introspected", False):
                    g.gsm_harness = build_client_schema(introspection_from_schema(g.gs_harness))
                    resolve_all(g.gsm_harness)
                usable.append(g)
            except Exception as exc:  # noqa
                run.dist("scenarios", "dropped: harness could not build the generated schema (generator issue)")
                run.extra.setdefault("dropped_scenarios", []).append({"seed": g.sc.seed, "why": str(exc)[:200]})
        if len(usable) < len(gens) * 0.8:
            run.broken("scenario generator", f"only {len(usable)} of {len(gens)} generated scenarios are usable")
        gens = usable

        def one(g):
            try:
                return run_case(g, ctx.thorough)
            except Exception:
                import traceback

                cs = Case(g, ctx.thorough)
                tb = traceback.format_exc()
                mine = [l for l in tb.splitlines() if "/vh/" in l]
                cs.broken("harness-exception", "harness frames: " + " | ".join(mine[:12] + mine[-6:]) + "\n" + tb)
                return cs

        cases = scen.parallel(gens, one, jobs=12)
    k1_bad = 0
    for cs in cases:
        run.count(cs.cnt.get("evaluations", 0))
        for k, v in cs.cnt.items():
            if k != "evaluations":
                run.extra.setdefault("totals", {})
                run.extra["totals"][k] = run.extra["totals"].get(k, 0) + v
        for key, subs in cs.dist.items():
            for sub, n in subs.items():
                run.dist(key, sub, n)
        for h in cs.nontrivial:
            run.nontrivial_case(h)
        for s in cs.samples:
            run.sample(s, limit=6)
        for kind, cls, what, rep in cs.out:
            if kind == "violation":
                run.violation(what, rep)
            elif kind == "finding":
                run.finding(cls, what, rep)
            elif kind == "k1":
                k1_bad += 1
                run.violation(what + ("" if rep.get("property_failure_found") else
                                      "; the K3 oracle found no property failure on this scenario"),
                              rep, found_input=bool(rep.get("property_failure_found")))
            else:
                run.violation(f"{what}: {rep.get('detail', '')[:400]}", rep, found_input=False)
    # corpus entries that carry an open finding must reproduce it on the real code (else: reported, not an error)
    for cs in cases:
        exp = cs.g.sc.notes.get("expect_finding")
        if exp:
            hit = any(k == "finding" and c == exp for k, c, *_ in cs.out)
            run.dist("corpus_findings", f"{cs.g.sc.notes.get('corpus')}: {'reproduced' if hit else 'NOT reproduced'}")
    run.extra["k1_disagreements"] = k1_bad
    run.extra["scenarios_total"] = len(cases)
