"""C03 — Method arguments arrive at the server as the declared variables.

K1  Model/Args.v `generate` (signature, variables dict, renamed locals) vs the methods parsed with `ast` from the
    client.py the REAL generator wrote; model `call_method` (binding, serialize wrapping, UNSET filtering,
    model_dump by alias / exclude_unset) vs the variables JSON captured at the HTTP transport.
K2  Gql/Coerce.v `coerce_vars` vs graphql-core `get_variable_values` on valid and malformed provided values.
K3  property oracle on the real code, independent of the Coq model: every generated method (sync / async, snake
    case on / off) is called with generated arguments; the SENT document + variables are coerced and executed by
    graphql-core with recording resolvers, and compared with the same document executed with the caller's values
    written directly as GraphQL JSON; omitted => key absent, None => null, missing required => TypeError.
"""
from __future__ import annotations

import json
import random

from graphql import GraphQLList, GraphQLNonNull, type_from_ast
from graphql.execution.values import get_variable_values

from .. import model
from ..gen import scenario
from ..impl import scen, workers
from ..sexp import Sym, json_sx, sx_json
from . import argenc
from .argenc import ValGen, bindings_py, jdump, same_value

ENGINE = "C03"
OMIT = object()


def result_class(op):
    from ariadne_codegen.utils import str_to_pascal_case

    return str_to_pascal_case(op.name.value)


def param_names(names, snake, scalars_cfg, rc=None):
    """{variable: Python parameter} as the generator assigns them (since /repo 7f3b78b): process_name, then "_"
    appended until free of self / kwargs / gql / UNSET / serialize functions / earlier parameters."""
    used = {"self", "kwargs", "gql", "UNSET"}
    if rc:
        used.add(rc)          # the operation's result class (since /repo e1c98d1)
    for c in (scalars_cfg or {}).values():
        if c and c.get("serialize"):
            used.add(c["serialize"].rsplit(".", 1)[-1])
    out = {}
    for n in names:
        p = scen.param_name(n, snake)
        if not p.isidentifier():          # snake-casing can expose a leading digit: _1 -> 1 -> _1 (/repo 70630f0)
            p = "_" + p
        while p in used:
            p += "_"
        used.add(p)
        out[n] = p
    return out


def scalar_config(rng, want_ser=None):
    """Random configuration of the two custom scalars of the arg_probe stream."""
    cfg = {}
    for name in ("DateTime", "JSONBlob"):
        k = rng.random()
        if want_ser is True:
            k = 0.9
        if want_ser is False:
            k = min(k, 0.39)
        if k < 0.2:
            continue                                    # unconfigured -> Any
        c = {"type": "Any"}
        if k >= 0.4:
            c["serialize"] = f"vscal.ser_{name}"
        if 0.3 <= k < 0.4 or k >= 0.8:
            c["parse"] = f"vscal.parse_{name}"
        cfg[name] = c
    return cfg


UPLOAD_SDL = """scalar Upload
input FileIn { file: Upload! extra: Upload files: [Upload!] note: String child: FileIn }
type Query { x: Int }
type Mutation { up(a: Upload, b: Upload!, l: [Upload!], i: FileIn, il: [FileIn!]): Int }
"""
UPLOAD_Q = ("mutation Up($a: Upload, $b: Upload!, $l: [Upload!], $i: FileIn, $il: [FileIn!]) "
            "{ up(a: $a, b: $b, l: $l, i: $i, il: $il) }\n")


def upload_checks(ctx):
    """Upload variables (C11 owns the multipart FORMAT; C03 the VALUES): calls with several DISTINCT Upload objects that
    share file name and content type but differ in content - as separate variables, list items and fields of (nested,
    listed) generated input models - plus the same object used twice.  The multipart body is decoded as a server would
    (operations, map, one part per file put back at the mapped variable paths) and compared with the caller's values."""
    run = ctx.run
    scs = [scenario.Scenario(seed=930000 + i, sdl=UPLOAD_SDL, queries=UPLOAD_Q,
                             config={"convert_to_snake_case": bool(i % 2), "async_client": bool(i // 2)},
                             features=("corpus:uploads",)) for i in range(4)]
    counter = [0]

    def up(content, name="doc.txt", ctype="text/plain", same_as=None):
        counter[0] += 1
        oid = same_as if same_as is not None else counter[0]
        return {"$upload": [name, ctype, content, oid]}, {"$file": [name, ctype, content]}, oid

    def file_in(by_alias, **fields):
        kw, intent = {}, {}
        for k, v in fields.items():
            kw[k if by_alias else "$name:" + k] = v[0]
            intent[k] = v[1]
        return {"$model": "FileIn", "kw": kw}, intent

    def both(pairs):
        return [p[0] for p in pairs], [p[1] for p in pairs]

    def cases(rng):
        out = []
        a, b = up("AAAA"), up("BBBB")                                    # distinct objects, same name and type
        out.append(("two-variables", {"a": a[0], "b": b[0]}, {"a": a[1], "b": b[1]}))
        l = [up("L-one"), up("L-two"), up("L-three")]
        b2 = up("B2")
        out.append(("list-items", {"b": b2[0], "l": both(l)[0]}, {"b": b2[1], "l": both(l)[1]}))
        u = up("SAME")
        again = up("SAME", same_as=u[2])                                 # the SAME object at two positions
        out.append(("same-object-twice", {"b": u[0], "l": [again[0], up("OTHER")[0]]},
                    {"b": u[1], "l": [again[1], {"$file": ["doc.txt", "text/plain", "OTHER"]}]}))
        for by_alias in (True, False):
            f1 = file_in(by_alias, file=up("F-file"), extra=up("F-extra"), files=([x[0] for x in (up("F-1"), up("F-2"))],
                         [{"$file": ["doc.txt", "text/plain", "F-1"]}, {"$file": ["doc.txt", "text/plain", "F-2"]}]),
                         note=("n", "n"))
            inner = file_in(by_alias, file=up("INNER"))
            f2 = file_in(by_alias, file=up("OUTER"), child=inner)
            il = [file_in(by_alias, file=up(f"IL-{k}")) for k in range(3)]
            bb = up("B3")
            out.append((f"model-fields:{'alias' if by_alias else 'name'}",
                        {"b": bb[0], "i": f1[0], "il": [x[0] for x in il]}, {"b": bb[1], "i": f1[1], "il": [x[1] for x in il]}))
            bb = up("B4")
            out.append((f"nested-model:{'alias' if by_alias else 'name'}", {"b": bb[0], "i": f2[0]}, {"b": bb[1], "i": f2[1]}))
        nn = up("ONLY")
        out.append(("none-and-omitted", {"b": nn[0], "a": None}, {"b": nn[1], "a": None}))
        return out

    with workers.Scratch() as sc:
        gens = scen.generate(scs, sc)
        for g in gens:
            cfgname = f"snake={g.sc.config['convert_to_snake_case']} async={g.sc.config['async_client']}"
            if not g.ok:
                run.violation(f"uploads: generation fails: {g.res.get('exc')}", {"schema": UPLOAD_SDL, "config": g.sc.config})
                continue
            ld = g.start()
            try:
                if not ld.get("ok"):
                    run.violation(f"uploads: package does not import: {json.dumps(ld.get('modules'))[:300]}",
                                  {"schema": UPLOAD_SDL, "config": g.sc.config})
                    continue
                for label, args, intended in cases(random.Random(ctx.seed)):
                    r = g.driver.ask({"cmd": "call_args", "method": "up", "args": args, "intended": intended})
                    run.count()
                    run.dist("uploads", label)
                    run.nontrivial_case(hash((cfgname, label)))
                    rep = {"schema": UPLOAD_SDL, "queries": UPLOAD_Q, "config": g.sc.config, "case": label,
                           "arguments": args, "intended": intended, "observed": r}
                    req = r.get("request") or {}
                    sent, want = r.get("sent") or {}, r.get("intended") or {}
                    problems = []
                    if req.get("query") is None:
                        problems.append(f"nothing sent / body not decodable: {r.get('exc')} {req.get('decode_exc')}")
                    elif "coerced" not in sent or "coerced" not in want:
                        problems.append(f"variables rejected by coercion: {sent.get('errors') or want.get('errors')}")
                    else:
                        for n in sorted(set(sent["coerced"]) | set(want["coerced"])):
                            if not same_value(sent["coerced"].get(n, "<absent>"), want["coerced"].get(n, "<absent>")):
                                problems.append(f"${n}: server receives {sent['coerced'].get(n, '<absent>')!r}, caller meant "
                                                f"{want['coerced'].get(n, '<absent>')!r}")
                    if problems:
                        run.violation(f"uploads ({label}, {cfgname}): " + "; ".join(problems[:2])[:600], rep)
            finally:
                g.stop()


def k2_tables(run):
    """The model's constant tables vs the constants of /repo's SOURCE, re-derived on every run (fail closed when a
    constant cannot be found any more)."""
    import ast as _ast
    import inspect as _inspect

    t = model.call(ENGINE, [Sym("tables")])
    builtin, reserved, item7, locals_, union_unset = t
    try:
        from ariadne_codegen.client_generators import arguments as A, client as Cl, constants as K
        from graphql import build_schema as _bs

        src = {
            "INPUT_SCALARS_MAP (without Upload)": ({k: v for k, v in K.INPUT_SCALARS_MAP.items() if k != "Upload"},
                                                   {k: v for k, v in builtin}),
            "reserved argument names": (A.ArgumentsGenerator(schema=_bs("type Query { a: Int }"))._get_reserved_argument_names(),
                                        set(reserved)),
            "item variable": (f"{A.ITEM_VARIABLE_PREFIX}7", item7),
            "Union[..., UnsetType] rendering": (f"{K.UNION}[{K.OPTIONAL}[{K.LIST}[T]], {K.UNSET_TYPE_NAME}]", union_unset),
            "kwargs / UNSET names": ({K.KWARGS_NAMES, K.UNSET_NAME} <= set(reserved), True),
        }
        import textwrap as _tw

        tree = _ast.parse(_tw.dedent(_inspect.getsource(Cl.ClientGenerator.__init__)))
        found = {}
        for node in _ast.walk(tree):
            if isinstance(node, _ast.Assign) and isinstance(node.targets[0], _ast.Attribute) and isinstance(node.value, _ast.Constant):
                found[node.targets[0].attr] = node.value.value
        src["method locals"] = ([found[k] for k in ("_operation_str_variable", "_variables_dict_variable",
                                                    "_response_variable", "_data_variable")], list(locals_))
        src["gql function name"] = (found["_gql_func_name"] in set(reserved), True)
    except Exception as exc:  # noqa
        run.broken("K2 tables", f"constants of /repo could not be derived: {type(exc).__name__}: {exc}")
        return
    for what, (real, mod) in src.items():
        run.count()
        run.dist("k2_tables", what)
        if real != mod:
            run.violation(f"K2 table {what}: /repo has {real!r}, the model {mod!r}", {"table": what}, found_input=False)


def make_scenarios(ctx):
    base = ctx.seed * 100000 + 30000
    q = not ctx.thorough
    streams = [
        (("arg_probe",), 14 if q else 90),
        (("arg_probe", "var_names", "var_defaults"), 16 if q else 100),
        (("arg_probe", "var_names_clash"), 8 if q else 40),
        (("arg_probe", "weird_names"), 4 if q else 20),
        ((), 4 if q else 30),
        # subscriptions (async clients, plain and OpenTelemetry alternating): the variables travel in the
        # graphql-transport-ws `subscribe` payload through _send_subscribe instead of execute()
        (("arg_probe", "subscriptions"), 8 if q else 40),
    ]
    out = []
    for si, (feats, n) in enumerate(streams):
        for i in range(n):
            try:
                sc = scenario.make(base + 1000 * si + i, feats, n_ops=4, depth=2, tries=60)
            except RuntimeError:
                ctx.run.dist("scenarios", "generator-gave-up")
                continue
            r = random.Random(sc.seed * 7 + 1)
            sc.config = dict(sc.config)
            sc.config["convert_to_snake_case"] = (i % 2 == 0)
            sc.config["async_client"] = (i // 2) % 2 == 0
            sc.config.pop("opentelemetry_client", None)
            if "subscriptions" in feats:
                sc.config["async_client"] = True
                sc.config["opentelemetry_client"] = (i % 2 == 1)
                sc.config["convert_to_snake_case"] = (i // 2) % 2 == 0
            cfg = scalar_config(r, want_ser=(False if "var_names_clash" in feats and i % 2 else None))
            sc.files = {"vscal.py": argenc.VSCAL}
            if cfg:
                sc.config["scalars"] = cfg
            else:
                sc.config.pop("scalars", None)
            out.append(sc)
    return out + corpus_scenarios() + body_name_scenarios(ctx) + [ser_name_scenario()]


def ser_name_scenario():
    """Replay of C03_names_refuted_serialize_named_query / _item on the real code: serialize FUNCTIONS that are
    themselves called like the method's `query` local or like a comprehension variable."""
    sdl = "scalar A\nscalar B\ntype Query { f(a: A, b: [B!], c: B): Int }\n"
    q = ("query SerQuery($a: A!) { f(a: $a) }\n\nquery SerItem($b: [B!]) { f(b: $b) }\n\n"
         "query SerItemNoList($c: B!) { f(c: $c) }\n")
    extra = BODY_VSCAL_EXTRA + '\nquery = _ser("query")\n_item0 = _ser("_item0")\n'
    return scenario.Scenario(seed=920000, sdl=sdl, queries=q,
                             config={"convert_to_snake_case": True, "async_client": False,
                                     "scalars": {"A": {"type": "Any", "serialize": "vscal.query"},
                                                 "B": {"type": "Any", "serialize": "vscal._item0"}}},
                             features=("corpus:serialize-names",), files={"vscal.py": argenc.VSCAL + extra})


# names the body of a generated method (or client.py at module level) can refer to; a variable called like one of them
# must not break the method - whatever the position of the operation in the queries file
BODY_VSCAL_EXTRA = '''

def __getattr__(name):
    if name.startswith("ser_"):
        f = _ser(name)
    elif name.startswith("parse_"):
        f = _parse(name)
    else:
        raise AttributeError(name)
    globals()[name] = f
    return f
'''
BODY_SDL = """scalar DateTime
scalar JSONBlob
enum EnumA { RED GREEN }
input InA { x: Int when: DateTime }
type Query { f(a: Int, b: Boolean, d: DateTime, j: [JSONBlob], i: InA, e: EnumA, s: String): Int }
type Subscription { f(a: Int, b: Boolean, d: DateTime, j: [JSONBlob], i: InA, e: EnumA, s: String): Int }
"""


def body_name_scenarios(ctx):
    names = ["ser_dt", "ser_blob", "parse_dt", "gql", "UNSET", "UnsetType", "Upload", "Any", "Dict", "List", "Optional",
             "Union", "AsyncIterator", "BaseClient", "AsyncBaseClient", "InA", "EnumA", "self", "kwargs", "query",
             "variables", "response", "data", "execute", "get_data", "model_validate"]
    ops = []
    for k, n in enumerate(names):
        # (i) the variable named n together with variables that use both serialised scalars
        ops.append(f"query Body{k}(${n}: Boolean!, $after: DateTime!, $j: [JSONBlob]) {{ f(b: ${n}, d: $after, j: $j) }}")
    # (ii) named like a serialize function in an operation that does not use the scalar itself
    ops.append("query Lone1($ser_dt: Int, $ser_blob: String) { f(a: $ser_dt, s: $ser_blob) }")
    # (iii) named like the operation's own result class / another operation's / an input and enum class, with those used
    ops.append("query OwnClass($OwnClass: Int, $Body0: Int, $i: InA, $InA: Int, $e: EnumA, $EnumA: Boolean) "
               "{ f(a: $OwnClass, i: $i, e: $e, b: $EnumA) g1: f(a: $Body0) g2: f(a: $InA) }")
    # (iv) escaped twins that must stay distinct parameters
    ops.append("query Twins($from: Int, $from_: Int, $self: Int, $self_: Int, $kwargs: Int, $kwargs_: Int, $class: Int, "
               "$class_: Int) { f(a: $from) g1: f(a: $from_) g2: f(a: $self) g3: f(a: $self_) g4: f(a: $kwargs) "
               "g5: f(a: $kwargs_) g6: f(a: $class) g7: f(a: $class_) }")
    # (v) subscriptions (async clients only): the same names as variables of a subscription method, whose body hands
    #     the query / variables locals to execute_ws
    sub_ops = [f"subscription SubBody{k}(${n}: Boolean!, $after: DateTime!, $j: [JSONBlob]) {{ f(b: ${n}, d: $after, j: $j) }}"
               for k, n in enumerate(["query", "variables", "response", "data", "self", "kwargs", "gql", "ser_dt", "UNSET",
                                      "execute_ws"])]
    sub_ops.append("subscription SubLocals($query: String!, $variables: Int, $data: [JSONBlob]) "
                   "{ f(s: $query, a: $variables, j: $data) }")
    cfg_sc = {"DateTime": {"type": "Any", "serialize": "vscal.ser_dt", "parse": "vscal.parse_dt"},
              "JSONBlob": {"type": "Any", "serialize": "vscal.ser_blob"}}
    orders = [list(range(len(ops))), list(reversed(range(len(ops)))), [1] + [i for i in range(len(ops)) if i != 1],
              [len(names)] + [i for i in range(len(ops)) if i != len(names)]]
    if ctx.thorough:
        orders += [list(range(k, len(ops))) + list(range(k)) for k in range(2, len(ops), 3)]
    out = []
    for oi, order in enumerate(orders):
        for snake in (False, True):
            is_async = bool(oi % 2)
            out.append(scenario.Scenario(
                seed=910000 + 2 * oi + int(snake), sdl=BODY_SDL,
                queries="\n\n".join([ops[i] for i in order] + (sub_ops if is_async else [])) + "\n",
                config={"convert_to_snake_case": snake, "async_client": is_async, "scalars": cfg_sc},
                features=("corpus:body-names",), files={"vscal.py": argenc.VSCAL + BODY_VSCAL_EXTRA}))
    return out


def corpus_scenarios():
    """Minimised inputs of the listed finding classes that the random streams hit rarely (run every time)."""
    sdl = ("input In { fooBar: Int foo_bar: Int other: String }\n"
           "type Query { f(i: In, s: String, t: String, n: Int): Int }\n")
    q18 = "query Collide($i: In!) { f(i: $i) }\n"
    q7 = ("query Locals($query: String, $_query: String) { f(s: $query, t: $_query) }\n\n"
          "query Shadow($gql: Int) { f(n: $gql) }\n")
    cfg = {"async_client": False}
    return [
        scenario.Scenario(seed=900001, sdl=sdl, queries=q18, config=dict(cfg, convert_to_snake_case=True),
                          features=("corpus:F18",), files={"vscal.py": argenc.VSCAL}),
        scenario.Scenario(seed=900002, sdl=sdl, queries=q7, config=dict(cfg, convert_to_snake_case=False),
                          features=("corpus:F7",), files={"vscal.py": argenc.VSCAL}),
        scenario.Scenario(seed=900003, sdl=sdl, queries="query NotIdent($_1: Int) { f(n: $_1) }\n",
                          config=dict(cfg, convert_to_snake_case=True),
                          features=("corpus:not-identifier",), files={"vscal.py": argenc.VSCAL}),
    ]


def type_shape(t):
    s = ""
    while True:
        if isinstance(t, GraphQLNonNull):
            s += "!"
            t = t.of_type
        elif isinstance(t, GraphQLList):
            s += "["
            t = t.of_type
        else:
            return s + kind_of(t)


def kind_of(t):
    return type(t).__name__.replace("GraphQL", "").replace("Type", "")


class Case:
    """One planned call of one method."""

    def __init__(self, g, op, mode, vals, dropped=None):
        self.g, self.op, self.mode, self.vals, self.dropped = g, op, mode, vals, dropped
        self.model = None
        self.real = None


def plan_cases(g, rng, thorough):
    """[(op, vardefs sexp, [Case])] for one generated scenario."""
    gs = g.schema
    snake = g.res["config"].get("convert_to_snake_case", True)
    cfg = g.res["config"].get("scalars") or {}
    vg = ValGen(gs, rng, cfg, snake)
    out = []
    for op in g.operations():
        vds = [(vd.variable.name.value, type_from_ast(gs, vd.type), vd.default_value is not None)
               for vd in op.variable_definitions or ()]
        cases = []
        modes = ["rand", "rand", "min", "null", "full"] + (["rand"] * 4 if thorough else [])
        for mode in modes:
            vals = {}
            for name, t, _has_default in vds:
                optional = not isinstance(t, GraphQLNonNull)
                if optional and (mode == "min" or (mode == "rand" and rng.random() < 0.3)):
                    vals[name] = OMIT
                else:
                    vals[name] = vg.value(t, mode)
            cases.append(Case(g, op, mode, vals))
        req = [n for n, t, _d in vds if isinstance(t, GraphQLNonNull)]
        if req:
            drop = rng.choice(req)
            vals = dict(cases[0].vals)
            vals[drop] = OMIT
            cases.append(Case(g, op, "missing-required", vals, dropped=drop))
        out.append((op, argenc.vardefs_sx(gs, op), vds, cases))
    g.valgen_stats = vg.stats
    return out


def mutate(rng, v, depth=0):
    """One malformed variant of a provided JSON value (K2 malformed stream)."""
    k = rng.random()
    if isinstance(v, dict) and v and k < 0.5:
        key = rng.choice(list(v))
        out = dict(v)
        out[key] = mutate(rng, v[key], depth + 1)
        return out
    if isinstance(v, list) and v and k < 0.5:
        i = rng.randrange(len(v))
        return v[:i] + [mutate(rng, v[i], depth + 1)] + v[i + 1:]
    if isinstance(v, dict) and k < 0.7:
        return dict(v, zzUnknown=1)
    return rng.choice([None, 1, "str", True, [], {}, [None], 2147483648, "RED", {"a": 1}, [[1]]])


def run(ctx):
    run = ctx.run
    run.rule = ("scenarios from the seeded generator (streams: arg_probe = root fields whose arguments cover all "
                "wrapper shapes over scalars/enums/custom scalars/input objects; + variable names from the safe pool "
                "with defaults; + clashing names; + weird input field names; + the default stream), generated by the "
                "REAL generator with snake case on/off and sync/async alternating; every method called with 5 "
                "argument sets (rand x2, all-omitted, all-None, full) + one missing-required call; "
                "non-trivial = distinct (scenario, operation, arguments) with at least one variable")
    run.assumptions += [
        "graphql-core 3.2.12 get_variable_values / execute_sync are the reference coercion and executor",
        "pydantic 2.13 model construction (populate_by_name), model_dump(by_alias, exclude_unset), to_jsonable_python",
        "CPython call binding; httpx.MockTransport shows the bytes that would be sent",
        "schema defaults enter the model as already-coerced values (graphql-core value_from_ast)",
        "Float values are non-integral lexemes; Upload variables are excluded (C11)",
    ]
    k2_tables(run)
    scs = make_scenarios(ctx)
    rng = ctx.rng
    cmds, slots = [], []
    stats = {"k1_methods": 0, "k2_cases": 0, "k3_calls": 0}

    import time
    t_ph = {"start": time.time()}
    with workers.Scratch() as sc:
        gens = scen.generate(scs, sc)
        t_ph["generated"] = time.time()
        plans = []
        for g in gens:
            feats = "+".join(g.sc.features) or "default"
            run.dist("scenarios", feats)
            if not g.ok:
                run.dist("skipped", "generation-failed:" + feats)      # C04's subject
                continue
            cfg = g.res["config"]
            snake = cfg.get("convert_to_snake_case", True)
            ssx = argenc.schema_sx(g.schema, cfg.get("scalars") or {})
            plan = plan_cases(g, random.Random(g.sc.seed + 11), ctx.thorough)
            plans.append((g, plan))
            g.ssx, g.snake = ssx, snake
            for op, vsx, vds, cases in plan:
                slots.append(("gen", g, op, None))
                cmds.append([Sym("gen"), snake, result_class(op), ssx, vsx])
                pn = param_names([n for n, _t, _d in vds], snake, cfg.get("scalars"), result_class(op))
                for c in cases:
                    kw = [[pn[n], v.sx] for n, v in c.vals.items() if v is not OMIT]
                    slots.append(("call", g, op, c))
                    cmds.append([Sym("call"), snake, result_class(op), ssx, vsx, kw])
                # K2: valid + malformed provided values
                for c in cases[:5]:
                    prov = {n: v.intent for n, v in c.vals.items() if v is not OMIT}
                    for variant in (prov, mutate(rng, prov), mutate(rng, prov)):
                        if not isinstance(variant, dict):
                            continue
                        slots.append(("coerce", g, op, variant))
                        cmds.append([Sym("coerce"), ssx, vsx, json_sx(variant)])
        t_ph["planned"] = time.time()
        res = model.batch(ENGINE, cmds)
        t_ph["model"] = time.time()
        genres, coerce_rows = {}, []
        for (kind, g, op, x), r in zip(slots, res):
            if model.is_error(r):
                run.broken("model", f"{kind}: {r}")
                continue
            if kind == "gen":
                genres[(id(g), op.name.value)] = r
            elif kind == "call":
                x.model = r
            else:
                coerce_rows.append((g, op, x, r))

        # ---- K2
        k2_bad = 0
        for g, op, prov, r in coerce_rows:
            stats["k2_cases"] += 1
            run.count()
            ref = get_variable_values(g.schema, op.variable_definitions or (), prov)
            m = bindings_py(r)
            if isinstance(ref, list):
                run.dist("k2", "rejected")
                ok = m is None
            else:
                run.dist("k2", "accepted")
                ok = m is not None and same_value(m, driver_json(ref))
            if not ok:
                k2_bad += 1
                if k2_bad <= 5:
                    run.violation(
                        f"K2 coerce_vars disagrees with graphql-core on {op.name.value}: model {m!r} vs "
                        f"{ref if isinstance(ref, dict) else [e.message for e in ref][:2]!r}",
                        {"schema": g.sc.sdl, "operation": op.name.value, "provided": prov, "model": m}, found_input=False)
        # ---- K1 + K3 per scenario (drivers in parallel)
        def drive(item):
            g, plan = item
            rows = {"load": None, "k1": None, "calls": []}
            try:
                rows["k1"] = argenc.client_methods(g.files().get("client.py", ""))
            except SyntaxError as exc:
                rows["k1"] = {"$syntax": str(exc)}
            ld = g.start()
            rows["load"] = ld
            try:
                if ld.get("ok"):
                    for op, _vsx, vds, cases in plan:
                        m = scen.method_name(op.name.value)
                        # the parameter of each variable, read off the LOADED signature (required first, relative
                        # order kept - C03_required_first_is_permutation); falls back to the mangled name
                        order = [n for n, t, _d in vds if isinstance(t, GraphQLNonNull)] + \
                                [n for n, t, _d in vds if not isinstance(t, GraphQLNonNull)]
                        real = [p[0] for p in (ld.get("methods", {}).get(m, {}).get("params") or []) if p[3] != "VAR_KEYWORD"]
                        pmap = dict(zip(order, real)) if len(real) == len(order) else {}
                        for c in cases:
                            pn = param_names(order, g.snake, g.res["config"].get("scalars"), result_class(op))
                            enc = {pmap.get(n, pn[n]): v.enc for n, v in c.vals.items() if v is not OMIT}
                            intended = {n: v.intent for n, v in c.vals.items() if v is not OMIT}
                            req = {"cmd": "call_args", "method": m, "args": enc, "intended": intended}
                            if "corpus:body-names" in g.sc.features:
                                req["respond"] = "execute"      # let the method run to its end (result class, get_data)
                            c.real = g.driver.ask(req)
            finally:
                g.stop()
            return rows

        t_ph["k2"] = time.time()
        driven = scen.parallel(plans, drive, jobs=12)
        t_ph["driven"] = time.time()

    for (g, plan), rows in zip(plans, driven):
        check_scenario(ctx, g, plan, rows, genres, stats)
        for k, v in getattr(g, "valgen_stats", {}).items():
            run.dist("argument_values", k, v)
    ks = list(t_ph)
    run.extra["phase_seconds"] = {b: round(t_ph[b] - t_ph[a], 1) for a, b in zip(ks, ks[1:])}
    run.extra["totals"] = stats
    run.extra["k2_disagreements"] = k2_bad
    upload_checks(ctx)


def driver_json(v):
    if isinstance(v, dict):
        return {k: driver_json(x) for k, x in v.items()}
    if isinstance(v, (list, tuple)):
        return [driver_json(x) for x in v]
    return v


def replay_of(g, op, c=None, **more):
    rep = {"seed": g.sc.seed, "features": list(g.sc.features), "schema": g.sc.sdl, "queries": g.sc.queries,
           "config": g.res.get("config"), "operation": op.name.value}
    if c is not None:
        rep["mode"] = c.mode
        rep["arguments"] = {n: ("<omitted>" if v is OMIT else v.enc) for n, v in c.vals.items()}
        rep["intended"] = {n: v.intent for n, v in c.vals.items() if v is not OMIT}
        rep["model"] = c.model
        rep["observed"] = c.real
    rep.update(more)
    return rep


def check_scenario(ctx, g, plan, rows, genres, stats):
    run = ctx.run
    k1 = rows["k1"] or {}
    ld = rows["load"] or {}
    feats = "+".join(g.sc.features) or "default"
    any_sig_bad = False
    for op, vsx, vds, cases in plan:
        gr = genres.get((id(g), op.name.value))
        mname = scen.method_name(op.name.value)
        if gr is None:
            continue
        if gr == "gen-error":
            run.violation(f"model refuses variables of {op.name.value} which the generator accepted",
                          replay_of(g, op), found_input=False)
            continue
        _ok, gen, sig_ok, names_ok, inputs_ok, f21_ok, ser_names_ok = gr
        ser_names_ok = ser_names_ok == "t"
        params, dct, locs = gen
        sig_ok, names_ok, inputs_ok = sig_ok == "t", names_ok == "t", inputs_ok == "t"
        f21_shape = f21_ok == "f"      # informational: F21 is fixed for input fields (/repo 1ef155d); no routing
        f21_ok = True
        f10_bad = set()      # F10 is fixed (/repo d163d56): no routing; a failure of that kind is a VIOLATION
        any_sig_bad |= not sig_ok
        run.dist("operations", "variables:%d" % min(len(vds), 6))
        for _n, t, has_default in vds:
            run.dist("variable_types", type_shape(t) + ("=default" if has_default else ""))
        run.dist("guards", f"names_ok={names_ok} inputs_ok={inputs_ok}")
        # ---- K1: signature, dict, locals
        stats["k1_methods"] += 1
        run.count()
        real = k1.get(mname)
        if "$syntax" in k1:
            run.violation(f"client.py cannot be parsed: {k1['$syntax']}", replay_of(g, op), found_input=False)
        elif real is None:
            run.violation(f"K1: method {mname} not found in generated client.py", replay_of(g, op), found_input=False)
        else:
            m_params = [[p[0], p[1], p[2] == "t"] for p in params]
            m_dict = [[k, v] for k, v in dct]
            diffs = []
            if real["params"] != m_params:
                diffs.append(("signature", real["params"], m_params))
            if real["dict"] != m_dict:
                diffs.append(("variables dict", real["dict"], m_dict))
            if real["locals"] != list(locs)[:len(real["locals"])] or len(real["locals"]) < 2:
                diffs.append(("locals", real["locals"], list(locs)))   # (subscription methods have no response/data locals)
            if real["first"] != "self" or real["kwarg"] != "kwargs":
                diffs.append(("self/kwargs", [real["first"], real["kwarg"]], ["self", "kwargs"]))
            if real["async"] != bool(g.res["config"].get("async_client", True)):
                diffs.append(("async", real["async"], g.res["config"].get("async_client")))
            for what, a, b in diffs:
                argenc.k1v(run, f"K1 {what} of {mname}: generated {a!r} vs model {b!r}",
                              replay_of(g, op, generated=a, model_says=b), found_input=False)
        # ---- load status vs model
        if not ld.get("ok"):
            continue
        # ---- K3 + behavioural K1 per call
        for c in cases:
            check_call(ctx, g, op, vds, c, True, inputs_ok, f10_bad, stats, f21_ok, ser_names_ok)
    if not ld.get("ok"):
        msg = json.dumps(ld.get("modules"))[:400]
        client_err = (ld.get("modules") or {}).get("client", "ok") != "ok" or "client" in msg
        if any_sig_bad:
            op0 = plan[0][0] if plan else None
            run.violation(f"generated client does not import (model predicts an invalid signature): {msg}",
                          replay_of(g, op0, load=ld.get("modules")) if op0 else {"load": ld.get("modules")})
            run.dist("load", "import-failed:predicted-by-model(sig_ok=false)")
        else:
            run.dist("skipped", "import-failed-other-module:" + feats)   # C04 / C18's subject
            run.dist("load", "import-failed:not-about-signatures")
            if "weird_names" not in g.sc.features:
                run.violation(f"generated package does not import and the model does not predict it: {msg}",
                              {"schema": g.sc.sdl, "queries": g.sc.queries, "config": g.res.get("config"),
                               "load": ld.get("modules")})
    else:
        run.dist("load", "ok")
        if any_sig_bad:
            argenc.k1v(run, "K1 model predicts a SyntaxError in client.py but the package imports",
                       {"schema": g.sc.sdl, "queries": g.sc.queries, "config": g.res.get("config")}, found_input=False)


def classify(names_ok, inputs_ok, f10_bad, involved, f21=False):
    """Finding class of a failing call, or None (=> VIOLATION).  f21: the schema has an input field of the F21
    shape AND the faithful model reproduces exactly what the implementation did on this call."""
    if not names_ok:
        return "F18-variable-name-not-identifier"
    if f21:
        return "F21-nonnull-list-nullable-items"
    if involved is not None and involved and involved <= f10_bad:
        return "F10-serialize-on-whole-argument"
    if involved is None and f10_bad:
        return "F10-serialize-on-whole-argument"
    return None


def check_call(ctx, g, op, vds, c, names_ok, inputs_ok, f10_bad, stats, f21_ok=True, ser_names_ok=True):
    run = ctx.run
    r = c.real or {}
    stats["k3_calls"] += 1
    run.count()
    run.dist("call_modes", c.mode)
    run.dist("transport", "ws-subscribe" if op.operation.value == "subscription" else "http")
    if vds:
        run.nontrivial_case(hash((g.sc.seed, op.name.value, jdump({n: (None if v is OMIT else v.enc) for n, v in c.vals.items()}))))
    m_http, m_ws, m_typed, m_int, m_constructible = c.model
    m_out = m_ws if op.operation.value == "subscription" else m_http     # model entry point of the transport
    if m_http != m_ws:
        run.broken("model", f"call_subscribe differs from call_method: {m_ws} vs {m_http}")
    exc = r.get("exc")
    sent_vars = (r.get("request") or {}).get("variables")
    was_sent = (r.get("request") or {}).get("query") is not None

    model_agrees = False
    if exc and exc[0] == "args:ValidationError":
        model_agrees = m_constructible == "f"
    elif isinstance(m_out, list) and m_out[0] == "sent" and was_sent:
        model_agrees = same_value(sx_json(m_out[1]), sent_vars or {})

    def fail(what, involved=None, found=True):
        import os
        if not found and os.environ.get("VERIF_K3_ONLY"):
            run.dist("k1_suppressed", "count")
            return
        cls = classify(names_ok, inputs_ok, f10_bad, involved, f21=(not f21_ok) and model_agrees)
        # (F33, F18-variable-name-not-identifier and F18-input-field-collision are fixed: no routing)
        # (F18-colliding-input-fields-by-name, the residual of bec4417, is fixed: /repo a4347c6; no routing)
        rep = replay_of(g, op, c)
        if cls:
            run.finding(cls, what, rep)
            run.dist("finding_calls", cls)
        else:
            run.violation(what, rep, found_input=found)

    if (m_constructible == "t") != (not (exc and exc[0] == "args:ValidationError")) and names_ok and inputs_ok:
        argenc.k1v(run, f"K1 constructible: model {m_constructible}, implementation {exc}", replay_of(g, op, c), found_input=False)
    if exc and exc[0].startswith("args:"):
        run.dist("outcomes", "argument-not-constructible")
        fail(f"schema-valid argument could not be constructed: {exc[0]} {exc[1][:300]}")
        return
    # ---------- K3 oracle (independent of the model)
    if c.mode == "missing-required":
        run.dist("outcomes", "missing-required:" + (exc[0] if exc else "no-exception"))
        if not (exc and exc[0] == "TypeError" and not was_sent):
            fail(f"required variable ${c.dropped} omitted but the call did not raise TypeError before sending "
                 f"(exc={exc}, sent={was_sent})")
        if m_out != "missing-arg" and names_ok:
            fail(f"K1 model predicts {m_out!r} for a call without required {c.dropped}", found=False)
        return
    problems, involved = [], set()
    if not was_sent:
        problems.append(f"nothing was sent: {exc}")
        involved = None
    else:
        sent, intended = r.get("sent") or {}, r.get("intended") or {}
        if r.get("reference_exc"):
            q = (r.get("request") or {}).get("query")
            if not (isinstance(q, str) and op.name.value in q):
                problems.append(f"the document sent is not the operation but {q!r:.80} ({r['reference_exc'][0]})")
            else:
                problems.append(f"reference execution failed: {r['reference_exc'][:2]}")
            involved = None
        elif "errors" in intended:
            run.broken("harness", f"intended values rejected by graphql-core: {intended['errors']}")
            return
        elif "errors" in sent:
            problems.append(f"sent variables rejected by variable coercion: {sent['errors'][:2]}")
            for n, _t, _d in vds:
                if any(f"'${n}'" in e for e in sent["errors"]):
                    involved.add(n)
        else:
            cs, ci = sent["coerced"], intended["coerced"]
            for n in set(cs) | set(ci):
                if n not in cs or n not in ci or not same_value(cs[n], ci[n]):
                    problems.append(f"${n}: server receives {cs.get(n, '<absent>')!r}, caller meant {ci.get(n, '<absent>')!r}")
                    involved.add(n)
            if sent.get("exec_exc") or intended.get("exec_exc"):
                # the sent DOCUMENT cannot be executed (seen: a transitively spread fragment is not included) --
                # C02's subject; the variables were still coerced and compared above
                run.dist("skipped", "resolver-comparison:sent-document-not-executable(C02)")
            elif not problems and jdump(sent["rec"]) != jdump(intended["rec"]):
                problems.append("resolver arguments differ from those under the caller's values")
        sv = sent_vars or {}
        for n, v in c.vals.items():
            if v is OMIT and n in sv:
                problems.append(f"omitted ${n} is present in the payload as {sv[n]!r}")
                involved.add(n)
            if v is not OMIT and v.enc is None and not (n in sv and sv[n] is None):
                problems.append(f"None for ${n} does not travel as null ({sv.get(n, '<absent>')!r})")
                involved.add(n)
    if was_sent and exc and "corpus:body-names" in g.sc.features:
        # (F32 - a parameter called like the operation's result class - is fixed: /repo e1c98d1; no routing)
        what = f"the request was sent but the method then raised {exc[0]}: {exc[1][:160]}"
        problems.append(what)
        involved = None
    if problems:
        run.dist("outcomes", "property-fails")
        fail("; ".join(problems[:3]), involved)
    else:
        run.dist("outcomes", "delivered")
        if len(run.samples) < 6 and len(vds) >= 2:
            run.sample({"operation": op.name.value, "arguments": {n: ("<omitted>" if v is OMIT else v.enc) for n, v in c.vals.items()},
                        "sent_variables": sent_vars, "server_receives": (r.get("sent") or {}).get("coerced")})
    # ---------- behavioural K1: model outcome vs captured request; model intended vs reference
    if not inputs_ok:
        # inputs_ok is schema validity only (distinct type names, distinct field names per input type): never false for
        # a schema graphql-core built.  Colliding Python field names are inside the model (Convert.fpy = C06's fname)
        run.dist("k1_scope", "invalid-schema:K3-only")
        return
    if isinstance(m_out, list) and m_out[0] == "sent":
        mv = sx_json(m_out[1])
        if not was_sent or not same_value(mv, sent_vars or {}):
            fail(f"K1 call: model sends {mv!r}, implementation sent {sent_vars!r} (exc {exc})", None if not was_sent else
                 {k for k in set(mv) | set(sent_vars or {}) if k not in mv or k not in (sent_vars or {}) or not same_value(mv[k], (sent_vars or {})[k])},
                 found=False)
    else:
        expected_exc = {"not-serializable": ("PydanticSerializationError", "TypeError"), "not-callable": ("TypeError",),
                        "missing-arg": ("TypeError",), "syntax-error": ()}.get(m_out, ())
        if was_sent or not exc or exc[0] not in expected_exc:
            fail(f"K1 call: model predicts {m_out!r}, implementation: sent={was_sent} exc={exc}", None, found=False)
    if m_typed != "t" and names_ok and inputs_ok:
        run.broken("harness", f"generated arguments are not typed according to the model: {replay_of(g, op, c)['arguments']}")
    mi = bindings_py(m_int)
    ref = (r.get("intended") or {}).get("coerced")
    if ref is not None and names_ok and inputs_ok and (mi is None or not same_value(mi, ref)):
        fail(f"K1 intended: model {mi!r} vs graphql-core on the caller's values {ref!r}", None, found=False)
