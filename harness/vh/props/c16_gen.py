"""Seeded generator of rich, valid GraphQL schemas (SDL text) for C16.

Every kind of named type, interfaces implementing interfaces, custom root type names, defaults of
every literal kind (nested objects / enums / null / large floats / quotes / unicode), multi-line
descriptions, repeatable directives, specifiedBy, deprecations on fields / args / input fields /
enum values.  `plain=True` leaves out what the repo's introspection query does not ask for
(descriptions, specifiedBy, repeatable, schema description, deprecated args/input fields).
"""
from __future__ import annotations

import json

LOCATIONS = ["QUERY", "MUTATION", "SUBSCRIPTION", "FIELD", "FRAGMENT_DEFINITION", "FRAGMENT_SPREAD",
             "INLINE_FRAGMENT", "VARIABLE_DEFINITION", "SCHEMA", "SCALAR", "OBJECT", "FIELD_DEFINITION",
             "ARGUMENT_DEFINITION", "INTERFACE", "UNION", "ENUM", "ENUM_VALUE", "INPUT_OBJECT",
             "INPUT_FIELD_DEFINITION"]

STRINGS = ["", "x", "plain text", "it's", 'say "hi"', "both ' and \"", "back\\slash", "tab\there",
           "line1\nline2", "cr\rlf", "été", "日本語", "\U0001f600", "\u0001", "\x7f",
           "a'b\"c\\d\ne", " lead", "trail ", "'", '"', "\\", "\\n", "nul\u0000x", "{}[]:,", "None", "inf",
           "#hash", "\\x41", "%s {0}", "'''", '"""']
# characters CPython's repr escapes although they are not ASCII: outside the model's fidelity domain
NONPRINTABLE = ["\u0085", "\u2028x", "a\u00a0b", "\u200b", "\ufeff", "\u00ad"]

BLOCKS = ['"""\nMulti-line\n  indented "quoted" text\nwith \\ backslash and \'single\'\n"""',
          '"""One-line block"""', '"""\n  first\n\n  third after blank\n"""',
          '"""has \\""" inside"""', '"""tab\there and unicode é \U0001f600"""']

FIELD_NAMES = ["id", "name", "class", "from", "fooBar", "foo_bar", "_private", "x1", "None", "type",
               "values", "cast", "List", "lambda", "a", "b", "HTTPCode", "self", "def"]
TYPE_NAMES = ["User", "Bot", "Post", "Comment", "node_like", "_Hidden", "T1", "Thing", "Account", "Item",
              "Edge", "Page", "Team"]
ENUM_VALUES = ["RED", "GREEN", "BLUE", "None", "True_", "inf", "lower", "_U", "A1", "class"]
FLOATS = ["1.5", "0.1", "-2.25", "1e300", "1.7976931348623157e308", "5e-324", "1e-7", "-0.0", "0.0",
          "3", "123456789.123456789", "1E5", "2.5e+10", "1e16", "1e15"]
INTS = ["0", "1", "-1", "42", "2147483647", "-2147483648"]
BIGINTS = ["123456789012345678901234567890", "-99999999999", "4294967296"]


def gql_str(s: str) -> str:
    return json.dumps(s, ensure_ascii=False)


class Gen:
    def __init__(self, rng, plain=False, size=1.0, nonprintable=False, nonfinite=None, printable=False,
                 unicode_all=False):
        self.r = rng
        self.plain = plain
        self.size = size
        self.nonprintable = nonprintable
        self.nonfinite = nonfinite        # None | "nested" | "top"
        # graphql-core cannot print (ast_from_value) a list/object default of a custom scalar: keep such
        # defaults out of schemas that must be printed (SDL target) or introspected (remote source)
        self.printable = printable
        # non-ASCII text in every string position (descriptions, reasons, urls, defaults), always present
        self.unicode_all = unicode_all
        self.feat: dict[str, int] = {}
        self.scalars: list[str] = []
        self.enums: dict[str, list[str]] = {}
        self.inputs: dict[str, list[dict]] = {}     # name -> fields [{name, type, default?}]
        self.ifaces: dict[str, dict] = {}
        self.objects: list[str] = []
        self.unions: list[str] = []
        self.names_used: set[str] = set()
        self.nonfinite_done = False
        self.iface_field_names: set[str] = set()

    # ---- helpers ----
    def f(self, k):
        self.feat[k] = self.feat.get(k, 0) + 1

    def chance(self, p):
        if self.unicode_all and 0.15 < p < 0.6:
            p = 0.9                      # descriptions, deprecations, defaults, specifiedBy: almost always there
        return self.r.random() < p

    def n(self, lo, hi):
        hi = max(lo, int(round(hi * self.size)))
        return self.r.randint(lo, hi)

    def fresh(self, pool, prefix):
        cands = [x for x in pool if x not in self.names_used]
        name = self.r.choice(cands) if cands and self.chance(0.8) else None
        i = 0
        while name is None or name in self.names_used:
            i += 1
            name = f"{prefix}{self.r.randint(0, 999)}"
        self.names_used.add(name)
        return name

    def string(self):
        if self.nonprintable and self.chance(0.3):
            self.f("str:nonprintable-unicode")
            return self.r.choice(NONPRINTABLE)
        if self.unicode_all:
            self.f("str:nonascii")
            return self.r.choice(["été", "日本語", "\U0001f600 smile", "naïve “quotes”", "Ünïcödé", "ß", "русский", "a’b"])
        s = self.r.choice(STRINGS)
        if self.chance(0.15):
            s = s + self.r.choice(STRINGS)
        for tag, test in (("str:squote", "'" in s), ("str:dquote", '"' in s), ("str:backslash", "\\" in s),
                          ("str:newline", "\n" in s), ("str:control", any(ord(c) < 32 or ord(c) == 127 for c in s)),
                          ("str:nonascii", any(ord(c) > 127 for c in s))):
            if test:
                self.f(tag)
        return s

    def dstring(self):
        """description text; print_schema drops EMPTY descriptions of arguments (graphql-core), so schemas
        that go through SDL do not get them"""
        s = self.string()
        return "x" if (self.printable and s == "") else s

    def desc(self, indent=""):
        """optional description line(s) preceding a definition"""
        if self.plain or not self.chance(0.45):
            return ""
        if self.chance(0.3):
            self.f("desc:block")
            b = self.r.choice(BLOCKS)
            return "\n".join(indent + l if l else l for l in b.split("\n")) + "\n"
        self.f("desc:line")
        return indent + gql_str(self.dstring()) + "\n"

    def inline_desc(self):
        if self.plain or not self.chance(0.25):
            return ""
        self.f("desc:inline")
        return gql_str(self.dstring()) + " "

    def deprecated(self, what):
        """what: field | enum (always allowed) / arg | input (not visible through the repo's introspection)"""
        if what in ("arg", "input") and self.plain:
            return ""
        if not self.chance(0.2):
            return ""
        self.f("deprecated:" + what)
        if self.chance(0.4):
            return " @deprecated"
        return f" @deprecated(reason: {gql_str(self.string())})"

    def wrap(self, t, allow_nonnull=True):
        k = self.r.randint(0, 7)
        nn = "!" if allow_nonnull else ""
        return [t, t, t + nn, f"[{t}]", f"[{t}!]", f"[{t}]{nn}", f"[{t}!]{nn}", f"[[{t}]]"][k]

    # ---- literals ----
    def lit(self, ty: str, depth=0, nullable=True) -> str:
        """SDL literal valid for input type `ty` (SDL type string)"""
        if ty.endswith("!"):
            return self.lit(ty[:-1], depth, nullable=False)
        if nullable and self.chance(0.12):
            self.f("default:null")
            return "null"
        if ty.startswith("["):
            inner = ty[1:-1]
            if self.chance(0.15) and not inner.startswith("["):
                self.f("default:list-coerced-scalar")
                return self.lit(inner, depth + 1, nullable=False)
            k = self.r.randint(0, 3)
            self.f("default:list")
            return "[" + ", ".join(self.lit(inner, depth + 1) for _ in range(k)) + "]"
        return self.lit_named(ty, depth)

    def lit_nn(self, ty, depth):
        return self.lit(ty, depth, nullable=False)

    def lit_named(self, ty, depth):
        r = self.r
        if ty == "Int":
            self.f("default:int")
            return r.choice(INTS)
        if ty == "Float":
            self.f("default:float")
            return r.choice(FLOATS)
        if ty == "String":
            self.f("default:string")
            if self.chance(0.1):
                self.f("default:block-string")
                return '"""block\n  "string" \\ here"""'
            return gql_str(self.string())
        if ty == "Boolean":
            self.f("default:bool")
            return r.choice(["true", "false"])
        if ty == "ID":
            self.f("default:id")
            return r.choice(["7", gql_str(self.string())])
        if ty in self.enums:
            self.f("default:enum")
            return r.choice(self.enums[ty])
        if ty in self.inputs:
            self.f("default:object")
            parts = []
            for fd in self.inputs[ty]:
                required = fd["type"].endswith("!") and fd.get("default") is None
                if required or self.chance(0.6):
                    v = self.lit_nn(fd["type"], depth + 1) if fd["type"].endswith("!") else self.lit(fd["type"], depth + 1)
                    parts.append(f"{fd['name']}: {v}")
            return "{" + ", ".join(parts) + "}"
        if ty in self.scalars:
            for _ in range(20):
                v = self.lit_any(depth)
                if v != "null":
                    return v
            return "1"
        raise AssertionError(f"no literal for {ty}")

    def lit_any(self, depth):
        """untyped literal for a custom scalar"""
        r = self.r
        if self.nonfinite and not self.nonfinite_done:
            self.nonfinite_done = True
            if self.nonfinite == "top":
                self.f("default:nonfinite-top")
                return r.choice(["1e999", "-1e999"])
            self.f("default:nonfinite-nested")
            return r.choice(["[1e999]", "{a: -1e999}", '[1, {k: ["x", 1e400]}]'])
        k = r.randint(0, 6 if (depth >= 3 or self.printable) else 9)
        if k == 0:
            self.f("default:any-int")
            return r.choice(INTS + BIGINTS)
        if k == 1:
            self.f("default:any-float")
            # print_schema writes -0.0 of a custom scalar as -0, which parses back as the int 0 (graphql-core)
            return r.choice([x for x in FLOATS if not (self.printable and x == "-0.0")])
        if k == 2:
            self.f("default:any-string")
            return gql_str(self.string())
        if k == 3:
            return r.choice(["true", "false"])
        if k == 4:
            self.f("default:any-enum-literal")
            return r.choice(ENUM_VALUES)
        if k in (5, 6):
            self.f("default:any-null")
            return "null"
        if k in (7, 8):
            self.f("default:any-list")
            return "[" + ", ".join(self.lit_any(depth + 1) for _ in range(r.randint(0, 3))) + "]"
        self.f("default:any-object")
        keys = r.sample(FIELD_NAMES, r.randint(0, 3))
        return "{" + ", ".join(f"{k}: {self.lit_any(depth + 1)}" for k in keys) + "}"

    # ---- arguments ----
    def input_type_names(self):
        return ["Int", "Float", "String", "Boolean", "ID"] + self.scalars + list(self.enums) + list(self.inputs)

    def args(self, what="arg", maxn=3):
        k = self.n(0, maxn)
        out = []
        for name in self.r.sample(FIELD_NAMES, k):
            base = self.r.choice(self.input_type_names())
            ty = self.wrap(base)
            s = self.inline_desc() + f"{name}: {ty}"
            default = None
            if self.chance(0.55):
                default = self.lit(ty)
                s += f" = {default}"
                self.f("default:any")
            dep = self.deprecated(what)
            if dep and ty.endswith("!") and default is None:
                dep = ""        # a required argument cannot be deprecated
            s += dep
            out.append(s)
        return out

    def field_defs(self, k, targets, own_interface=False):
        out = []
        pool = [n for n in FIELD_NAMES if n not in self.iface_field_names] if own_interface else FIELD_NAMES
        names = self.r.sample(pool, min(k, len(pool)))
        if own_interface:
            self.iface_field_names.update(names)
        for name in names:
            base = self.r.choice(targets)
            a = self.args()
            s = self.desc("  ") + "  " + name + ("(" + ", ".join(a) + ")" if a else "") + ": " + self.wrap(base)
            s += self.deprecated("field")
            out.append((name, s))
        return out

    # ---- the schema ----
    def schema(self):
        r = self.r
        parts = []
        for _ in range(self.n(1, 3)):
            nm = self.fresh(["DateTime", "JSON", "Upload", "_Any"], "Sc")
            self.scalars.append(nm)
            s = self.desc() + f"scalar {nm}"
            if not self.plain and self.chance(0.5):
                s += f" @specifiedBy(url: {gql_str('https://example.com/' + nm + ('/é日本' if self.unicode_all else ''))})"
                self.f("specifiedBy")
            parts.append(s)
        for _ in range(self.n(1, 3)):
            nm = self.fresh(["Color", "Role", "status"], "En")
            vals = r.sample(ENUM_VALUES, r.randint(1, 4))
            self.enums[nm] = vals
            body = "\n".join(self.desc("  ") + "  " + v + self.deprecated("enum") for v in vals)
            parts.append(self.desc() + f"enum {nm} {{\n{body}\n}}")
            self.f("kind:enum")
        for _ in range(self.n(1, 3)):
            nm = self.fresh(["Filter", "Inner", "Paging"], "In")
            fields = []
            lines = []
            for fname in r.sample(FIELD_NAMES, r.randint(1, 4)):
                base = r.choice(self.input_type_names())
                ty = self.wrap(base)
                default = self.lit(ty) if self.chance(0.5) else None
                dep = self.deprecated("input")
                if dep and ty.endswith("!") and default is None:
                    dep = ""
                fields.append({"name": fname, "type": ty, "default": default})
                lines.append(self.desc("  ") + f"  {fname}: {ty}" + (f" = {default}" if default is not None else "") + dep)
            if self.chance(0.3):          # recursive reference, nullable, no default
                lines.append(f"  again_: {nm}")
                self.f("input:recursive")
            parts.append(self.desc() + f"input {nm} {{\n" + "\n".join(lines) + "\n}")
            self.inputs[nm] = fields
            self.f("kind:input")
        n_if = self.n(0, 3)
        n_obj = self.n(1, 4)
        if_names = [self.fresh(["Node", "Named", "Entity"], "If") for _ in range(n_if)]
        obj_names = [self.fresh(TYPE_NAMES, "Ob") for _ in range(n_obj)]
        n_un = self.n(0, 2)
        un_names = [self.fresh(["Actor", "SearchResult"], "Un") for _ in range(n_un)]
        out_targets = (["Int", "Float", "String", "Boolean", "ID"] + self.scalars + list(self.enums)
                       + if_names + obj_names + un_names)
        for i, nm in enumerate(if_names):
            parents = [p for p in if_names[:i] if self.chance(0.5)]
            closure = []
            for p in parents:
                for q in self.ifaces[p]["closure"] + [p]:
                    if q not in closure:
                        closure.append(q)
            fields = {}
            for p in closure:
                fields.update(self.ifaces[p]["fields"])
            own = self.field_defs(r.randint(1, 3), out_targets, own_interface=True)
            for k, v in own:
                fields.setdefault(k, v)
            self.ifaces[nm] = {"closure": closure, "fields": fields}
            impl = (" implements " + " & ".join(closure)) if closure else ""
            if closure:
                self.f("interface-implements-interface")
            parts.append(self.desc() + f"interface {nm}{impl} {{\n" + "\n".join(fields.values()) + "\n}")
            self.f("kind:interface")
        for nm in obj_names:
            impls = []
            for p in if_names:
                if self.chance(0.4):
                    for q in self.ifaces[p]["closure"] + [p]:
                        if q not in impls:
                            impls.append(q)
            fields = {}
            for p in impls:
                fields.update(self.ifaces[p]["fields"])
            for k, v in self.field_defs(r.randint(1, 4), out_targets):
                fields.setdefault(k, v)
            impl = (" implements " + " & ".join(impls)) if impls else ""
            parts.append(self.desc() + f"type {nm}{impl} {{\n" + "\n".join(fields.values()) + "\n}")
            self.objects.append(nm)
            self.f("kind:object")
        for nm in un_names:
            members = r.sample(obj_names, r.randint(1, len(obj_names)))
            parts.append(self.desc() + f"union {nm} = " + " | ".join(members))
            self.f("kind:union")
        # directives
        for _ in range(self.n(0, 3)):
            nm = self.fresh(["tag", "auth", "cost"], "dir")
            a = self.args("arg")
            rep = ""
            if not self.plain and self.chance(0.5):
                rep = " repeatable"
                self.f("directive:repeatable")
            locs = r.sample(LOCATIONS, r.randint(1, 4))
            parts.append(self.desc() + f"directive @{nm}" + ("(" + ", ".join(a) + ")" if a else "") + rep
                         + " on " + " | ".join(locs))
            self.f("directive:args" if a else "directive:noargs")
        # roots
        custom = self.chance(0.5)
        roots = {}
        qn = self.fresh(["RootQ", "QueryRoot"], "Q") if custom else "Query"
        roots["query"] = qn
        ops = [("query", qn)]
        if self.chance(0.5):
            mn = self.fresh(["RootM"], "M") if custom else "Mutation"
            ops.append(("mutation", mn))
        if self.chance(0.3):
            sn = self.fresh(["RootS"], "S") if custom else "Subscription"
            ops.append(("subscription", sn))
        for _op, nm in ops:
            self.names_used.add(nm)
            fields = dict(self.field_defs(r.randint(1, 3), out_targets))
            parts.append(self.desc() + f"type {nm} {{\n" + "\n".join(fields.values()) + "\n}")
        if custom:
            self.f("roots:custom")
        sdesc = ""
        if not self.plain and self.chance(0.4):
            sdesc = r.choice(['"""\nThe schema\nmulti-line "desc"\n"""\n', '"schema \'desc\'"\n'])
            self.f("schema:description")
        if custom or sdesc:
            parts.append(sdesc + "schema {\n" + "\n".join(f"  {op}: {nm}" for op, nm in ops) + "\n}")
        if self.chance(0.2):
            parts.append(f"extend type {qn} {{\n  extended_: Int\n}}")
            self.f("extend-type")
        r.shuffle(parts)
        self.parts = parts
        return "\n\n".join(parts) + "\n"
