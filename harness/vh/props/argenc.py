"""Shared by C03 and C07: encoding of schemas / variables / Python argument values for the Coq models
(Gql/Coerce.v, Model/Args.v, Model/Convert.v, Model/Scalars.v), the instrumented scalar module, value
generation, and the `ast` canonicaliser of generated client.py methods."""
from __future__ import annotations

import ast
import json

from graphql import (GraphQLEnumType, GraphQLInputObjectType, GraphQLList, GraphQLNonNull, GraphQLScalarType,
                     OperationDefinitionNode, Undefined, type_from_ast, value_from_ast)

from ..sexp import Sym, json_sx, opt, sx_json

BUILTINS = ("Int", "Float", "String", "Boolean", "ID")

VSCAL = '''"""Instrumented parse/serialize functions: they log their argument and wrap it."""
LOG = []


def _enc(v):
    if type(v).__name__ == "UnsetType":
        return {"$unset": True}
    if isinstance(v, list):
        return [_enc(x) for x in v]
    if isinstance(v, dict):
        return {k: _enc(x) for k, x in v.items()}
    if isinstance(v, (str, int, float, bool)) or v is None:
        return v
    if isinstance(v, Wrapped):
        return {"$wrapped": [v.by, _enc(v.raw)]}
    return {"$repr": type(v).__name__}


class Wrapped:
    """What parse returns: user-level value of a custom scalar."""

    def __init__(self, by, raw):
        self.by, self.raw = by, raw

    def __eq__(self, o):
        return isinstance(o, Wrapped) and (self.by, self.raw) == (o.by, o.raw)

    def __repr__(self):
        return f"Wrapped({self.by!r}, {self.raw!r})"


def _ser(name):
    def f(v):
        LOG.append(["ser", name, _enc(v)])
        if isinstance(v, Wrapped):
            return [name, v.raw]
        return [name, v]
    return f


def _parse(name):
    def f(v):
        LOG.append(["parse", name, _enc(v)])
        return Wrapped(name, v)
    return f


ser_DateTime = _ser("ser_DateTime")
ser_JSONBlob = _ser("ser_JSONBlob")
parse_DateTime = _parse("parse_DateTime")
parse_JSONBlob = _parse("parse_JSONBlob")
'''


# ------------------------------------------------------------------ types / schema / variables -> sexp
def type_sx(t):
    if isinstance(t, GraphQLNonNull):
        return [Sym("nn"), type_sx(t.of_type)]
    if isinstance(t, GraphQLList):
        return [Sym("l"), type_sx(t.of_type)]
    return [Sym("n"), t.name]


def cvalue_sx(t, v):
    """graphql-core coerced (python) value of type t -> cvalue sexp."""
    if v is None:
        return Sym("n")
    if isinstance(t, GraphQLNonNull):
        return cvalue_sx(t.of_type, v)
    if isinstance(t, GraphQLList):
        return [Sym("a")] + [cvalue_sx(t.of_type, x) for x in v]
    if isinstance(t, GraphQLEnumType):
        return [Sym("e"), v]
    if isinstance(t, GraphQLInputObjectType):
        return [Sym("o")] + [[k, cvalue_sx(t.fields[k].type, x)] for k, x in v.items()]
    if t.name in BUILTINS:
        if isinstance(v, bool):
            return [Sym("b"), v]
        if isinstance(v, int):
            return [Sym("i"), v]
        if isinstance(v, float):
            return [Sym("f"), repr(v)]
        return [Sym("s"), v]
    return [Sym("c"), json_sx(v)]


def cvalue_py(e):
    """cvalue sexp (as decoded text) -> python value comparable with graphql-core's coerced values."""
    if e == "n":
        return None
    tag = e[0]
    if tag == "i":
        return int(e[1])
    if tag == "f":
        return float(e[1])
    if tag in ("s", "e"):
        return e[1]
    if tag == "b":
        return e[1] == "t"
    if tag == "c":
        return sx_json(e[1])
    if tag == "a":
        return [cvalue_py(x) for x in e[1:]]
    if tag == "o":
        return {k: cvalue_py(x) for k, x in e[1:]}
    raise ValueError(e)


def bindings_py(e):
    """sOptB output -> dict | None"""
    if e == "none":
        return None
    return {k: cvalue_py(v) for k, v in e[1]}


def same_value(a, b):
    """Equality of coerced values: bool is not a number; int and float compare numerically."""
    if isinstance(a, bool) or isinstance(b, bool):
        return isinstance(a, bool) and isinstance(b, bool) and a == b
    if isinstance(a, (int, float)) and isinstance(b, (int, float)):
        return a == b
    if isinstance(a, dict) and isinstance(b, dict):
        return a.keys() == b.keys() and all(same_value(a[k], b[k]) for k in a)
    if isinstance(a, list) and isinstance(b, list):
        return len(a) == len(b) and all(same_value(x, y) for x, y in zip(a, b))
    return type(a) is type(b) and a == b


def schema_sx(gs, scalars_cfg):
    """Custom scalars, enums and input objects of the schema (built-in scalars are fixed in the model)."""
    out = []
    for name, t in gs.type_map.items():
        if name.startswith("__") or name in BUILTINS:
            continue
        if isinstance(t, GraphQLScalarType):
            c = scalars_cfg.get(name)
            if c is None:
                out.append([name, [Sym("custom"), None]])
            else:
                out.append([name, [Sym("custom"), [Sym("some"), [c["type"], opt(c.get("serialize")), opt(c.get("parse")),
                                                                  opt(c.get("import"))]]]])
        elif isinstance(t, GraphQLEnumType):
            out.append([name, [Sym("enum")] + list(t.values)])
        elif isinstance(t, GraphQLInputObjectType):
            fs = []
            for fname, f in t.fields.items():
                d = None if f.default_value is Undefined else [Sym("some"), cvalue_sx(f.type, f.default_value)]
                fs.append([fname, type_sx(f.type), d])
            out.append([name, [Sym("input")] + fs])
    return out


def vardefs_sx(gs, op):
    out = []
    for vd in op.variable_definitions or ():
        t = type_from_ast(gs, vd.type)
        d = None
        if vd.default_value is not None:
            d = [Sym("some"), cvalue_sx(t, value_from_ast(vd.default_value, t))]
        out.append([vd.variable.name.value, type_sx(t), d])
    return out


# ------------------------------------------------------------------ values
class Val:
    """One generated argument value in its three forms."""

    __slots__ = ("sx", "enc", "intent")

    def __init__(self, sx, enc, intent):
        self.sx, self.enc, self.intent = sx, enc, intent


CUSTOM_VALUES = ["2021-03-04T05:06:07", "x", 17, {"k": [1, "two"]}, {"nested": {"a": None}}]


class ValGen:
    """Schema-valid Python argument values: model sexp, driver encoding, intended GraphQL JSON."""

    def __init__(self, gs, rng, scalars_cfg, snake):
        self.gs, self.rng, self.cfg, self.snake = gs, rng, scalars_cfg, snake
        self.stats = {}

    def ser_name(self, scalar):
        c = self.cfg.get(scalar)
        if c and c.get("serialize"):
            return c["serialize"].rsplit(".", 1)[-1]
        return None

    def field_py_map(self, t):
        """{GraphQL field: Python field} of an input type as the generator assigns them: process_name, then "_"
        appended while the name is already taken by an earlier field (/repo bec4417)."""
        from ariadne_codegen.utils import process_name

        used, out = set(), {}
        for name in t.fields:
            p = process_name(name, convert_to_snake_case=self.snake, trim_leading_underscore=True,
                             handle_pydantic_resrved_field_names=True)
            while p in used:
                p += "_"
            used.add(p)
            out[name] = p
        return out

    def note(self, k):
        self.stats[k] = self.stats.get(k, 0) + 1

    def value(self, t, mode, depth=0, nonnull=False) -> Val:
        r = self.rng
        if isinstance(t, GraphQLNonNull):
            return self.value(t.of_type, mode, depth, True)
        if not nonnull and (mode == "null" or (mode == "rand" and r.random() < 0.18)):
            self.note("none")
            return Val(Sym("none"), None, None)
        if isinstance(t, GraphQLList):
            n = 0 if mode == "min" else (2 if mode == "full" else r.choice([0, 1, 2, 3]))
            items = [self.value(t.of_type, "rand" if mode == "null" else mode, depth + 1) for _ in range(n)]
            self.note("list")
            return Val([Sym("l")] + [i.sx for i in items], [i.enc for i in items], [i.intent for i in items])
        if isinstance(t, GraphQLEnumType):
            v = r.choice(list(t.values))
            self.note("enum")
            return Val([Sym("e"), t.name, v], {"$enum": [t.name, v]}, v)
        if isinstance(t, GraphQLScalarType):
            if t.name in BUILTINS:
                v = {
                    "Int": r.choice([0, 1, -7, 42, 2147483647, -2147483648, r.randint(-999, 999)]),
                    "Float": r.choice([0.5, 2.25, -10.75, 1e-3]),
                    "String": r.choice(["", "s", "hello world", "Zażółć \"q\" \\ \n", "null"]),
                    "Boolean": r.random() < 0.5,
                    "ID": r.choice(["id-1", "77", ""]),
                }[t.name]
                self.note("scalar:" + t.name)
                if isinstance(v, float):
                    return Val([Sym("f"), repr(v)], v, v)
                return Val(json_sx(v), v, v)
            v = r.choice(CUSTOM_VALUES)
            self.note("custom")
            s = self.ser_name(t.name)
            enc = {"$dict": v} if isinstance(v, dict) else v
            return Val([Sym("c"), json_sx(v)], enc, [s, v] if s else v)
        if isinstance(t, GraphQLInputObjectType):
            kw_sx, kw_enc, intent = [], {}, {}
            by_alias = r.random() < 0.5
            pymap = self.field_py_map(t)
            for fname, f in t.fields.items():
                required = isinstance(f.type, GraphQLNonNull) and f.default_value is Undefined
                if not required:
                    if depth > 2 or mode == "min" or (mode != "full" and r.random() < 0.45):
                        continue
                    if mode == "full" and depth > 1 and isinstance(get_named(f.type), GraphQLInputObjectType):
                        continue
                fv = self.value(f.type, mode, depth + 1)
                py = pymap[fname]
                kw_sx.append([py, fv.sx])
                kw_enc[fname if by_alias else "$name:" + fname] = fv.enc     # by alias / by the class's Python name
                intent[fname] = fv.intent
            self.note("model:by_alias" if by_alias else "model:by_name")
            route = "$model"
            return Val([Sym("m"), t.name] + kw_sx, {route: t.name, "kw": kw_enc}, intent)
        raise TypeError(t)


def get_named(t):
    while isinstance(t, (GraphQLNonNull, GraphQLList)):
        t = t.of_type
    return t


# ------------------------------------------------------------------ client.py canonicaliser (K1)
def client_methods(text: str) -> dict:
    """{method: {"params": [[name, annotation, required]], "dict": [[key, value expr]], "locals": [q, v, r, d],
                 "async": bool}} parsed from a generated client module."""
    tree = ast.parse(text)
    out = {}
    for node in tree.body:
        if not isinstance(node, ast.ClassDef):
            continue
        for fn in node.body:
            if not isinstance(fn, (ast.FunctionDef, ast.AsyncFunctionDef)) or fn.name.startswith("_"):
                continue
            a = fn.args
            pos = a.args[1:]
            n_def = len(a.defaults)
            params = []
            for i, p in enumerate(pos):
                has_default = i >= len(pos) - n_def
                params.append([p.arg, ast.unparse(p.annotation) if p.annotation else "", not has_default])
            d, loc = None, []
            for st in fn.body:
                if isinstance(st, ast.AnnAssign) and isinstance(st.value, ast.Dict) and d is None:
                    d = [[k.value, ast.unparse(v)] for k, v in zip(st.value.keys, st.value.values)]
                    loc.append(st.target.id)
                elif isinstance(st, ast.Assign) and isinstance(st.targets[0], ast.Name):
                    loc.append(st.targets[0].id)
            out[fn.name] = {"params": params, "dict": d, "locals": loc[:4],
                            "async": isinstance(fn, ast.AsyncFunctionDef),
                            "kwarg": a.kwarg.arg if a.kwarg else None, "first": a.args[0].arg if a.args else None}
    return out


def k1v(run, what, rep, found_input=False):
    """A model<->code (K1) disagreement.  VERIF_K3_ONLY=1 (development aid used to evaluate a proposed fix of /repo
    by the direct property oracle alone, before the model is updated) only counts it."""
    import os

    if os.environ.get("VERIF_K3_ONLY"):
        run.dist("k1_suppressed", "count")
        return
    run.violation(what, rep, found_input=found_input)


def ops_of(doc):
    return [d for d in doc.definitions if isinstance(d, OperationDefinitionNode)]


def jdump(v):
    return json.dumps(v, sort_keys=True, default=str)
