"""Literal data of the C11/C12 models derived from /repo's SOURCE on every run (ast), so that an edit of a constant,
key, message text or span attribute in the client files is seen even if no generated case happens to depend on it.
Every extractor raises Derivation when the source no longer has the shape it was written for: fail closed."""
from __future__ import annotations

import ast
import os

from . import _clients

CLIENT_FILES = ["base_client.py", "async_base_client.py", "base_client_open_telemetry.py",
                "async_base_client_open_telemetry.py"]


class Derivation(Exception):
    pass


def _dep_path(name):
    return os.path.join(_clients.repo_root(), "ariadne_codegen", "client_generators", "dependencies", name)


def _parse(name):
    with open(_dep_path(name)) as fh:
        return ast.parse(fh.read())


def _methods(tree):
    out = {}
    for c in tree.body:
        if isinstance(c, ast.ClassDef):
            for m in c.body:
                if isinstance(m, (ast.FunctionDef, ast.AsyncFunctionDef)):
                    out.setdefault(m.name, (c.name, m))
    return out


def _const(n):
    if isinstance(n, ast.Constant):
        return n.value
    raise Derivation(f"not a literal: {ast.dump(n)[:80]}")


def _dict_literals(fn):
    return [n for n in ast.walk(fn) if isinstance(n, ast.Dict)]


def _calls(fn, attr):
    return [n for n in ast.walk(fn) if isinstance(n, ast.Call) and
            ((isinstance(n.func, ast.Attribute) and n.func.attr == attr) or (isinstance(n.func, ast.Name) and n.func.id == attr))]


def _fstring_shape(n):
    if not isinstance(n, ast.JoinedStr):
        raise Derivation("path is not an f-string")
    out = []
    for v in n.values:
        if isinstance(v, ast.Constant):
            out.append(("lit", v.value))
        elif isinstance(v, ast.FormattedValue) and isinstance(v.value, ast.Name) and v.conversion == -1 and v.format_spec is None:
            out.append(("var", v.value.id))
        else:
            raise Derivation("unexpected f-string part")
    return out


def client_constants(fname):
    tree = _parse(fname)
    ms = _methods(tree)
    need = ["_execute_json", "_execute_multipart", "_get_files_from_variables", "_convert_value",
            "_convert_dict_to_json_serializable", "_process_variables"]
    for n in need:
        if n not in ms:
            raise Derivation(f"{fname}: method {n} not found")
    out = {}
    # ---- _execute_json: default header, case-insensitive probe, body keys
    ej = ms["_execute_json"][1]
    subs = [n for n in ast.walk(ej) if isinstance(n, ast.Assign) and len(n.targets) == 1 and isinstance(n.targets[0], ast.Subscript)
            and isinstance(n.targets[0].value, ast.Name) and n.targets[0].value.id == "headers"]
    if len(subs) != 1:
        raise Derivation(f"{fname}: expected one headers[...] = ... in _execute_json")
    out["default_header"] = (_const(subs[0].targets[0].slice), _const(subs[0].value))
    cmps = [n for n in ast.walk(ej) if isinstance(n, ast.Compare) and len(n.ops) == 1 and isinstance(n.ops[0], ast.Eq)
            and isinstance(n.left, ast.Call) and isinstance(n.left.func, ast.Attribute) and n.left.func.attr == "lower"]
    if len(cmps) != 1:
        raise Derivation(f"{fname}: expected one `.lower() == literal` test in _execute_json")
    out["ct_probe"] = _const(cmps[0].comparators[0])

    def body_keys(fn):
        dumps = [c for c in _calls(fn, "dumps") if c.args and isinstance(c.args[0], ast.Dict)]
        if not dumps:
            raise Derivation(f"{fname}: no json.dumps({{...}}) in {fn.name}")
        d = dumps[0]
        kw = {k.arg: k.value for k in d.keywords}
        if not (isinstance(kw.get("default"), ast.Name) and kw["default"].id == "to_jsonable_python"):
            raise Derivation(f"{fname}: json.dumps default is not to_jsonable_python in {fn.name}")
        keys = [_const(k) for k in d.args[0].keys]
        vals = [v.id if isinstance(v, ast.Name) else None for v in d.args[0].values]
        return keys, vals
    out["json_body"] = body_keys(ej)
    em = ms["_execute_multipart"][1]
    out["multipart_body"] = body_keys(em)
    data_dicts = [d for d in _dict_literals(em) if [(_const(k) if isinstance(k, ast.Constant) else None) for k in d.keys][:1] == ["operations"]]
    if len(data_dicts) != 1:
        raise Derivation(f"{fname}: multipart data dict not found")
    out["multipart_fields"] = [_const(k) for k in data_dicts[0].keys]
    posts = _calls(em, "post")
    if len(posts) != 1 or {k.arg for k in posts[0].keywords if k.arg} != {"url", "data", "files"}:
        raise Derivation(f"{fname}: multipart post keywords changed")
    # ---- separate_files: root, path format, file tuple order
    gf = ms["_get_files_from_variables"][1]
    sep_calls = [c for c in _calls(gf, "separate_files")]
    roots = [c for c in sep_calls if c.args and isinstance(c.args[0], ast.Constant)]
    if len(roots) != 1:
        raise Derivation(f"{fname}: root call of separate_files not found")
    out["path_root"] = _const(roots[0].args[0])
    shapes = sorted(str(_fstring_shape(c.args[0])) for c in sep_calls if c.args and isinstance(c.args[0], ast.JoinedStr))
    out["path_shapes"] = shapes
    tuples = [n for n in ast.walk(gf) if isinstance(n, ast.Tuple) and len(n.elts) == 3 and isinstance(n.elts[0], ast.Attribute)]
    if len(tuples) != 1:
        raise Derivation(f"{fname}: file tuple not found")
    def attr_of(n):
        while isinstance(n, ast.Call):     # cast(IO[bytes], file_.content)
            n = n.args[-1]
        return n.attr if isinstance(n, ast.Attribute) else None
    out["file_tuple"] = [attr_of(e) for e in tuples[0].elts]
    # ---- _convert_value: model_dump keywords
    md = _calls(ms["_convert_value"][1], "model_dump")
    if len(md) != 1:
        raise Derivation(f"{fname}: model_dump call not found")
    out["model_dump"] = sorted((k.arg, _const(k.value)) for k in md[0].keywords)
    out["convert_isinstance"] = [c.args[1].id for c in _calls(ms["_convert_value"][1], "isinstance") if isinstance(c.args[1], ast.Name)]
    # ---- dispatch test
    ex = ms.get("_execute", ms.get("execute"))[1]
    tests = [n.test for n in ast.walk(ex) if isinstance(n, ast.If)]
    out["dispatch_test"] = [ast.unparse(t) for t in tests if "files" in ast.unparse(t)]
    # ---- telemetry spans
    if "_execute_with_telemetry" in ms:
        spans = {}
        for mname in ("_execute_json_with_telemetry", "_execute_multipart_with_telemetry", "_execute_with_telemetry"):
            fn = ms[mname][1]
            names = [c.args[0] for c in _calls(fn, "start_as_current_span")]
            attrs = [(_const(c.args[0]), ast.unparse(c.args[1])) for c in _calls(fn, "set_attribute")]
            spans[mname] = ([_const(n) if isinstance(n, ast.Constant) else ast.unparse(n) for n in names][:1], attrs)
        out["spans"] = spans
        init = ms["__init__"][1]
        dflt = [n for n in ast.walk(init) if isinstance(n, ast.IfExp) and isinstance(n.orelse, ast.Constant)]
        out["root_span_default"] = [_const(n.orelse) for n in dflt if isinstance(n.body, ast.Name) and n.body.id == "root_span_name"]
    return out


def get_data_constants(fname):
    ms = _methods(_parse(fname))
    if "get_data" not in ms:
        raise Derivation(f"{fname}: get_data not found")
    gd = ms["get_data"][1]
    out = {}
    out["membership_keys"] = sorted({_const(n.left) for n in ast.walk(gd) if isinstance(n, ast.Compare)
                                     and isinstance(n.ops[0], ast.NotIn) and isinstance(n.left, ast.Constant)})
    out["get_keys"] = [_const(c.args[0]) for c in _calls(gd, "get")]
    out["status_test"] = [ast.unparse(n.test) for n in ast.walk(gd) if isinstance(n, ast.If)][:1]
    out["raises"] = [ast.unparse(n.exc.func) if isinstance(n.exc, ast.Call) else ast.unparse(n.exc) for n in ast.walk(gd) if isinstance(n, ast.Raise)]
    return out


def exception_constants():
    tree = _parse("exceptions.py")
    classes = {c.name: c for c in tree.body if isinstance(c, ast.ClassDef)}
    out = {}

    def method(cls, name):
        for m in classes[cls].body:
            if isinstance(m, ast.FunctionDef) and m.name == name:
                return m
        raise Derivation(f"exceptions.py: {cls}.{name} not found")

    def returned(cls):
        r = [n for n in ast.walk(method(cls, "__str__")) if isinstance(n, ast.Return)]
        if len(r) != 1:
            raise Derivation(f"exceptions.py: {cls}.__str__ shape")
        return r[0].value
    h = returned("GraphQLClientHttpError")
    out["http_text"] = _fstring_shape_attr(h)
    out["invalid_text"] = _const(returned("GraphQLClientInvalidResponseError"))
    m = returned("GraphQLClientGraphQLMultiError")
    if not (isinstance(m, ast.Call) and isinstance(m.func, ast.Attribute) and m.func.attr == "join"):
        raise Derivation("exceptions.py: MultiError.__str__ is not a join")
    out["multi_sep"] = _const(m.func.value)
    out["error_str"] = ast.unparse(returned("GraphQLClientGraphQLError"))
    fd = method("GraphQLClientGraphQLError", "from_dict")
    call = [n for n in ast.walk(fd) if isinstance(n, ast.Call) and isinstance(n.func, ast.Name) and n.func.id == "cls"]
    if len(call) != 1:
        raise Derivation("exceptions.py: from_dict shape")
    mapping = {}
    for k in call[0].keywords:
        v = k.value
        if isinstance(v, ast.Subscript):
            mapping[k.arg] = ("index", _const(v.slice))
        elif isinstance(v, ast.Call) and isinstance(v.func, ast.Attribute) and v.func.attr == "get":
            mapping[k.arg] = ("get", _const(v.args[0]))
        elif isinstance(v, ast.Name):
            mapping[k.arg] = ("name", v.id)
        else:
            raise Derivation("exceptions.py: from_dict argument shape")
    out["from_dict"] = mapping
    out["bases"] = {c.name: [ast.unparse(b) for b in c.bases] for c in classes.values()}
    return out


def _fstring_shape_attr(n):
    if not isinstance(n, ast.JoinedStr):
        raise Derivation("__str__ is not an f-string")
    out = []
    for v in n.values:
        if isinstance(v, ast.Constant):
            out.append(("lit", v.value))
        elif isinstance(v, ast.FormattedValue) and isinstance(v.value, ast.Attribute):
            out.append(("attr", v.value.attr))
        else:
            raise Derivation("unexpected f-string part")
    return out


# ------------------------------------------------------------------ comparison with the model's own literals
def _root_default(fname):
    ms = _methods(_parse(fname))
    init = ms["__init__"][1]
    out = []
    for n in ast.walk(init):
        if isinstance(n, ast.IfExp) and isinstance(n.orelse, ast.Constant) and "root_span_name" in ast.unparse(n.test):
            out.append(n.orelse.value)
        if isinstance(n, ast.BoolOp) and isinstance(n.op, ast.Or) and "root_span_name" in ast.unparse(n.values[0]) \
                and isinstance(n.values[-1], ast.Constant):
            out.append(n.values[-1].value)
    a = init.args
    pos = a.args[len(a.args) - len(a.defaults):] if a.defaults else []
    for arg, d in list(zip(pos, a.defaults)) + list(zip(a.kwonlyargs, a.kw_defaults)):
        if arg.arg == "root_span_name" and isinstance(d, ast.Constant) and isinstance(d.value, str):
            out.append(d.value)
    return out


def check_c11(run, mc):
    """mc: the answer of the extracted model to (constants), as {name: value}."""
    m = {e[0]: e[1:] for e in mc}
    problems = []
    try:
        for f in CLIENT_FILES:
            c = client_constants(f)
            want = {
                "default_header": tuple(m["default_headers"][0][0]),
                "ct_probe": m["content_type_probe"][0],
                "json_body_keys": m["body_keys"][0],
                "multipart_body_keys": m["multipart_fields"][0][0],
                "path_root": m["path_root_and_separator"][0],
            }
            got = {
                "default_header": tuple(c["default_header"]), "ct_probe": c["ct_probe"],
                "json_body_keys": c["json_body"][0], "multipart_body_keys": c["multipart_body"][0],
                "path_root": c["path_root"],
            }
            for k in want:
                if want[k] != got[k]:
                    problems.append(f"{f}: {k}: source {got[k]!r}, model {want[k]!r}")
            if m["content_type_probe"][1:] != ["t", "t"]:
                problems.append("model: has_ct is not case-insensitive")
            if c["json_body"][1] != ["query", "operation_name", "variables"] or c["multipart_body"][1] != c["json_body"][1]:
                problems.append(f"{f}: body values are no longer the arguments query/operation_name/variables: {c['json_body'][1]}")
            if m["path_root_and_separator"][1] != c["path_root"] + ".k.0" or c["path_shapes"] != [
                    "[('var', 'path'), ('lit', '.'), ('var', 'index')]", "[('var', 'path'), ('lit', '.'), ('var', 'key')]"]:
                problems.append(f"{f}: path format: source {c['path_shapes']}, model renders {m['path_root_and_separator'][1]!r}")
            if c["multipart_fields"] != ["operations", "map"]:
                problems.append(f"{f}: multipart form fields {c['multipart_fields']} (the multipart spec and the harness parser expect operations, map)")
            if m["multipart_fields"][0][1] != ["0"] or m["multipart_fields"][0][2] != ["0"]:
                problems.append("model: file numbering does not start at 0")
            if c["file_tuple"] != ["filename", "content", "content_type"]:
                problems.append(f"{f}: file tuple {c['file_tuple']}")
            if c["model_dump"] != [("by_alias", True), ("exclude_unset", True)]:
                problems.append(f"{f}: model_dump keywords {c['model_dump']} (model dumpv: by_alias, exclude_unset)")
            if c["convert_isinstance"] != ["BaseModel", "list", "dict"]:
                problems.append(f"{f}: _convert_value branches {c['convert_isinstance']} (model convert_value: model, list, dict)")
            if c["dispatch_test"] != ["files and files_map"]:
                problems.append(f"{f}: dispatch test {c['dispatch_test']}")
            if "spans" in c:
                sj, sm = m["spans_json"][0], m["spans_multipart"][0]
                rd = _root_default(f)
                if rd != [sj[0][0]]:
                    problems.append(f"{f}: default root span name {rd}, model {sj[0][0]!r}")
                for mname, mspan in (("_execute_json_with_telemetry", sj[1]), ("_execute_multipart_with_telemetry", sm[1])):
                    names, attrs = c["spans"][mname]
                    if names != [mspan[0]] or [a for a, _ in attrs] != mspan[1]:
                        problems.append(f"{f}: {mname}: span {names} attributes {[a for a, _ in attrs]}, model {mspan}")
                    exprs = dict(attrs)
                    if exprs.get("component") != repr(m["component"][0][1]) or exprs.get("operationName") != "operation_name or ''" \
                            or m["opname_none_attr"][0] != ["s", ""]:
                        problems.append(f"{f}: {mname}: attribute expressions {exprs}")
                if [a for a, _ in c["spans"]["_execute_with_telemetry"][1]] != sj[0][1]:
                    problems.append(f"{f}: root span attributes")
    except (Derivation, KeyError, IndexError, TypeError, AttributeError, SyntaxError, OSError) as e:
        run.broken("C11 source derivation no longer applies", f"{type(e).__name__}: {e}")
        return
    run.extra["source_derived"] = "default header, Content-Type probe, body keys/values, multipart fields, path root/format, file tuple, model_dump keywords, _convert_value branches, dispatch test, span names/attributes of 4 client files"
    for p in problems[:6]:
        run.violation(f"source/model literal mismatch: {p}", {"stage": "source-derived constants", "detail": p}, found_input=False)


def check_c12(run, mc):
    m = {e[0]: e[1:] for e in mc}
    problems = []
    try:
        ex = exception_constants()
        if ex["http_text"] != [("lit", m["texts"][0]), ("attr", "status_code")]:
            problems.append(f"HttpError.__str__ {ex['http_text']}, model {m['texts'][0]!r} + status")
        if ex["invalid_text"] != m["texts"][1] or ex["multi_sep"] != m["texts"][2] or ex["error_str"] != "self.message":
            problems.append(f"texts: source {ex['invalid_text']!r}, {ex['multi_sep']!r}, {ex['error_str']}; model {m['texts'][1:]}")
        # the documented outcomes are disjoint classes: each derives from the base exception only
        for cn in ("GraphQLClientHttpError", "GraphQLClientInvalidResponseError", "GraphQLClientGraphQLMultiError",
                   "GraphQLClientGraphQLError"):
            if ex["bases"].get(cn) != ["GraphQLClientError"]:
                problems.append(f"exceptions.py: bases of {cn} are {ex['bases'].get(cn)}, documented hierarchy: [GraphQLClientError]")
        if ex["bases"].get("GraphQLClientError") != ["Exception"]:
            problems.append(f"exceptions.py: bases of GraphQLClientError are {ex['bases'].get('GraphQLClientError')}")
        probe = m["error_probe"][0]   # message, locations, path, extensions, original
        fd = ex["from_dict"]
        if fd != {"message": ("index", "message"), "locations": ("get", "locations"), "path": ("get", "path"),
                  "extensions": ("get", "extensions"), "original": ("name", "error")}:
            problems.append(f"from_dict mapping {fd}")
        if [probe[i] for i in range(4)] != [["i", "1"], ["i", "2"], ["i", "3"], ["i", "4"]]:
            problems.append(f"model from_dict probe {probe}")
        for f in CLIENT_FILES:
            g = get_data_constants(f)
            if g["membership_keys"] != sorted(m["body_keys"]) or g["get_keys"] != m["body_keys"]:
                problems.append(f"{f}: get_data keys {g['membership_keys']} / {g['get_keys']}, model {m['body_keys']}")
            if g["status_test"] != ["not response.is_success"]:
                problems.append(f"{f}: status test {g['status_test']}")
            if g["raises"] != ["GraphQLClientHttpError", "GraphQLClientInvalidResponseError",
                               "GraphQLClientGraphQLMultiError.from_errors_dicts", "GraphQLClientInvalidResponseError"] and \
               sorted(g["raises"]) != sorted(["GraphQLClientHttpError", "GraphQLClientInvalidResponseError",
                                              "GraphQLClientGraphQLMultiError.from_errors_dicts", "GraphQLClientInvalidResponseError"]):
                problems.append(f"{f}: get_data raises {g['raises']}")
        if m["success_range"] != ["200", "299", "f", "t", "t", "f"]:
            problems.append("model is_success range")
    except (Derivation, KeyError, IndexError, TypeError, AttributeError, SyntaxError, OSError) as e:
        run.broken("C12 source derivation no longer applies", f"{type(e).__name__}: {e}")
        return
    run.extra["source_derived"] = "__str__ texts and separator, from_dict key mapping, get_data keys / status test / raised classes of 4 client files"
    for p in problems[:6]:
        run.violation(f"source/model literal mismatch: {p}", {"stage": "source-derived constants", "detail": p}, found_input=False)
