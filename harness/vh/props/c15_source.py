"""C15 — correspondence derived from /repo's SOURCE on every run (fails closed when a derivation stops applying).

  * hook table: the hooks of plugins/base.py are exactly the ones the model knows; every default hook returns its
    first argument (identity plugin, for every hook, on the real class); each bundled plugin overrides exactly the
    hooks Model/Plugins.v gives it;
  * manager: for EVERY hook, PluginManager.<hook> passes the object through the plugins in configuration order and
    calls the hook of that name (the fold of the model, on the real manager);
  * data: the imports ClientGenerator always adds (canonicaliser table STD_CLIENT_IMPORTS) from
    client_generators/constants.py; `const_name` of the model vs ExtractOperationsPlugin._get_gql_variable_name;
    `unquote` of the model vs shorter_results._update_node.
"""
from __future__ import annotations

import ast
import inspect
import itertools

from .. import model
from ..sexp import Sym
from . import c15_canon as canon

BASE_HOOKS = [
    "generate_init_module", "generate_init_import", "generate_enum", "generate_enums_module",
    "generate_client_module", "generate_gql_function", "generate_client_class", "generate_client_import",
    "generate_client_method", "generate_arguments", "generate_arguments_dict", "generate_inputs_module",
    "generate_input_class", "generate_input_field", "generate_result_types_module", "generate_operation_str",
    "generate_result_class", "generate_result_field", "generate_client_code", "generate_enums_code",
    "generate_inputs_code", "generate_result_types_code", "copy_code", "generate_init_code", "process_name",
    "generate_fragments_module", "process_schema", "get_file_comment",
]
# hooks the model gives each plugin (Model/Plugins.v sh_step / ex_step / fr_step / nr_step)
MODEL_HOOKS = {
    "ShorterResultsPlugin": {"generate_result_types_module", "generate_result_class", "generate_fragments_module",
                             "generate_client_module"},
    "ExtractOperationsPlugin": {"generate_operation_str", "generate_client_method", "generate_client_module",
                                "generate_init_module"},
    "ClientForwardRefsPlugin": {"generate_client_module"},
    "NoReimportsPlugin": {"generate_init_module"},
}
# accepted besides: the reserved-name hook of fixes/C15-extract-constant-shadowed.diff (modelled in the canonicaliser)
OPTIONAL_HOOKS = {"ExtractOperationsPlugin": {"process_name"}}


def run(ctx):
    run = ctx.run
    from ariadne_codegen.client_generators import constants
    from ariadne_codegen.contrib import client_forward_refs, extract_operations, no_reimports, shorter_results
    from ariadne_codegen.plugins.base import Plugin
    from ariadne_codegen.plugins.manager import PluginManager

    # ---------------------------------------------------------------- hook table
    hooks = [n for n, f in vars(Plugin).items() if inspect.isfunction(f) and not n.startswith("_")]
    if sorted(hooks) != sorted(BASE_HOOKS):
        run.broken("K2 hook table", f"plugins/base.py hooks changed: {sorted(set(hooks) ^ set(BASE_HOOKS))}")
    run.dist("source_derived", "base-hooks", len(hooks))
    sentinel = object()
    base = Plugin(schema=None, config_dict={})
    for h in hooks:
        sig = inspect.signature(getattr(base, h))
        extra = {p: None for p in list(sig.parameters)[1:]}
        try:
            out = getattr(base, h)(sentinel, **extra)
        except Exception as exc:  # noqa
            run.broken("K2 identity hooks", f"Plugin.{h} raises {type(exc).__name__}: {exc}")
            continue
        run.count()
        if out is not sentinel:
            run.violation(f"the default hook Plugin.{h} does not return its argument unchanged (a plugin overriding "
                          f"no hook is no longer the identity)", {"hook": h, "returned": repr(out)[:200]})
    classes = {"ShorterResultsPlugin": shorter_results.ShorterResultsPlugin,
               "ExtractOperationsPlugin": extract_operations.ExtractOperationsPlugin,
               "ClientForwardRefsPlugin": client_forward_refs.ClientForwardRefsPlugin,
               "NoReimportsPlugin": no_reimports.NoReimportsPlugin}
    for name, cls in classes.items():
        over = {n for n in hooks if n in vars(cls)}
        run.count()
        if not (MODEL_HOOKS[name] <= over and over - MODEL_HOOKS[name] <= OPTIONAL_HOOKS.get(name, set())):
            run.broken("K1 hook table", f"{name} overrides {sorted(over)}, the model gives it {sorted(MODEL_HOOKS[name])}")
        run.extra.setdefault("plugin_hooks", {})[name] = sorted(over)
    # ---------------------------------------------------------------- the manager folds in order, for every hook
    log = []

    def make(tag):
        ns = {}
        for h in hooks:
            def f(self, obj, *a, _h=h, _t=tag, **kw):
                log.append((_t, _h))
                return (obj, _t) if False else obj
            ns[h] = f
        return type("P" + tag, (Plugin,), ns)

    mgr = PluginManager(schema=None, config_dict={}, plugins_types=[make("A"), make("B"), make("C")])
    for h in hooks:
        if not hasattr(mgr, h):
            run.broken("K1 manager", f"PluginManager has no method {h}")
            continue
        sig = inspect.signature(getattr(mgr, h))
        extra = {p: None for p in list(sig.parameters)[1:]}
        del log[:]
        obj = object()
        try:
            out = getattr(mgr, h)(obj, **extra)
        except Exception as exc:  # noqa
            run.broken("K1 manager", f"PluginManager.{h} raises {type(exc).__name__}: {exc}")
            continue
        run.count()
        if log != [("A", h), ("B", h), ("C", h)] or out is not obj:
            run.violation(f"PluginManager.{h} does not apply the plugins' {h} hooks in configuration order: {log}",
                          {"hook": h, "calls": log})
    # ---------------------------------------------------------------- options the plugins read from the RAW configuration
    # (the scenarios of c15.option_scenarios give each of them a non-default value; a new raw read must be covered)
    import re as _re

    raw_reads = {}
    for modname, mod in (("shorter_results", shorter_results), ("extract_operations", extract_operations),
                         ("client_forward_refs", client_forward_refs), ("no_reimports", no_reimports)):
        src = inspect.getsource(mod)
        keys = set()
        for m in _re.finditer(r"(?:_?get_section\(\s*)?self\.config_dict\s*\)?((?:\s*\.get\(\s*\"[^\"]+\"[^)]*\))+)", src):
            keys.update(_re.findall(r"\.get\(\s*\"([^\"]+)\"", m.group(1)))
        uses_settings = "get_client_settings(" in src
        raw_reads[modname] = {"keys": sorted(keys), "settings": uses_settings}
    expected_reads = {"shorter_results": {"keys": ["fragments_module_name"], "settings": False},
                      "extract_operations": {"keys": ["extract-operations", "operations_module_name"], "settings": True},
                      "client_forward_refs": {"keys": [], "settings": False},
                      "no_reimports": {"keys": [], "settings": False}}
    accepted_reads = expected_reads
    # since /repo 13e2fa6 the options are read through config.get_section (the section the settings use): a read that
    # names the "tool" table again would bypass the legacy section
    for modname, mod in (("shorter_results", shorter_results), ("extract_operations", extract_operations)):
        run.count()
        if "get_section" not in inspect.getsource(mod):
            run.broken("K2 raw configuration reads", f"contrib/{modname}.py no longer reads its options through config.get_section")
    run.extra["plugin_raw_config_reads"] = raw_reads
    for k, v in raw_reads.items():
        run.count()
        if v != expected_reads[k] and v != accepted_reads[k]:   # accepted: after fixes/C15-plugins-read-legacy-section.diff
            run.broken("K2 raw configuration reads", f"contrib/{k}.py now reads {v} from the configuration; the scenarios vary "
                                                     f"{expected_reads[k]} — extend c15.option_scenarios")
    # ---------------------------------------------------------------- the configuration route: plugins/explorer.py
    # entries are class paths or module paths (a module stands for the plugin classes it exposes, in
    # inspect.getmembers order); the resolved list must keep the ORDER of the entries (Model: resolve_entries)
    import os
    import sys
    import tempfile

    from ariadne_codegen.plugins import explorer

    tmp = tempfile.mkdtemp(prefix="vh-c15-explorer-")
    try:
        with open(os.path.join(tmp, "c15_multi_plugins.py"), "w") as fh:
            fh.write("from ariadne_codegen.plugins.base import Plugin\n\n\nclass BetaPlugin(Plugin):\n    pass\n\n\n"
                     "class AlphaPlugin(Plugin):\n    pass\n")
        sys.path.insert(0, tmp)
        C = "ariadne_codegen.contrib."
        cp = {"S": C + "shorter_results.ShorterResultsPlugin", "E": C + "extract_operations.ExtractOperationsPlugin",
              "F": C + "client_forward_refs.ClientForwardRefsPlugin", "N": C + "no_reimports.NoReimportsPlugin"}
        mp = {"S": C + "shorter_results", "E": C + "extract_operations", "F": C + "client_forward_refs",
              "N": C + "no_reimports"}
        names = {"S": ["ShorterResultsPlugin"], "E": ["ExtractOperationsPlugin"], "F": ["ClientForwardRefsPlugin"],
                 "N": ["NoReimportsPlugin"]}
        multi = ("c15_multi_plugins", ["AlphaPlugin", "BetaPlugin"])
        contrib = ("ariadne_codegen.contrib", ["ClientForwardRefsPlugin", "ExtractOperationsPlugin", "NoReimportsPlugin",
                                                "ShorterResultsPlugin"])
        lists = []
        for perm in itertools.permutations("SEFN", 2):
            for forms in itertools.product("cm", repeat=2):
                lists.append([((cp if f == "c" else mp)[k], names[k]) for k, f in zip(perm, forms)])
        lists += [[multi, (cp["S"], names["S"])], [(cp["S"], names["S"]), multi], [(mp["F"], names["F"]), multi, (cp["E"], names["E"])],
                  [contrib], [(cp["S"], names["S"]), contrib], [contrib, (cp["S"], names["S"])],
                  [(mp["S"], names["S"]), (cp["F"], names["F"]), (mp["E"], names["E"]), (cp["N"], names["N"])]]
        for entries in lists:
            run.count()
            want = [n for _e, ns in entries for n in ns]          # flat_map in configuration order
            try:
                got = [c.__name__ for c in explorer.get_plugins_types([e for e, _ns in entries])]
            except Exception as exc:  # noqa
                run.broken("K1 explorer", f"get_plugins_types({[e for e, _ in entries]}) raises {type(exc).__name__}: {exc}")
                continue
            if got != want:
                run.violation(f"plugins/explorer.py does not keep configuration order: entries {[e for e, _ in entries]} "
                              f"resolve to {got}, configuration order is {want}",
                              {"plugins": [e for e, _ in entries], "resolved": got, "expected": want})
        run.dist("source_derived", "explorer-entry-lists", len(lists))
    finally:
        if tmp in sys.path:
            sys.path.remove(tmp)
        import shutil

        shutil.rmtree(tmp, ignore_errors=True)
    # ---------------------------------------------------------------- constant tables of the canonicaliser
    typing_names = [constants.OPTIONAL, constants.LIST, constants.DICT, constants.ANY, constants.UNION,
                    constants.ASYNC_ITERATOR]
    derived = [(0, constants.TYPING_MODULE, typing_names)]
    base_model = {}
    for imp in (constants.UNSET_IMPORT, constants.UPLOAD_IMPORT):
        base_model.setdefault((imp.level, imp.module), []).extend(a.name for a in imp.names)
    derived += [(lv, mod, names) for (lv, mod), names in base_model.items()]
    norm = lambda t: sorted((lv, mod, tuple(sorted(ns))) for lv, mod, ns in t)  # noqa: E731
    if norm(derived) != norm(canon.STD_CLIENT_IMPORTS):
        run.broken("K2 standard client imports", f"constants.py gives {derived}, canonicaliser has {canon.STD_CLIENT_IMPORTS}")
    run.dist("source_derived", "std-client-imports", len(derived))
    # ---------------------------------------------------------------- const_name / unquote, model vs code
    names = ["".join(t) for n in range(1, 6) for t in itertools.product("aB0_", repeat=n)]
    names += ["GetMe", "getHTTPServer2", "list_X0", "Fetch_stuff2", "OnOnNamed1X1", "__a", "A__b", "HTTP", "x1Y2z3"]
    # names built to collide if the suffix were not always appended
    for base_name in ["item", "userDetails", "A", "x_1", "HTTPServer"]:
        for suffix in ["", "Gql", "GQL", "_gql", "_GQL", "GqlGql", "Gql_GQL", "gql"]:
            names.append(base_name + suffix)
    names += ["Gql", "GQL", "gql", "_GQL", "GqlGql"]
    res = model.batch("C15", [[Sym("const_name"), n] for n in names])
    dummy = object.__new__(extract_operations.ExtractOperationsPlugin)
    bad = 0
    for n, r in zip(names, res):
        run.count()
        real = extract_operations.ExtractOperationsPlugin._get_gql_variable_name(dummy, n)
        if real != r and bad < 5:
            bad += 1
            run.violation(f"K1 const_name: model {r!r} vs ExtractOperationsPlugin._get_gql_variable_name {real!r} for {n!r}",
                          {"name": n, "model": r, "impl": real}, found_input=False)
    run.dist("source_derived", "const_name-cases", len(names))
    ids = ['"X"', "'X'", "X", "Optional", '"GetMeMe"', "str", '"a', "'a\"", '""', "List"]
    res = model.batch("C15", [[Sym("unquote"), i] for i in ids])
    for i, r in zip(ids, res):
        run.count()
        try:
            node, _names = shorter_results._update_node(ast.Name(id=i))
            real = node.id
        except SyntaxError:
            real = None  # the code raises on an unbalanced quote; never generated
        if real is not None and real != r:
            run.violation(f"K1 unquote: model {r!r} vs shorter_results._update_node {real!r} for id {i!r}",
                          {"id": i, "model": r, "impl": real}, found_input=False)
